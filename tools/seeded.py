#!/venv/bin/python
"""Run the checks against the seeded breaking changes kept under /verif/seeded/<name>/ (patch.diff + meta.json).
Default: a scratch git worktree of /repo's HEAD is created under /tmp, each patch is applied there and the check is
run with VERIF_REPO pointing at it (so /repo itself is never touched while other work is going on); the worktree is
removed at the end.  With --in-place: git -C /repo apply patch.diff ; ./check ; git -C /repo checkout -- . (always).
usage: tools/seeded.py [--in-place] [name ...]        writes seeded/RESULTS.md"""
import json, os, subprocess, sys, time
HERE = os.path.dirname(os.path.dirname(os.path.abspath(__file__)))
REPO = '/repo'
INPLACE = '--in-place' in sys.argv
sys.argv = [a for a in sys.argv if a != '--in-place']
if not INPLACE:
    REPO = f'/tmp/verif_seeded_{os.getpid()}'
    subprocess.check_call(['git', '-C', '/repo', 'worktree', 'add', '-q', '--detach', REPO, 'HEAD'])
ENV = dict(os.environ, VERIF_REPO=REPO)
names = sys.argv[1:] or sorted(d for d in os.listdir(os.path.join(HERE, 'seeded'))
                               if os.path.isdir(os.path.join(HERE, 'seeded', d)))
rows = []
dirty = subprocess.run(['git', '-C', REPO, 'status', '--porcelain', '--untracked-files=no'], stdout=subprocess.PIPE, text=True).stdout.strip()
if dirty:
    print('refusing to run: /repo has uncommitted changes to tracked files:\n' + dirty)
    sys.exit(2)
for name in names:
    d = os.path.join(HERE, 'seeded', name)
    patch = os.path.join(d, 'patch.diff')
    if not os.path.exists(patch):
        continue
    meta = json.load(open(os.path.join(d, 'meta.json')))
    props = meta['property'] if isinstance(meta['property'], list) else [meta['property']]
    rc = subprocess.run(['git', '-C', REPO, 'apply', patch]).returncode
    if rc:
        rows.append((name, ','.join(props), 'PATCH DOES NOT APPLY', '', 0))
        continue
    try:
        for prop in props:
            t0 = time.time()
            p = subprocess.run([os.path.join(HERE, 'check'), prop, '--tier', 'quick'], cwd=HERE, stdout=subprocess.PIPE,
                               stderr=subprocess.STDOUT, text=True, env=ENV)
            viol = [l for l in p.stdout.splitlines() if l.startswith('VIOLATION')]
            kind = 'MISSED'
            detail = ''
            if viol:
                kind = 'caught (no-failing-input-found)' if all('no-failing-input-found' in v for v in viol) else 'caught (failing input)'
                rp = viol[0].split('replay=')[1].split()[0]
                try:
                    r = json.load(open(rp))
                    detail = (r.get('key') or r.get('correspondence') or r.get('kind') or '') + ': ' + str(r.get('description', ''))[:100]
                except Exception:
                    pass
            elif p.returncode != 0:
                kind = f'check error rc={p.returncode}'
                detail = p.stdout.strip().splitlines()[-1][:120] if p.stdout.strip() else ''
            rows.append((name, prop, kind, detail, time.time() - t0))
            print(name, prop, kind, detail, flush=True)
    finally:
        subprocess.run(['git', '-C', REPO, 'checkout', '--', '.'])
if not INPLACE:
    subprocess.run(['git', '-C', '/repo', 'worktree', 'remove', '--force', REPO])
store_p = os.path.join(HERE, 'seeded', 'results.json')
store = json.load(open(store_p)) if os.path.exists(store_p) else {}
for r in rows:
    store[f'{r[0]}|{r[1]}'] = {'seeded': r[0], 'property': r[1], 'result': r[2], 'replay_says': r[3], 'seconds': round(r[4])}
json.dump(store, open(store_p, 'w'), indent=1, sort_keys=True)
with open(os.path.join(HERE, 'seeded', 'RESULTS.md'), 'w') as f:
    f.write('# Seeded breaking changes vs checks (quick tier)\n\nEach change was written by an independent sub-agent that saw only the '
            'property text, passes the pinned test-suite and comes with a demo that fails only with the change.\n\n'
            '| seeded change | property | result | what the replay says | s |\n|---|---|---|---|---|\n')
    for k in sorted(store):
        r = store[k]
        f.write(f"| {r['seeded']} | {r['property']} | {r['result']} | {r['replay_says']} | {r['seconds']} |\n")
print('missed:', [r[0] for r in rows if r[2] == 'MISSED' or r[2].startswith('check error') or r[2].startswith('PATCH')])
