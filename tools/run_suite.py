#!/venv/bin/python
"""Run /repo's pinned test-suite (command of /root/.vp/BASELINE.json) and compare with its stable_pass list.
usage: tools/run_suite.py [repo_dir]     exit 0 iff every stable_pass test passes."""
import json, subprocess, sys, os, tempfile, xml.etree.ElementTree as ET
repo = sys.argv[1] if len(sys.argv) > 1 else '/repo'
base = json.load(open('/root/.vp/BASELINE.json'))
fd, xml = tempfile.mkstemp(suffix='.junit.xml'); os.close(fd)
env = dict(os.environ); env.pop('GNPY_VERIF', None)
subprocess.call(['/venv/bin/python', '-m', 'pytest', '-ra', '-q', '-p', 'no:cacheprovider', '--timeout=900',
                 '--continue-on-collection-errors', '--junitxml=' + xml], cwd=repo, env=env,
                stdout=subprocess.DEVNULL, stderr=subprocess.DEVNULL)
passed = set()
for tc in ET.parse(xml).getroot().iter('testcase'):
    if not any(c.tag in ('failure', 'error', 'skipped') for c in tc):
        passed.add(f"{tc.get('classname')}::{tc.get('name')}")
os.unlink(xml)
missing = [t for t in base['stable_pass'] if t not in passed]
print(f'passed={len(passed)} stable_pass={len(base["stable_pass"])} missing={len(missing)}')
for t in missing[:40]:
    print('  NOT PASSING:', t)
sys.exit(1 if missing else 0)
