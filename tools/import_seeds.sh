#!/bin/bash
# usage: tools/import_seeds.sh C07 [outdir] [name-prefix, e.g. r2]   verifies demo (passes clean, fails patched) in a scratch worktree, copies to seeded/
P=$1; p=$(echo $P | tr A-Z a-z); OUT=${2:-/tmp/seed_${p}_out}
W=/tmp/seed_verify_$$
git -C /repo worktree add -q --detach $W HEAD || exit 1
for d in $OUT/m*; do
  k=$(basename $d)
  [ -f $d/patch.diff ] || continue
  ( cd $W; PYTHONPATH=$W PYTHONHASHSEED=0 timeout 600 /venv/bin/python $d/demo.py >/dev/null 2>&1; a=$?
    if git apply $d/patch.diff 2>/dev/null; then
      PYTHONPATH=$W PYTHONHASHSEED=0 timeout 600 /venv/bin/python $d/demo.py > /tmp/demo_out_$$.txt 2>&1; b=$?
      git checkout -- . ; git clean -fdq
    else b=APPLYFAIL; fi
    echo "$P $k clean_rc=$a patched_rc=$b: $(tail -1 /tmp/demo_out_$$.txt 2>/dev/null | cut -c1-140)"
    if [ "$a" = "0" ] && [ "$b" = "1" ]; then
      mkdir -p /verif/seeded/${P}_${3:-}$k; cp $d/patch.diff $d/demo.py $d/meta.json /verif/seeded/${P}_${3:-}$k/
    fi )
done
git -C /repo worktree remove --force $W
