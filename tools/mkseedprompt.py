import json,sys,glob,os
pid=sys.argv[1]; n=sys.argv[2] if len(sys.argv)>2 else '3'
for l in open('/verif/properties.jsonl'):
    p=json.loads(l)
    if p['id']==pid: break
wt=f'/tmp/seed5_{pid.lower()}'
mech='; '.join(f"{m['name']} ({m['where']})" for m in p['anchors']['mechanism'])
prev=[]
for d in sorted(glob.glob(f'/verif/seeded/{pid}_*m[0-9]')):
    m=json.load(open(os.path.join(d,'meta.json')))
    files=', '.join(m.get('files',[])) if isinstance(m.get('files'),list) else str(m.get('files'))
    prev.append(f"- ({files}) {str(m.get('clause'))[:160]} — needs: {str(m.get('needs'))[:260]}")
prevtxt='\n'.join(prev)
print(f"""You are testing a verification effort by planting realistic bugs. You have your own scratch git worktree of the Python project oopt-gnpy (GNPy optical network simulator) at {wt} (run code with: cd {wt} && PYTHONPATH={wt} /venv/bin/python ...; run tests with: cd {wt} && PYTHONPATH={wt} /venv/bin/python -m pytest -q -p no:cacheprovider tests/<file>). Work ONLY inside {wt} and {wt}_out (create it). Do not look at or touch /verif or /repo.

The semantic property under test:
"{pid} — {p['title']}. {p['statement']} Quantified: {p['quantifier']['text']}"
Code that is meant to make it hold: {mech}.

This is a FIFTH round. The following changes were already produced in earlier rounds — do NOT repeat them or close variants; look for different functions, different clauses of the property, different kinds of trigger:
{prevtxt}

Task: produce {n} different, independent code changes (mutations) to the gnpy source (not to tests), each of which (1) breaks the property above, (2) still imports/compiles, (3) keeps the ENTIRE existing test suite passing: run the full suite `cd {wt} && PYTHONPATH={wt} /venv/bin/python -m pytest -q -p no:cacheprovider --timeout=900 --deselect tests/test_invocation.py --deselect tests/test_parser.py::test_auto_design_generation_fromjson --deselect tests/test_parser.py::test_auto_design_generation_fromxlsgainmode` (takes ~5 min; the deselected tests fail already on the unmodified tree; while iterating run only the most relevant test files, but run the full suite once per final mutation, one suite at a time), and (4) needs something SPECIFIC to manifest — a particular multi-step sequence of operations, an unusual but valid input or configuration that the shipped examples/tests do not use, a boundary value, a particular ordering, or two cooperating sites that each look fine alone — NOT something ordinary use would expose at once. Prefer subtle, realistic programmer mistakes (off-by-one, wrong variable in one branch, condition weakened, sign/units slip in a rarely used branch, state shared or not reset in one case, a rounding or ordering slip, a default applied in the wrong case) over blunt sabotage. Make them diverse.
For each mutation k=1..{n} write into {wt}_out/m<k>/: patch.diff (from `git diff` in the worktree, applying cleanly with `git apply` on the unmodified tree), demo.py (a small standalone program using only the gnpy API — it may read the example/test data files shipped in the repository via paths relative to the gnpy package — that exits 0 on the unmodified tree and exits 1, printing which clause of the property is violated, with the patch applied; run it both ways with PYTHONPATH={wt} to confirm), and meta.json {{"property":"{pid}","clause":"...","needs":"what specific situation is needed to manifest","files":[...],"tests_run":"command and result"}}. After each mutation, revert the worktree (git checkout -- .) before the next. At the end leave the worktree clean (git status shows nothing modified). Final message: a short table of the mutations (what, where, what it needs to manifest) and confirmation of demo/tests results.""")
