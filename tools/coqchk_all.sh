#!/bin/bash
# Re-check every property file (and everything it depends on) with the independent checker coqchk; -o prints the axioms.
# usage: tools/coqchk_all.sh [Cxx ...]   writes notes/coqchk/Cxx.log and a summary on stdout
cd "$(dirname "$0")/../coq" || exit 1
mkdir -p ../notes/coqchk
P=${@:-$(ls theories/Props/*.v | sed 's#.*/##; s#\.v##')}
for p in $P; do
  timeout 3000 coqchk -silent -o -Q theories Verif Verif.Props.$p > ../notes/coqchk/$p.log 2>&1
  rc=$?
  ax=$(sed -n '/^\* Axioms:/,/^\* Constants\/Inductives relying on type-in-type/p' ../notes/coqchk/$p.log | grep -c "^    ")
  tit=$(grep -A1 "relying on type-in-type" ../notes/coqchk/$p.log | tail -1 | tr -d ' ')
  echo "$p rc=$rc axioms_and_primitives_listed=$ax type-in-type=$tit"
done
