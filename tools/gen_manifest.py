#!/venv/bin/python
"""Regenerates /verif/MANIFEST.json from the table below (keeps it schema-valid at all times)."""
import json
import os

HERE = os.path.dirname(os.path.dirname(os.path.abspath(__file__)))

# property -> (technique, level text, level note, design ref)
CLAIMED = {
    'C14': (
        'Coq proof over an executable model of spectrum_assignment.py (invariant by induction over request '
        'histories, per-request specification, totality) + step-by-step model/implementation correspondence (vm_compute) '
        '+ property oracle on observed states + translator tie (pygen -> Gen/SpectrumGen.v: the primitives, the loop '
        'conditions and the accept/block decisions of spectrum_assignment.py re-translated to Gallina on every run and '
        'proved equal to the model; bookkeeping template-matched, fail-closed)',
        'Theorems in coq/theories/Props/C14.v hold for every request history, OMS set and usable-band layout of the '
        'Gallina model; the model is run against the real pth_assign_spectrum after every request of generated '
        'histories, and the property is re-evaluated on the implementation\'s own before/after bitmaps.',
        'Trusted: Coq kernel + vm_compute; hand-written model tied to the code only by the correspondence run; '
        'generators and text bridge; fake path elements carrying only oms_id (OMS-set of real paths tied by the oracle).',
        'DESIGN.md §7 C14'),
    'C07': (
        'Coq proof over a Q-model of SpectralInformation construction / demux / mux / find_common_range / filter_si / '
        'amplifier dispatch (permutation invariance, exact rejection criterion, partition) + model/implementation '
        'correspondence (vm_compute) + independent oracle at every element boundary of really designed paths',
        '16 theorems closed under the global context: order irrelevance (mk_si_perm, launch_perm), exact rejection '
        'criterion incl. adjacent<->pairwise and equal frequencies, sortedness/intactness, common-range specification and '
        'disjointness, demux/mux partition, filter-then-path (every amplifier keeps every channel, one stage each). Tied to '
        'gnpy by ~1000 (quick) / 13.5k (thorough) generated cases incl. single/multi/mixed-band designed paths with '
        'band-edge +-1 Hz channels.',
        'Hypotheses: slot widths > 0, well-formed amplifier band declarations. numpy.argsort modelled as a stable sort; '
        'physical payload not modelled here (only which stage touched which channel). Trusted: Coq kernel + vm_compute, '
        'generators, text bridge.',
        'DESIGN.md §7 C07'),
    'C03': (
        'Coq proof over the reals about a Num-polymorphic Gallina transcription of the GN closed form + the same term '
        'run at binary64 (PrimFloat, vm_compute) against NliSolver.compute_nli + scaling-law oracles on the implementation',
        'Non-negativity, cube law for every real k, monotonicity in every power, added channel, permutation invariance '
        'and the closed form with 16/27 / 32/27 are proved over Coq reals for all fibres/combs about the transcription of '
        '_gn_analytic/_psi/Fiber.alpha/beta2/gamma; the same term at binary64 agrees with compute_nli to ~3e-13 on random '
        'fibres x combs (200 quick / 3000 thorough).',
        'Standard real-number axioms (sig_not_dec, sig_forall_dec, functional_extensionality_dep, classic). NumF '
        '(PrimFloat exp/ln/asinh by range reduction) approximating NumR is trusted, self-tested against libm each run. '
        'GGN methods out of scope (the statement is about the analytic method).',
        'DESIGN.md §7 C03'),
    'C04': (
        'Coq proof (clamp over Q, closed; NF/ASE/band/flat profile over reals) + Num-polymorphic correspondence with '
        'Edfa/Multiband_amplifier on every shipped library entry + oracles on the implementation',
        'Clamp min(set, p_max - total pin): at most set, at most p_max, minimal, greatest; variable-gain NF: nf_min at '
        'flatmax and nf_max at gain_min (exact unclipped, within 0.01 dB for every accepted datasheet), antitone, dB-for-dB '
        'padding; ASE = G(ase_in + hfB NF); out-of-band channels dropped; flat profile mean = effective gain.',
        'Secant step of the tilted (DGT) profile and the fixed-gain / OpenROADM / polynomial / dual-stage (Friis) NF '
        'formulas are proved as the code computes them and checked against documentation formulas; the total-gain clause '
        'under tilt/ripple is judged with a 0.3 dB band. Real axioms for the R theorems; NumF~NumR trusted. Open finding: '
        'flat DGT + tilt.',
        'DESIGN.md §7 C04'),
    'C06': (
        'Coq proof over a dB-domain Q model of Roadm.propagate, target resolution, per-degree target population and the '
        'single-policy checks + element-level and loader-level correspondence (vm_compute) + oracle on observed powers',
        'For every ROADM configuration, degree pair and spectrum of the model: out = min(target+offset, pin-loss), no '
        'gain, cap, exactness, shares untouched, resolution degree>node, design step preserves targets, exactly-one-policy '
        'acceptance/rejection; run against the real Roadm.__call__, json_io/RoadmParams loading and design (1e-9 dB).',
        'Harness-computed log10 values for PSD/PSW/baud/slot enter the model as inputs. Null policy values (open finding '
        'F16) are excluded from one_policy_accepted (refutation witness included). PMD/PDL quadrature checked by the oracle only.',
        'DESIGN.md §7 C06'),
    'C09': (
        'Coq proof over a Q model of the power design (budget closure by induction along any OMS, power rule, saturation, '
        'VOA rule) + per-OMS designed-value correspondence on random networks + two oracles (static budget/rule, propagated '
        'design comb)',
        'Budget closure from loaded elements through connector/EOL/padding to every amplifier, round2float grid, clamp, '
        '0 before a ROADM, saturation reduction, operator-kept settings and VOA rule proved about Model/PowerDesign.v; '
        'three guarded clauses carry vm_compute refutation witnesses = open findings.',
        'Multiband OMS (budget closure per band) and Raman spans (gain estimate as an input) are modelled; SRS tilt is not '
        '(Raman flag off); NF values, design bands and Raman gain estimates are read from gnpy as inputs. Open finding: '
        'gain-mode saturation test ignores in_voa.',
        'DESIGN.md §7 C09'),
    'C10': (
        'Coq proof over a Q model of get_node_restrictions / filter_edfa_list_based_on_targets / select_edfa + '
        'correspondence on select_edfa called directly and on every amplifier node of auto-designed networks + brute-force oracle',
        'Restriction precedence, permitted/band/Raman-only-if-allowed, capable => chosen capable and quietest (first '
        'minimum), exact fall-back and error behaviour proved for every library, NF assignment and target.',
        'NF per candidate is an input (C04 owns the NF model). Multiband permitted set, preselection and per-band choice are '
        'modelled; each band pick belongs to a permitted multiband model (proved); the designed multiband type_variety need not be permitted (open finding F-multiband-type, refutation witness). Multiband '
        'nodes with an imposed type_variety are not generated.',
        'DESIGN.md §7 C10'),
    'C11': (
        'Proved validator (route_ok) + proved-complete DFS reference search (model_route) + potential certificates, '
        'applied in Coq to every path gnpy returns; faithful models of ispart/explicit_path/compute_constrained_path/'
        'correct_json_route_list/find_reversed_path compared per request',
        'Validator reflection (walk, loop-free, ends, includes in order), completeness of the enumeration, optimality / '
        'NO_PATH / NO_PATH_WITH_CONSTRAINT / LOOSE fall-back specification of model_route, explicit answers are routes, '
        'reverse path visits the same sites; 2-8 ROADM meshes judged exhaustively, 12-40 site meshes by route_ok + '
        '(leg-wise) potential certificates.',
        'networkx path enumeration is not modelled (its outputs are judged). Optimality of an explicit answer is proved '
        'under chain/covered hypotheses whose certificate is evaluated in Coq on every explicit answer. No parallel lines '
        'between two sites.',
        'DESIGN.md §4(b), §7 C11'),
    'C12': (
        'Proved validators (disjoint_ok on unordered ROADM links, route_ok) + proved-complete exists_disjoint_pair; '
        'faithful models of isdisjoint / short list / deduplicate_disjunctions / requests_aggregation compared per batch',
        'Every returned set of paths is judged in Coq against the groups as declared; DisjunctionError on single pairs is '
        'judged by the complete existence procedure (<= 80 elements); dedup and aggregation groups_preserved proved.',
        'The five pruning steps of compute_path_dsjctn are not modelled (outputs judged); DisjunctionErrors are judged by '
        'the proved-complete pair / whole-batch existence procedures on the small meshes (bounded search; beyond the bound '
        'counted, not judged).',
        'DESIGN.md §4(b), §7 C12'),
    'C15': (
        'Coq proof over Z/Q about Model/Oms.v (slot<->frequency, create_oms_bitmap, align_grids, same extent, common range, '
        'OMS partition, reverse pairing, whole build_oms_list on chain-structured graphs) + correspondence on align_grids / '
        'create_oms_bitmap / build_oms_list + oracle on the implementation',
        'Round trips (exact over Q; finite PrimFloat instance for n in [-4000,4000]), bitmap length/marks, align_spec for '
        'all lists of well-formed maps, pointwise soundness/completeness of find_common_range, partition + pairing; the '
        'theorem hypotheses are decidable and evaluated in Coq on every explored network.',
        'Three open findings have refuted-statement theorems. Off-grid band edges are compared but the FREE-exactly clause '
        'is only counted there. The PrimFloat theorem depends on the kernel float primitives.',
        'DESIGN.md §7 C15'),
    'C18': (
        'Coq proof over a JSON AST with exact decimals (null handling, decimal formatting/parsing, convert_dict/convert_back, '
        'structural converter pairs, dispatch round trip) with the precision table regenerated from precision_dict.py on '
        'every run + model/implementation correspondence + implementation-level oracle on all converters and loaders',
        'None<->[None], fmt/parse exact within declared digits and rounded once beyond, whole-document convert/back, six '
        'structural converter pairs, full dispatch round trip and idempotence for sim-params/spectrum/service documents, '
        'Edfa alias specification; refutation witnesses for the open findings.',
        'Whole-document round trip proved for all five kinds under canonical key order (what the converters produce); equipment '
        'with a RamanFiber raman_efficiency block is the open finding F16; the '
        'loaders, libyang acceptance and the API section are covered by the oracle and correspondence only.',
        'DESIGN.md §7 C18'),
    'C13': (
        'Coq proof over an executable Q model (update_snr from raw figures, penalty normalisation/interpolation with '
        'infinity outside the table, fixed-mode verdict, mode loop as first decisive pair in a proved exploration order, '
        'stateful loop) + correspondence of update_snr / calc_penalties / whole decisions against figures of fresh '
        'propagations + oracle on the implementation',
        'History independence and once-each noise accounting of the receiver figures, verdict_fixed_spec, '
        'penalty_outside_blocks, mode_loop_spec / exploration order / selected & converse / no-feasible-mode / no-baudrate, '
        'independence of the loop from amplifier state; threshold-equal decisions are not judged (counted).',
        'The line-with-state model used for the loop-state theorems is structural (no NLI, simplified ROADM); its state '
        'component is tied numerically (amp_history predicts every observed effective_gain to 1e-9 dB), its spectra by the '
        'in-loop vs fresh oracle. dB<->linear conversions are harness inputs.',
        'DESIGN.md §7 C13'),
    'C16': (
        'Coq proof on a batch model with explicit element state (batch_indep, batch_perm, copy_needed_refuted) + proved '
        'validator obs_ok applied to observed planning() runs (batch / each request alone / 3 permutations on one network; '
        'network_to_json and deep element snapshot before = after)',
        'For every batch, position, spectrum policy and state of the model the non-spectrum result of a request equals '
        'the request alone and the network is unchanged; permutations permute results; the observed behaviour of gnpy is '
        'judged by a validator proved equivalent to its specification plus a field-by-field comparison at 1e-9.',
        'The batch theorems are structural; the assurance about gnpy comes from the validator/oracle runs, the amplifier '
        'state tie and a sensitivity run without deepcopy. The clause "only the spectrum slots depend on earlier requests" is '
        'proved by instantiating the spectrum fold of planning with the C14 model (planning_spectrum_is_C14_history).',
        'DESIGN.md §7 C16'),
    'C20': (
        'Coq proof over an executable model of convert.py / service_sheet.py on parsed rows (symbolic uids + injective '
        'rendering, chain decomposition of the connection list) + workbook-level correspondence (real .xlsx via openpyxl, '
        'xlrd look-alikes, shipped fixtures; vm_compute) + oracle on the converted JSON, network_from_json + '
        'designed_network, read_service_sheet',
        'For every row list: accepted workbooks yield one ROADM+transceiver per ROADM site, fused/amplifier pairs per line '
        'site, one fibre per direction per link with its side values (west defaulting to east), unique names, existing end '
        'points, one predecessor/successor per line element, Eqpt settings on the amplifier facing the named neighbour; '
        'every broken sanity rule gives a NetworkTopologyError naming the rule; service rows give the stated units, route '
        'list, strictness and one synchronisation vector per disjoint-from entry.',
        'Route-name correction, per-degree impairment columns and header recognition are modelled and proved; not '
        'modelled: region filter, wrongly typed cells. The real .xls parser is exercised by the shipped fixtures only (no '
        'xlwt). Open finding: Eqpt row on a FUSED site.',
        'DESIGN.md §7 C20'),
    'C05': (
        'Coq proof (Q: Raman-off budget, lumped merge, path additivity/permutation invariance, CD pi-cancellation, Euler '
        'zero-power closed form and lumped-once; R: PMD/PDL quadrature, discretisation bound, zero-power limit, order-1 pump '
        'gain) + correspondence on Fiber.__call__, designed paths, all permutations of <= 5 span units, '
        '_create_lumped_losses and the Euler scheme',
        'fiber_budget for every lumped list, lumped_merge (sum in dB / product in linear for every position list), path '
        'totals additive and Permutation-invariant, quadrature folds, Euler solver: zero-power factor = step product x '
        'lumped product with each lumped loss once, |ln + alpha L| bounded by 2 sum (alpha dz)^2.',
        'Raman on: perturbative orders 0-4 and the iterative co/counter algorithm are modelled over Num and run at binary64 '
        'against the solver (1e-9); order-1 low-power bound, lumped-once, Euler agreement in the zero-power limit and the '
        'backward-sweep step theorems are proved; perturbative orders 2-4 at non-zero power, convergence of the iteration and '
        'perturbative-vs-numerical agreement are tested with measured tolerances. R theorems use the stdlib real axioms.',
        'DESIGN.md §7 C05, §9'),
    'C19': (
        'Verified validator: response_ok proved equivalent to the declarative Spec; model of ResultElement.json proved to '
        'meet Spec; proved models of requests_aggregation and of the jsontocsv row; every real response, CSV row and '
        'aggregation result of random planning batches judged by the validator / compared with the models (vm_compute)',
        'Spec: id, route hop by hop, labels iff served and equal to (N,M), transponder type/mode, forward/reverse metrics = '
        'round-half-even to 2 decimals of exact means/min, blocked => reason and no labels, both directions iff '
        'bidirectional; aggregation partitions the originals (joined id, summed bandwidth, concatenated N/M, equal compared '
        'fields incl. bidir); CSV row states the observed values with Pass? = (OSNR+margin <= round2(min SNR)) and never raises.',
        'Spec tolerates extra keys (exact shape covered by correspondence). watt2dbm enters the CSV model as a harness input. '
        'Means within 1e-9 of a rounding tie are not judged (counted).',
        'DESIGN.md §7 C19'),
    'C01': (
        'Coq proof over a Q model of the SpectralInformation bookkeeping (invariant by induction over every op history, '
        'element program and path; exact accounting; GSNR identity incl. Transceiver.update_snr) + exact-Q replay of real '
        'SpectralInformation histories and of the traced primitive updates of every element of designed networks',
        'Inv (0<p, shares>=0, s+a+n=1) is preserved by att/gain/add_ase/add_nli exactly as info.py computes them, hence by '
        'every history, element and path on whole spectra incl. demux/mux (permutation of the same records); add_ase / '
        'add_nli / att accounting is exact; 1/GSNR = 1/OSNR + 1/SNR_NLI for propagated and reported figures (signal '
        'bandwidth and 0.1 nm). All closed under the global context.',
        'Scope nli <= pch (launch <= +10 dBm) is a hypothesis of add_nli_inv and is checked on every executed add_nli. NLI and '
        'ASE values enter as logged (C03/C04 own them).',
        'DESIGN.md §7 C01'),
    'C02': (
        'Coq proof (att/gain leave the shares Leibniz-equal; add_ase/add_nli lower only their side; per element kind; '
        'monotonicity between any i<=j along any history and path via a transitive domination order) + tracing tie: the '
        'primitive updates each real element applies must be an instance of its kind program (checked in Coq) and replay exactly',
        'Roadm/Fused/Transceiver: same shares; Edfa/Multiband: only ASE; Fiber: only NLI; Raman: non-improving; '
        'cross-multiplied ratios so zero noise needs no special case; whole spectra incl. Multiband demux/mux. Oracle on '
        'every channel of every element and primitive update (bit-identical across passive elements, monotone otherwise).',
        'An element that changes a ratio behind the primitives is caught by the before/after snapshot replay, not by proof. '
        'NLI/ASE magnitudes are not judged here.',
        'DESIGN.md §7 C02'),
    'C08': (
        'Coq proof over a chain model of auto-design (split, amplifier insertion, junction rule, erase, totals, connectors, '
        'padding; validators with reflection theorems) + every line of random networks compared with design_line and judged '
        'by the proved validators + graph-level oracle (chains, reachability, unique names)',
        'split_length / split_fibre (equal spans, totals preserved, <= max), no fibre-fibre / ROADM-fibre junction left and '
        'no amplifier next to Fused/Transceiver, erase-amps gives back the split chain, names unique, connectors set, every '
        'non-Raman amp-to-amp span >= padding with att_in only on its first fibre.',
        'Multiband kind logic is modelled but not exercised by correspondence; amplifier values are C09; selected varieties '
        'and Raman gain estimates are inputs. Four open findings (lumped losses on split, min_length > max_length, padding at '
        'Fused, Raman split) carry refutation witnesses.',
        'DESIGN.md §7 C08'),
    'C17': (
        'Coq proof (amplifier-side export/reload/redesign fixpoint in power mode for any OMS and any number of rounds; '
        'connector/padding/export idempotence; span-loss cache; SimParams save/restore; params round trip) + '
        'implementation-vs-itself oracle over 1-3 rounds with counterfactual attribution + amplifier-walk correspondence',
        'redesign_fixpoint_partial, n_rounds, design_deterministic, eol_growth (finding F7 as a theorem), '
        'simparams_restored, params_roundtrip_raman/nli; network_to_json(design(x)) vs design(load(export(design(x)))) and '
        'propagation, design twice, vars() of the shared SimParams before/after.',
        'Whole-line fixpoint proved for power mode / EOL = 0 / no Raman fibre; gain mode proved within the export rounding; '
        'lines with Raman spans are tested. Open findings: EOL re-added on every redesign (F7), Raman estimate ignoring '
        'out_voa (F22).',
        'DESIGN.md §7 C17'),
}

NOT_YET = {}

TITLES = {}
for line in open(os.path.join(HERE, 'properties.jsonl')):
    p = json.loads(line)
    TITLES[p['id']] = p['title']


# property -> translator module -> generated file
TIES = {
    'C01': 'pygen_c01 -> Gen/SIGen.v', 'C02': 'pygen_c01 -> Gen/SIGen.v', 'C03': 'pygen_c03 -> Gen/GNGen.v',
    'C04': 'pygen_c04 -> Gen/AmpGen.v', 'C05': 'pygen_c05 -> Gen/FiberGen.v', 'C06': 'pygen_c06 -> Gen/RoadmGen.v',
    'C07': 'pygen_c07 -> Gen/ChannelsGen.v', 'C08': 'pygen_c08 -> Gen/ChainGen.v',
    'C09': 'pygen_c09 -> Gen/PowerDesignGen.v', 'C10': 'pygen_c10 -> Gen/SelectGen.v',
    'C11': 'pygen_c11 -> Gen/RouteGen.v', 'C12': 'pygen_c11 -> Gen/DisjointGen.v', 'C13': 'pygen_c13 -> Gen/VerdictGen.v',
    'C14': 'pygen -> Gen/SpectrumGen.v', 'C15': 'pygen_c15 -> Gen/OmsGen.v', 'C16': 'pygen_c16 -> Gen/BatchGen.v',
    'C17': 'pygen_c17 -> Gen/RedesignGen.v', 'C18': 'pygen_c18 -> Gen/YangGen.v + Model/YangPrecision.v',
    'C19': 'pygen_c19 -> Gen/ResponseGen.v', 'C20': 'pygen_c20 -> Gen/SheetGen.v',
}


def main():
    checks = []
    for pid in sorted(CLAIMED):
        tech, text, note, ref = CLAIMED[pid]
        if 'translator tie' not in tech:
            tech += (' + translator tie (' + TIES[pid] + ': decision-critical source functions re-translated from '
                     '/repo to Gallina on every run, proved equal to the model; surrounding bookkeeping template-matched, '
                     'fail-closed)')
        note += (' The translator (harness/pygen*.py) and its reading rules are part of the trusted base; a harmless '
                 'rewrite of a tied function is reported as a broken tie (VIOLATION ... no-failing-input-found).')
        checks.append({
            'property_id': pid,
            'quick_cmd': f'./check {pid} --tier quick',
            'thorough_cmd': f'./check {pid} --tier thorough',
            'evidence_file': f'/verif/evidence/{pid}.json',
            'replay_cmd_template': f'./check {pid} --replay {{path}}',
            'engine': 'coq-model+correspondence',
            'level_claimed': {'category': 'proof', 'text': text, 'design_ref': ref},
            'level_note': note,
            'technique': tech,
        })
    na = [{'property_id': pid, 'reason': NOT_YET.get(pid, 'check not built yet (work in progress); see DESIGN.md §7 for the plan')}
          for pid in sorted(TITLES) if pid not in CLAIMED]
    m = {
        'version': 1,
        'setup_cmd': 'cd /verif/coq && coq_makefile -f _CoqProject -o Makefile && timeout 3000 make -j16',
        'hooks': {
            'guard': 'GNPY_VERIF',
            'enable': 'no source hooks: the harness instruments gnpy at run time by wrapping functions from the '
                      'check process (GNPY_VERIF=1 is exported by ./check for future guarded hooks)',
            'baseline_off_cmd': 'cd /repo && /venv/bin/python -m pytest -ra -q -p no:cacheprovider --timeout=900 '
                                '--continue-on-collection-errors',
            'source_commits': [],
            'add_only': True,
        },
        'engines': [{
            'name': 'coq-model+correspondence', 'path': '/verif/check',
            'serves_properties': sorted(CLAIMED),
            'kind_free_text': 'Coq 8.16 development (coq/theories: Model = executable Gallina models, Proofs, Props = '
                              'property theorems + Print Assumptions) rebuilt by every check; Python harness drives '
                              '/repo\'s gnpy and the model (coqc + vm_compute on generated case files) on the same inputs',
        }],
        'checks': checks,
        'not_applicable': na,
        'notes': 'Known findings: /verif/known_findings.json. Seeded breaking changes: /verif/seeded/. '
                 'Repairs of genuine defects are the "fix:" commits in /repo listed as fixed there.',
    }
    with open(os.path.join(HERE, 'MANIFEST.json'), 'w') as f:
        json.dump(m, f, indent=1)
    import jsonschema  # noqa
    jsonschema.validate(m, json.load(open('/root/.vp/MANIFEST.schema.json')))
    print('MANIFEST.json written:', len(checks), 'checks,', len(na), 'not_applicable')


if __name__ == '__main__':
    main()
