#!/venv/bin/python
"""Regenerates /verif/MANIFEST.json from the table below (keeps it schema-valid at all times)."""
import json
import os

HERE = os.path.dirname(os.path.dirname(os.path.abspath(__file__)))

# property -> (technique, level text, level note, design ref)
CLAIMED = {
    'C14': (
        'Coq proof over an executable model of spectrum_assignment.py (invariant by induction over request '
        'histories) + step-by-step model/implementation correspondence (vm_compute) + property oracle on observed states',
        'Theorems in coq/theories/Props/C14.v hold for every request history, OMS set and usable-band layout of the '
        'Gallina model; the model is run against the real pth_assign_spectrum after every request of generated '
        'histories, and the property is re-evaluated on the implementation\'s own before/after bitmaps.',
        'Trusted: Coq kernel + vm_compute; hand-written model tied to the code only by the correspondence run; '
        'generators and text bridge; fake path elements carrying only oms_id (OMS-set of real paths tied by the oracle).',
        'DESIGN.md §7 C14'),
    'C07': (
        'Coq proof over a Q-model of SpectralInformation construction / demux / mux / find_common_range / filter_si / '
        'amplifier dispatch (permutation invariance, exact rejection criterion, partition) + model/implementation '
        'correspondence (vm_compute) + independent oracle at every element boundary of really designed paths',
        '16 theorems closed under the global context: order irrelevance (mk_si_perm, launch_perm), exact rejection '
        'criterion incl. adjacent<->pairwise and equal frequencies, sortedness/intactness, common-range specification and '
        'disjointness, demux/mux partition, filter-then-path (every amplifier keeps every channel, one stage each). Tied to '
        'gnpy by ~1000 (quick) / 13.5k (thorough) generated cases incl. single/multi/mixed-band designed paths with '
        'band-edge +-1 Hz channels.',
        'Hypotheses: slot widths > 0, well-formed amplifier band declarations. numpy.argsort modelled as a stable sort; '
        'physical payload not modelled here (only which stage touched which channel). Trusted: Coq kernel + vm_compute, '
        'generators, text bridge.',
        'DESIGN.md §7 C07'),
}

NOT_YET = {}

TITLES = {}
for line in open(os.path.join(HERE, 'properties.jsonl')):
    p = json.loads(line)
    TITLES[p['id']] = p['title']


def main():
    checks = []
    for pid in sorted(CLAIMED):
        tech, text, note, ref = CLAIMED[pid]
        checks.append({
            'property_id': pid,
            'quick_cmd': f'./check {pid} --tier quick',
            'thorough_cmd': f'./check {pid} --tier thorough',
            'evidence_file': f'/verif/evidence/{pid}.json',
            'replay_cmd_template': f'./check {pid} --replay {{path}}',
            'engine': 'coq-model+correspondence',
            'level_claimed': {'category': 'proof', 'text': text, 'design_ref': ref},
            'level_note': note,
            'technique': tech,
        })
    na = [{'property_id': pid, 'reason': NOT_YET.get(pid, 'check not built yet (work in progress); see DESIGN.md §7 for the plan')}
          for pid in sorted(TITLES) if pid not in CLAIMED]
    m = {
        'version': 1,
        'setup_cmd': 'cd /verif/coq && coq_makefile -f _CoqProject -o Makefile && timeout 3000 make -j16',
        'hooks': {
            'guard': 'GNPY_VERIF',
            'enable': 'no source hooks: the harness instruments gnpy at run time by wrapping functions from the '
                      'check process (GNPY_VERIF=1 is exported by ./check for future guarded hooks)',
            'baseline_off_cmd': 'cd /repo && /venv/bin/python -m pytest -ra -q -p no:cacheprovider --timeout=900 '
                                '--continue-on-collection-errors',
            'source_commits': [],
            'add_only': True,
        },
        'engines': [{
            'name': 'coq-model+correspondence', 'path': '/verif/check',
            'serves_properties': sorted(CLAIMED),
            'kind_free_text': 'Coq 8.16 development (coq/theories: Model = executable Gallina models, Proofs, Props = '
                              'property theorems + Print Assumptions) rebuilt by every check; Python harness drives '
                              '/repo\'s gnpy and the model (coqc + vm_compute on generated case files) on the same inputs',
        }],
        'checks': checks,
        'not_applicable': na,
        'notes': 'Known findings: /verif/known_findings.json. Seeded breaking changes: /verif/seeded/. '
                 'Repairs of genuine defects are the "fix:" commits in /repo listed as fixed there.',
    }
    with open(os.path.join(HERE, 'MANIFEST.json'), 'w') as f:
        json.dump(m, f, indent=1)
    import jsonschema  # noqa
    jsonschema.validate(m, json.load(open('/root/.vp/MANIFEST.schema.json')))
    print('MANIFEST.json written:', len(checks), 'checks,', len(na), 'not_applicable')


if __name__ == '__main__':
    main()
