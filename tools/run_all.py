#!/venv/bin/python
"""Run every check registered in MANIFEST.json (quick or thorough), validate the evidence files.
usage: tools/run_all.py [quick|thorough] [--seed N] [ids...]"""
import json, os, subprocess, sys, time
HERE = os.path.dirname(os.path.dirname(os.path.abspath(__file__)))
os.chdir(HERE)
args = sys.argv[1:]
tier = 'quick'
seed = None
ids = []
i = 0
while i < len(args):
    if args[i] in ('quick', 'thorough'):
        tier = args[i]
    elif args[i] == '--seed':
        seed = args[i + 1]; i += 1
    else:
        ids.append(args[i])
    i += 1
m = json.load(open('MANIFEST.json'))
schema = json.load(open('/root/.vp/EVIDENCE.schema.json'))
try:
    import jsonschema
except ImportError:
    jsonschema = None
bad = 0
for c in m['checks']:
    pid = c['property_id']
    if ids and pid not in ids:
        continue
    cmd = c['quick_cmd'] if tier == 'quick' else c.get('thorough_cmd', c['quick_cmd'])
    ev = os.path.join(HERE, 'evidence', pid + '.json')   # the tree this script lives in (a vp-run snapshot has its own)
    if os.path.exists(ev):
        os.unlink(ev)
    env = dict(os.environ)
    if seed:
        env['VERIF_SEED'] = seed
    t0 = time.time()
    p = subprocess.run(cmd, shell=True, cwd=HERE, env=env, stdout=subprocess.PIPE, stderr=subprocess.STDOUT, text=True)
    dt = time.time() - t0
    lines = [l for l in p.stdout.splitlines() if l.startswith(('VIOLATION', 'KNOWN-FINDING', '['))]
    status = 'ok'
    if p.returncode != 0 or any(l.startswith('VIOLATION') for l in lines):
        status = f'ALARM rc={p.returncode}'
        bad += 1
    evs = 'evidence-missing'
    if os.path.exists(ev):
        try:
            e = json.load(open(ev))
            if jsonschema:
                jsonschema.validate(e, schema)
            cov = e['coverage']
            evs = f"evidence ok obl={cov.get('obligations')}/{cov.get('discharged')} eval={cov.get('evaluations')} distinct={cov.get('distinct_nontrivial')}"
        except Exception as ex:
            evs = f'evidence INVALID {type(ex).__name__}: {str(ex)[:120]}'
            bad += 1
    else:
        bad += 1
    print(f'{pid} {status} {dt:.0f}s {evs}')
    for l in lines:
        print('    ' + l)
    if status != 'ok':
        print('    ' + '\n    '.join(p.stdout.splitlines()[-15:]))
sys.exit(1 if bad else 0)
