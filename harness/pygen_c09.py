"""Translator tie for C09 (second tie between /repo's source and Model/PowerDesign.v), built on harness/pygen.py and
the Q-expression translator of harness/pygen_c10.py.

On every run the functions below are re-read from <repo>; their bookkeeping is matched against templates (every statement
must be the expected one) and the arithmetic (holes H_x) is translated into Gallina over Q; the result is written to
coq/theories/Gen/PowerDesignGen.v and Proofs/PowerDesignGen.v proves each generated definition equal (== on Q where the
source associates differently or carries the zero SRS deviation) to the hand-written model.

  gnpy/core/utils.py    round2float                          template R2F; translated: all five right-hand sides
  gnpy/core/network.py  target_power                         template TP; translated: rounding of the slope rule, the two clamps
                        prev_/next_node_generator            templates GENP / GENN; translated: the condition for stepping on
                        span_loss                            template SL (pure bookkeeping); translated: the returned difference
                        add_fiber_padding                    template PAD; translated: the padding test, the new att_in, the
                                                             increment of design_span_loss
                        compute_gain_power_and_tilt_target   template CG; translated: both dp expressions, the mode test, both
                                                             gain_target expressions, the gain-mode dp, power_target
                        set_one_amplifier                    template SO (the raman_allowed statement is C10's tie);
                                                             translated: the two saturation reductions and pout
                        set_amplifier_voa                    template VOA; translated: the head-room and the capped rounded VOA
                        set_egress_amplifier                 the per band initialisation loop (template INIT; translated:
                                                             prev_dp and pref_total_db) and the walk loop (template WALK: call
                                                             sites of get_node_restrictions / set_one_amplifier for an Edfa and
                                                             the hand-over of dp / voa; no hole is translated)
Anything outside the subset raises Unsupported (fail closed).  Float constants are read as the decimal they are written as.
"""
import ast
import os

from . import common
from .pygen import Unsupported, find, match_template, strip_doc
from .pygen_c10 import TrQ, key_of

NET = 'gnpy/core/network.py'
UTL = 'gnpy/core/utils.py'

ATTR = {
    "equipment['Span']['default'].span_loss_ref": '(c_ref c)', "equipment['Span']['default'].power_slope": '(c_slope c)',
    'dp_range[0]': 'lo', 'dp_range[1]': 'hi', 'dp_range[2]': 'step',
    'first_fiber.params.att_in': 'att',
    'node.operational.delta_p': 'u', 'node.effective_gain': 'g',
    'amp.params.p_max': 'pmax', 'amp.params.gain_flatmax': 'gmax', 'amp.effective_gain': 'gain',
}
NAMES = {'node_loss': 'node_loss', 'padding': 'padding', 'this_span_loss': 'sl', 'voa': 'voa', 'in_voa': 'in_voa',
         'deviation_db': 'deviation_db', 'prev_dp': 'prev_dp', 'prev_voa': 'prev_voa', 'pref_total_db': 'pref_total',
         'dp': 'dp', 'gain_target': 'gain_target', 'p_max': 'p_max', 'pout': 'pout', 'power_target': 'pt',
         'voa_step': '(c_voa_step c)', 'voa_margin': '(c_voa_margin c)', 'number': 'number', 'step': 'step',
         'loss': 'loss', 'gain': 'gain', 'this_node_out_power': 'p0', 'pref_ch_db': 'pref_ch', 'power_mode': '(c_power_mode c)'}


# the element kinds the node generators test; _fiber_fused_types is checked to be (Fused, Fiber)
LINK_NAMES = {'prev_node': 'p', 'next_node': 'p', 'node': 'n'}
LINK_KINDS = {'elements.Fused': 'is_fus', '_fiber_fused_types': 'is_ff'}
FF_TYPES = '(elements.Fused, elements.Fiber)'


class TrP(TrQ):
    """TrQ + round(x, n) -> round_nd, round2float -> the model's, a / b, `x is None` on the operator gain, and the two
    calls whose values are inputs of the translated term (target_power(...) -> t, lin2db(nb_channels_per_band) -> nch_db)"""

    def __init__(self):
        super().__init__(attr=ATTR, names=NAMES)

    def e(self, n):
        if isinstance(n, ast.Subscript) and isinstance(n.slice, ast.Constant) and isinstance(n.slice.value, int):
            k = f'{key_of(n.value)}[{n.slice.value}]'
            if k in self.attr:
                return self.attr[k]
            raise Unsupported(f'subscript {k}')
        if isinstance(n, ast.Call) and isinstance(n.func, ast.Name):
            f = n.func.id
            if f == 'round' and len(n.args) == 2 and isinstance(n.args[1], ast.Constant) \
                    and isinstance(n.args[1].value, int) and n.args[1].value >= 0 and not n.keywords:
                return f'(round_nd {self.e(n.args[0])} {n.args[1].value}%nat)'
            if f == 'round2float' and len(n.args) == 2 and not n.keywords:
                return f'(round2float {self.e(n.args[0])} {self.e(n.args[1])})'
            if f == 'target_power' and [ast.dump(a) for a in n.args] == \
                    [ast.dump(ast.parse(x, mode='eval').body) for x in ('network', 'next_node', 'equipment', 'deviation_db')]:
                return 't'
            if f == 'lin2db' and len(n.args) == 1 and isinstance(n.args[0], ast.Name) \
                    and n.args[0].id == 'nb_channels_per_band':
                return 'nch_db'
        if isinstance(n, ast.BinOp) and isinstance(n.op, ast.Div):
            return f'({self.e(n.left)} / {self.e(n.right)})'
        return super().e(n)

    def b(self, n):
        if isinstance(n, ast.Compare) and len(n.ops) == 1 and isinstance(n.ops[0], ast.Is) \
                and isinstance(n.comparators[0], ast.Constant) and n.comparators[0].value is None \
                and key_of(n.left) == 'node.effective_gain':
            return '(match an_gain a with None => true | Some _ => false end)'
        if isinstance(n, ast.Name) and n.id == 'power_mode':
            return '(c_power_mode c)'
        if isinstance(n, ast.Call) and isinstance(n.func, ast.Name) and n.func.id == 'isinstance' and len(n.args) == 2 \
                and isinstance(n.args[0], ast.Name) and n.args[0].id in LINK_NAMES and not n.keywords:
            kind = ast.unparse(n.args[1])
            if kind in LINK_KINDS:
                return f'({LINK_KINDS[kind]} {LINK_NAMES[n.args[0].id]})'
            raise Unsupported(f'isinstance(_, {kind})')
        return super().b(n)


R2F = """
step = H_s
if H_c:
    number = H_a
    number = H_b
else:
    number = H_e
return number
"""

GENP = """
try:
    prev_node = next(network.predecessors(node))
except StopIteration as exc:
    if isinstance(node, elements.Transceiver):
        return
    raise NetworkTopologyError(H_m) from exc
if H_link:
    yield prev_node
    yield from prev_node_generator(network, prev_node)
"""

GENN = """
try:
    next_node = next(network.successors(node))
except StopIteration:
    if isinstance(node, elements.Transceiver):
        return
    raise NetworkTopologyError(H_m)
if H_link:
    yield next_node
    yield from next_node_generator(network, next_node)
"""

TP = """
if isinstance(node, elements.Roadm):
    return 0
dp_range = list(equipment['Span']['default'].delta_power_range_db)
node_loss = span_loss(network, node, equipment) + deviation_db
try:
    dp = H_round
    dp = H_max
    dp = H_min
except IndexError as exc:
    raise ConfigurationError(H_m) from exc
return dp
"""

SL = """
if hasattr(node, "design_span_loss"):
    return node.design_span_loss
loss = node.loss if node.passive else 0
loss += sum(n.loss for n in prev_node_generator(network, node))
loss += sum(n.loss for n in next_node_generator(network, node))
gain = estimate_raman_gain(node, equipment, input_power)
gain += sum(estimate_raman_gain(n, equipment, input_power) for n in prev_node_generator(network, node))
gain += sum(estimate_raman_gain(n, equipment, input_power) for n in next_node_generator(network, node))
return H_ret
"""

PAD = """
for fiber in fibers:
    next_node = get_next_node(fiber, network)
    if isinstance(next_node, elements.Fused):
        continue
    if isinstance(fiber, elements.RamanFiber):
        continue
    this_span_loss = span_loss(network, fiber, equipment)
    fiber.design_span_loss = this_span_loss
    if H_cond:
        first_fiber = find_first_node(network, fiber)
        if isinstance(first_fiber, elements.Fiber):
            first_fiber.params.att_in = H_att
            fiber.design_span_loss += H_dsl
"""

CG = """
node_loss = span_loss(network, prev_node, equipment)
voa = node.out_voa if node.out_voa else 0
in_voa = node.in_voa if node.in_voa else 0
if node.operational.delta_p is None:
    dp = H_dp_rule
else:
    dp = H_dp_user
if H_mode:
    gain_target = H_gain_pm
else:
    gain_target = H_gain_gm
    dp = H_dp_gm
if node.operational.tilt_target is None:
    _tilt_target = -tilt_target
else:
    _tilt_target = node.operational.tilt_target
power_target = H_pt
return gain_target, power_target, _tilt_target, dp, voa, node_loss
"""

SO = """
gain_target, power_target, _tilt_target, dp, voa, node_loss = \\
    compute_gain_power_and_tilt_target(node, prev_node, next_node, power_mode, prev_voa, prev_dp,
                                       pref_total_db, network, equipment, deviation_db, tilt_target)
H_RAMAN
if node.params.type_variety == '':
    edfa_eqpt = {n: a for n, a in equipment['Edfa'].items() if a.type_def != 'multi_band'}
    if restrictions:
        edfa_eqpt = {n: a for n, a in edfa_eqpt.items() if n in restrictions}
    edfa_variety, power_reduction = \\
        select_edfa(raman_allowed, gain_target, power_target, edfa_eqpt, node.uid,
                    target_extended_gain=equipment['Span']['default'].target_extended_gain, verbose=verbose)
    extra_params = equipment['Edfa'][edfa_variety]
    node.params.update_params(extra_params.__dict__)
    node.type_variety = node.params.type_variety
    dp += power_reduction
    gain_target += power_reduction
else:
    p_max = equipment['Edfa'][node.params.type_variety].p_max
    if power_mode:
        power_reduction = H_red_pm
    else:
        pout = H_pout
        power_reduction = H_red_gm
    dp += power_reduction
    gain_target += power_reduction
    H_W1
    H_W2
    H_W3
node.delta_p = dp if power_mode else None
node.effective_gain = gain_target
node.tilt_target = _tilt_target
set_amplifier_voa(node, power_target, power_mode,
                  equipment['Span']['default'].voa_margin, equipment['Span']['default'].voa_step)
node._delta_p = node.delta_p if power_mode else dp
H_T
return dp, voa
"""

VOA = """
if amp.out_voa is None:
    if power_mode and amp.params.out_voa_auto:
        voa = H_raw
        voa = H_voa
        amp.delta_p = amp.delta_p + voa
        amp.effective_gain = amp.effective_gain + voa
    else:
        voa = 0
    amp.out_voa = voa
if amp.in_voa is None:
    amp.in_voa = 0
"""

INIT = """
for band_name, band in _design_bands.items():
    this_node_out_power = None
    if isinstance(this_node, elements.Transceiver):
        if equipment['SI']['default'].tx_power_dbm is not None:
            this_node_out_power = equipment['SI']['default'].tx_power_dbm
        else:
            this_node_out_power = pref_ch_db
    if isinstance(this_node, elements.Roadm):
        this_node_out_power = this_node.get_per_degree_ref_power(degree=node.uid)
    prev_dp[band_name] = H_pdp
    dp[band_name] = prev_dp[band_name]
    prev_voa[band_name] = 0
    voa[band_name] = 0
    nb_channels_per_band = reference_channel.nb_channel if reference_channel.nb_channel \\
        else automatic_nch(band['f_min'], band['f_max'], band['spacing'])
    pref_total_db[band_name] = H_ptot
"""

WALK = """
for node, next_node in oms_nodes:
    H_A
    H_B
    if isinstance(node, elements.Edfa):
        band_name, _ = next((n, b) for n, b in _design_bands.items())
        restrictions = get_node_restrictions(node, prev_node, next_node, equipment, _design_bands)
        if not restrictions:
            raise ConfigurationError(H_m)
        dp[band_name], voa[band_name] = set_one_amplifier(node, prev_node, next_node, power_mode,
                                                          prev_voa[band_name], prev_dp[band_name],
                                                          pref_ch_db, pref_total_db[band_name],
                                                          network, restrictions, equipment, verbose)
    else:
        H_REST
    prev_dp.update(**dp)
    prev_voa.update(**voa)
    prev_node = node
    node = next_node
"""

HEADER = """(* GENERATED on every run by harness/pygen_c09.py from gnpy/core/utils.py and gnpy/core/network.py of /repo - do not edit. *)
From Coq Require Import QArith Qminmax.
From Verif Require Import Prelude Model.Select Model.PowerDesign.
Open Scope Q_scope.
"""


def loops_over(fn, src):
    """the for loops inside fn (any depth) whose header is `src`"""
    want = ast.parse(src + '\n    pass').body[0]
    out = []
    for n in ast.walk(fn):
        if isinstance(n, ast.For) and ast.dump(n.target) == ast.dump(want.target) and ast.dump(n.iter) == ast.dump(want.iter):
            out.append(n)
    return out


def generate(repo=None):
    repo = repo or common.REPO
    net = ast.parse(open(os.path.join(repo, NET)).read())
    utl = ast.parse(open(os.path.join(repo, UTL)).read())
    t = TrP()
    out = [HEADER]
    # ---- round2float
    b = match_template(R2F, strip_doc(find(utl, 'round2float').body), 'round2float')
    out.append('(* utils.round2float *)')
    out.append(f"""Definition g_round2float (number step : Q) : Q :=
  let step := {t.e(b['H_s'])} in
  if {t.b(b['H_c'])} then
    let number := {t.e(b['H_a'])} in
    let number := {t.e(b['H_b'])} in
    number
  else
    let number := {t.e(b['H_e'])} in
    number.
""")
    # ---- target_power
    b = match_template(TP, strip_doc(find(net, 'target_power').body), 'target_power')
    out.append('(* network.target_power: the slope rule for a span loss node_loss (delta_power_range_db = [lo, hi, step]) *)')
    out.append(f"""Definition g_dp_rule (c : span_cfg) (node_loss lo hi step : Q) : Q :=
  let dp := {t.e(b['H_round'])} in
  let dp := {t.e(b['H_max'])} in
  let dp := {t.e(b['H_min'])} in
  dp.
""")
    # ---- prev_node_generator / next_node_generator
    ff = [x for x in net.body if isinstance(x, ast.Assign) and len(x.targets) == 1 and isinstance(x.targets[0], ast.Name)
          and x.targets[0].id == '_fiber_fused_types']
    if len(ff) != 1 or ast.dump(ff[0].value) != ast.dump(ast.parse(FF_TYPES, mode='eval').body):
        raise Unsupported('_fiber_fused_types is no longer ' + FF_TYPES)
    bp = match_template(GENP, strip_doc(find(net, 'prev_node_generator').body), 'prev_node_generator')
    bn = match_template(GENN, strip_doc(find(net, 'next_node_generator').body), 'next_node_generator')
    out.append('(* network.prev_node_generator / next_node_generator: when the walk steps from n to its neighbour p *)')
    out.append(f'Definition g_prev_link (p n : elem) : bool := {t.b(bp["H_link"])}.')
    out.append(f'Definition g_next_link (p n : elem) : bool := {t.b(bn["H_link"])}.\n')
    # ---- span_loss
    b = match_template(SL, strip_doc(find(net, 'span_loss').body), 'span_loss')
    out.append('(* network.span_loss: what is returned from the summed losses and the summed Raman gain estimates *)')
    out.append(f'Definition g_span_ret (loss gain : Q) : Q := {t.e(b["H_ret"])}.\n')
    # ---- add_fiber_padding
    b = match_template(PAD, strip_doc(find(net, 'add_fiber_padding').body), 'add_fiber_padding')
    out.append('(* network.add_fiber_padding *)')
    out.append(f'Definition g_pad_needed (padding sl : Q) : bool := {t.b(b["H_cond"])}.')
    out.append(f'Definition g_pad_att (att padding sl : Q) : Q := {t.e(b["H_att"])}.')
    out.append(f'Definition g_pad_dsl_incr (padding sl : Q) : Q := {t.e(b["H_dsl"])}.\n')
    # ---- compute_gain_power_and_tilt_target
    fn = find(net, 'compute_gain_power_and_tilt_target')
    if [a.arg for a in fn.args.args] != ['node', 'prev_node', 'next_node', 'power_mode', 'prev_voa', 'prev_dp',
                                         'pref_total_db', 'network', 'equipment', 'deviation_db', 'tilt_target']:
        raise Unsupported('signature of compute_gain_power_and_tilt_target')
    b = match_template(CG, strip_doc(fn.body), 'compute_gain_power_and_tilt_target')
    out.append('(* network.compute_gain_power_and_tilt_target (SRS deviation 0): (gain_target, power_target, dp, voa) *)')
    out.append(f"""Definition g_targets (c : span_cfg) (pref_total prev_dp prev_voa node_loss : Q) (tp : res Q) (a : ampn)
  : res (Q * Q * Q * Q) :=
  let deviation_db := 0 in
  let voa := ozero (an_ovoa a) in
  let in_voa := ozero (an_ivoa a) in
  let* dp := match an_dp a with
             | None => (let* t := tp in Ok {t.e(b['H_dp_rule'])})
             | Some u => Ok {t.e(b['H_dp_user'])}
             end in
  if {t.b(b['H_mode'])} then
    let gain_target := {t.e(b['H_gain_pm'])} in
    let pt := {t.e(b['H_pt'])} in
    Ok (gain_target, pt, dp, voa)
  else
    match an_gain a with
    | None => Err "unreachable"
    | Some g =>
        let gain_target := {t.e(b['H_gain_gm'])} in
        let dp := {t.e(b['H_dp_gm'])} in
        let pt := {t.e(b['H_pt'])} in
        Ok (gain_target, pt, dp, voa)
    end.
""")
    # ---- set_one_amplifier
    fn = find(net, 'set_one_amplifier')
    b = match_template(SO, strip_doc(fn.body), 'set_one_amplifier')
    out.append('(* network.set_one_amplifier: power reduction of an amplifier with imposed type_variety *)')
    out.append(f'Definition g_red_power_mode (p_max pref_total dp : Q) : Q := {t.e(b["H_red_pm"])}.')
    out.append(f"""Definition g_red_gain_mode (p_max pref_total prev_dp node_loss prev_voa gain_target : Q) : Q :=
  let pout := {t.e(b['H_pout'])} in {t.e(b['H_red_gm'])}.
""")
    # ---- set_amplifier_voa
    fn = find(net, 'set_amplifier_voa')
    if [a.arg for a in fn.args.args] != ['amp', 'power_target', 'power_mode', 'voa_margin', 'voa_step']:
        raise Unsupported('signature of set_amplifier_voa')
    b = match_template(VOA, strip_doc(fn.body), 'set_amplifier_voa')
    out.append('(* network.set_amplifier_voa: the automatic output VOA *)')
    out.append(f"""Definition g_auto_voa (c : span_cfg) (pmax gmax pt gain : Q) : Q :=
  let voa := {t.e(b['H_raw'])} in
  let voa := {t.e(b['H_voa'])} in
  voa.
""")
    # ---- set_egress_amplifier: initialisation per band, walk loop
    fn = find(net, 'set_egress_amplifier')
    init = loops_over(fn, 'for band_name, band in _design_bands.items():')
    # (the Multiband branch has loops with the same header: the initialisation is the one that assigns pref_total_db)
    init = [l for l in init if any(isinstance(s, ast.Assign) and isinstance(s.targets[0], ast.Subscript)
                                   and key_of(s.targets[0].value) == 'pref_total_db' for s in l.body)]
    if len(init) != 1:
        raise Unsupported('set_egress_amplifier: per band initialisation loop')
    b = match_template(INIT, [init[0]], 'set_egress_amplifier (per band initialisation)')
    out.append('(* network.set_egress_amplifier: what the first amplifier is handed, and the total reference power of a band *)')
    out.append(f'Definition g_start_dp (p0 pref_ch : Q) : Q := {t.e(b["H_pdp"])}.')
    out.append(f'Definition g_pref_total (pref_ch nch_db : Q) : Q := {t.e(b["H_ptot"])}.\n')
    walk = loops_over(fn, 'for node, next_node in oms_nodes:')
    if len(walk) != 1:
        raise Unsupported('set_egress_amplifier: walk loop')
    match_template(WALK, [walk[0]], 'set_egress_amplifier (walk loop)')
    out.append('(* network.set_egress_amplifier: walk loop template-matched (call sites, hand-over of dp / voa) *)')
    out.append('Definition g_walk_matched : bool := true.\n')
    return '\n'.join(out)


def regenerate():
    """(Re)write coq/theories/Gen/PowerDesignGen.v when its content changed. Returns (ok, message)."""
    dst = os.path.join(common.COQ, 'theories', 'Gen', 'PowerDesignGen.v')
    try:
        txt = generate()
    except (Unsupported, SyntaxError, OSError, KeyError) as e:
        return False, f'translation failed: {type(e).__name__}: {e}'
    os.makedirs(os.path.dirname(dst), exist_ok=True)
    if not os.path.exists(dst) or open(dst).read() != txt:
        with open(dst, 'w') as f:
            f.write(txt)
    return True, 'ok'


if __name__ == '__main__':
    print(generate())
