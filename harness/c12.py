"""C12 — requests declared disjoint never share a ROADM-to-ROADM link in either direction.

Tie (DESIGN §4(b)): random ROADM meshes x random request batches x random synchronisation groups (pairs, triples,
overlapping and duplicated groups, identical requests that get aggregated, ROADM / line-element include lists) are driven
through the real deduplicate_disjunctions -> requests_aggregation -> compute_path_dsjctn.  Coq then judges
  * the returned paths against the groups *as declared by the user* with the proved validator `disjoint_ok`
    (links = unordered ROADM pairs) and each grouped path with `route_ok`                                  (oracle)
  * a DisjunctionError on a single pair with the proved-complete `exists_disjoint_pair` (<= 80 links)      (oracle)
  * gnpy's de-duplicated groups / aggregated ids and groups against the faithful models `deduplicate`, `aggregate`,
    and `isdisjoint` / `short_list` against the arguments really passed to request.isdisjoint    (correspondence)
The five pruning steps of compute_path_dsjctn are not modelled.
"""
import glob
import json
import os

from . import common, c11
from .common import listlit, strlit
from .c11 import Net, gen_topo, mk_request, eqpt, line_elements, simple_paths_sites

CUTOFF = 80


# ------------------------------------------------------------------ generator
def gen_case(rng):
    n = rng.choice([3, 3, 4, 4, 5, 5, 6, 6, 7])
    extra = rng.randint(n // 2, n) if n < 6 else rng.randint(1, 3)        # dense enough for disjoint routes to exist
    topo = gen_topo(rng, n, extra, cut=rng.random() < 0.05)
    return {'topo': topo, 'requests': None, 'groups': None}


def gen_batch(rng, N):
    sites = N.sites
    nreq = rng.randint(2, 6)
    reqs = []
    for k in range(nreq):
        a, b = rng.sample(sites, 2)
        nodes, loose, style = [], [], 'none'
        r = rng.random()
        sp = simple_paths_sites(N.topo, a, b, rng, limit=20)
        if r < 0.55 or not sp:
            pass
        elif r < 0.7:
            style = 'roadms'
            p = rng.choice(sp)
            nodes = [f'roadm {x}' for x in p[1:-1] if rng.random() < 0.6] or [f'roadm {rng.choice(sites)}']
        elif r < 0.8:
            style = 'booster'                                  # first element after a ROADM: present in gnpy's short list
            p = rng.choice(sp)
            hops = [h for h in zip(p, p[1:]) if rng.random() < 0.6] or [(p[0], p[1])]
            nodes = [line_elements(N, x, y)[0] for x, y in hops]
        elif r < 0.92:
            style = 'line'                                     # any line element of a path
            p = rng.choice(sp)
            hops = [h for h in zip(p, p[1:]) if rng.random() < 0.5] or [(p[0], p[1])]
            for x, y in hops:
                nodes.append(rng.choice(line_elements(N, x, y)))
        else:
            style = 'roadm_random'
            nodes = [f'roadm {rng.choice(sites)}' for _ in range(rng.randint(1, 2))]
        m = rng.random()
        loose = (['STRICT'] * len(nodes) if m < 0.45 else ['LOOSE'] * len(nodes) if m < 0.8
                 else [rng.choice(['STRICT', 'LOOSE']) for _ in nodes])
        rq = c11.choose_build(rng, {'id': str(k), 'src': f'trx {a}', 'dst': f'trx {b}', 'nodes': nodes, 'loose': loose,
                                    'style': style, 'mode': rng.choice(['mode 1', 'mode 1', 'mode 1', None]),
                                    'bidir': rng.random() < 0.3})
        if k > 0 and rng.random() < 0.3:
            o = rng.choice(reqs)                               # a twin: candidate for aggregation
            rq.update(src=o['src'], dst=o['dst'])
            if rng.random() < 0.75:
                rq.update(nodes=list(o['nodes']), loose=list(o['loose']), style=o['style'])
                rq.pop('json_perm', None)
                rq['build'] = o.get('build', 'api')
                if 'json_perm' in o:
                    rq['json_perm'] = list(o['json_perm'])
                if rng.random() < 0.8:
                    rq['mode'] = o['mode']
                if rng.random() < 0.8:
                    rq['bidir'] = o['bidir']
        reqs.append(rq)
    ids = [r['id'] for r in reqs]
    groups = []
    shape = rng.random()
    if shape < 0.12 and len(sites) >= 3:
        return gen_shapes_batch(rng, N)
    if shape < 0.45:
        groups.append(rng.sample(ids, 2))
    elif shape < 0.6 and nreq >= 3:
        groups.append(rng.sample(ids, 3))
    else:
        for _ in range(rng.randint(2, 3)):
            groups.append(rng.sample(ids, 3 if nreq >= 3 and rng.random() < 0.3 else 2))
    if rng.random() < 0.15:
        g = list(rng.choice(groups))
        rng.shuffle(g)
        groups.insert(rng.randint(0, len(groups)), g)          # the same set declared twice
        if rng.random() < 0.3:
            groups.append(list(g))
    return reqs, [{'id': f'd{i}', 'reqs': g} for i, g in enumerate(groups)]


def gen_shapes_batch(rng, N):
    """planning-level stream for requests_aggregation: 2-3 identical requests (twins) declared in groups whose shapes are
    equal, nested (one twin has the groups of the other plus extra ones), or unrelated; every listing order of requests,
    groups and members.  Only twins with the same group shape may be merged; whatever is merged, every group of the
    input must still be honoured by the final routes."""
    sites = N.sites
    a, b = rng.sample(sites, 2)
    others_ends = []
    for _ in range(50):
        c, d = rng.sample(sites, 2)
        if rng.random() < 0.6:
            # share an end with the twins: a wrongly dropped group then shows as a shared link
            c, d = (a, rng.choice([x for x in sites if x != a])) if rng.random() < 0.5 else \
                   (rng.choice([x for x in sites if x != b]), b)
        if rng.random() < 0.35:
            c, d = a, b                                       # same ends as the twins, told apart by the mode (below)
        if ((c, d) != (a, b) and (c, d) not in others_ends) or ((c, d) == (a, b) and others_ends.count((a, b)) < 1):
            others_ends.append((c, d))
        if len(others_ends) == rng.choice([2, 2, 3]):
            break
    ntw = rng.choice([2, 2, 2, 3])
    slots = ['t'] * ntw + ['o'] * len(others_ends)
    rng.shuffle(slots)
    reqs, twins, others = [], [], []
    oe = list(others_ends)
    for k, kind in enumerate(slots):
        s_, t_ = (a, b) if kind == 't' else oe.pop()
        reqs.append({'id': str(k), 'src': f'trx {s_}', 'dst': f'trx {t_}', 'nodes': [], 'loose': [], 'style': 'none',
                     'mode': 'mode 1' if kind == 't' or (s_, t_) != (a, b) else None, 'bidir': False,
                     'build': 'api_defaults'})
        (twins if kind == 't' else others).append(str(k))

    def some_others():
        return rng.sample(others, rng.choice([1, 1, 2]) if len(others) > 1 else 1)
    base = [some_others() for _ in range(rng.choice([1, 1, 2, 3]))]
    shapes = {twins[0]: base}
    for tw in twins[1:]:
        v = rng.random()
        if v < 0.35:
            sh = [list(g) for g in base]
        elif v < 0.7:
            sh = [list(g) for g in base] + [some_others() for _ in range(rng.choice([1, 1, 2]))]
        elif v < 0.85 and len(base) > 1:
            sh = [list(g) for g in base[:-1]]
        else:
            sh = [some_others() for _ in range(rng.choice([1, 2]))]
        shapes[tw] = sh
    gl = []
    for tw in twins:
        for g in shapes[tw]:
            members = [tw] + list(g)
            rng.shuffle(members)
            gl.append(members)
    if rng.random() < 0.7:
        rng.shuffle(gl)
    return reqs, [{'id': f'd{i}', 'reqs': g} for i, g in enumerate(gl)]


def hop_elements_by_kind(N, x, y):
    """line elements of the hop roadm x -> roadm y sorted into kinds"""
    from gnpy.core.elements import Fiber, Fused
    els = line_elements(N, x, y)
    out = {}
    for k, u in enumerate(els):
        node = N.nodes[N.id[u]]
        if isinstance(node, Fiber):
            kind = 'fibre'
        elif isinstance(node, Fused):
            kind = 'fused'
        elif k == 0:
            kind = 'booster'
        elif k == len(els) - 1:
            kind = 'preamp'
        else:
            kind = 'inline_amp'
        out.setdefault(kind, []).append(u)
    return out


def gen_vector_batch(rng, N):
    """a pair of requests declared disjoint, each with an include list over ALL element kinds of some path (fibre
    spans, in-line amplifiers, pre-amplifiers, boosters, Fused, ROADMs), STRICT, LOOSE or mixed"""
    sites = N.sites
    reqs = []
    a, b = rng.sample(sites, 2)
    for k in range(2):
        if k == 1 and rng.random() < 0.6:
            a, b = rng.sample(sites, 2)
        nodes, style = [], 'none'
        sp = simple_paths_sites(N.topo, a, b, rng, limit=20)
        if sp and rng.random() < 0.85:
            p = rng.choice(sp)
            hops = [h for h in zip(p, p[1:]) if rng.random() < 0.6] or [(p[0], p[1])]
            kinds_used = []
            for x, y in hops:
                by = hop_elements_by_kind(N, x, y)
                kind = rng.choice(sorted(by))
                nodes.append(rng.choice(by[kind]))
                kinds_used.append(kind)
                if rng.random() < 0.2:
                    nodes.append(f'roadm {y}')
            style = 'vec_' + '+'.join(sorted(set(kinds_used)))
            if rng.random() < 0.1:
                rng.shuffle(nodes)
        m = rng.random()
        loose = (['STRICT'] * len(nodes) if m < 0.4 else ['LOOSE'] * len(nodes) if m < 0.8
                 else [rng.choice(['STRICT', 'LOOSE']) for _ in nodes])
        if k == 1 and reqs[0]['nodes'] and rng.random() < 0.25:
            # a STRICT hop on a link the partner is forced through: incompatible with the disjunction
            forced = [u for u, h in zip(reqs[0]['nodes'], reqs[0]['loose']) if h == 'STRICT' and not u.startswith('roadm')]
            if forced:
                nodes, loose, style = [rng.choice(forced)], ['STRICT'], 'vec_conflict'
        if rng.random() < 0.35:
            nodes.append(f'trx {b}')                          # the request's own destination listed last ...
            loose.append(rng.choice(['STRICT', 'LOOSE']))
            style += '+dst'
        if rng.random() < 0.2:
            nodes.insert(0, f'trx {a}')                        # ... its own source listed first
            loose.insert(0, rng.choice(['STRICT', 'LOOSE']))
            style += '+src'
        reqs.append(c11.choose_build(rng, {'id': str(k), 'src': f'trx {a}', 'dst': f'trx {b}', 'nodes': nodes, 'loose': loose,
                                           'style': style, 'mode': rng.choice(['mode 1', None]),
                                           'bidir': rng.random() < 0.3}))
    return reqs, [{'id': 'd0', 'reqs': rng.sample(['0', '1'], 2)}]


def gen_perm_batch(rng, N):
    """planning-level stream: 2-3 requests that are identical except for the ORDER of their include lists (STRICT ROADM
    hops, each order may be met by a different route), alone or next to a group; every original request must get a
    route crossing ITS list in ITS order -- only requests with equal lists may share one"""
    sites = N.sites
    a, b = rng.sample(sites, 2)
    inner = [x for x in sites if x not in (a, b)]
    k = rng.choice([2, 2, 3]) if len(inner) >= 3 else 2
    hops = [f'roadm {x}' for x in rng.sample(inner, min(k, len(inner)))]
    if rng.random() < 0.3:
        hop_types = [rng.choice(['STRICT', 'LOOSE']) for _ in hops]
        if 'STRICT' not in hop_types:
            hop_types[0] = 'STRICT'
    else:
        hop_types = ['STRICT'] * len(hops)
    build = rng.choice(['api', 'api', 'json'])
    reqs = []
    for i in range(rng.choice([2, 2, 3])):
        order = list(range(len(hops)))
        if i > 0 and rng.random() < 0.8:
            while order == list(range(len(hops))) and len(hops) > 1:
                rng.shuffle(order)
        rq = {'id': str(i), 'src': f'trx {a}', 'dst': f'trx {b}', 'nodes': [hops[j] for j in order],
              'loose': [hop_types[j] for j in order], 'style': 'perm_twin', 'mode': 'mode 1', 'bidir': False, 'build': build}
        if build == 'json':
            perm = list(range(len(hops)))
            rng.shuffle(perm)
            rq['json_perm'] = perm
        reqs.append(rq)
    groups = []
    if rng.random() < 0.35:
        c, d = rng.sample(sites, 2)
        reqs.append({'id': str(len(reqs)), 'src': f'trx {c}', 'dst': f'trx {d}', 'nodes': [], 'loose': [], 'style': 'none',
                     'mode': None, 'bidir': False})
        groups = [{'id': 'd0', 'reqs': [reqs[-1]['id'], reqs[0]['id']]}]
    return reqs, groups


def gen_perm_case(rng):
    n = rng.choice([4, 5, 5, 6])
    topo = gen_topo(rng, n, rng.randint(n, n + 3))
    return {'topo': topo, 'requests': None, 'groups': None, 'kind': 'perm'}


def gen_vector_case(rng):
    n = rng.choice([3, 4, 4, 5, 5, 6])
    topo = gen_topo(rng, n, rng.randint(n // 2, n), patch_p=rng.choice([0, 0, 0.2]))
    return {'topo': topo, 'requests': None, 'groups': None, 'kind': 'vector'}


def gen_shapes_case(rng):
    n = rng.choice([4, 4, 5, 5, 6])
    topo = gen_topo(rng, n, rng.randint(n - 1, n + 2))
    return {'topo': topo, 'requests': None, 'groups': None, 'kind': 'shapes'}


def link_elements(sp, mid):
    """number of elements of a designed link from its description (boosters / in-line / pre-amplifiers are added by the
    auto-design where nothing is declared; spans here are short, never split)"""
    if not sp:
        return 1
    return 1 + sum(1 + (2 if mid[k:k + 1] == 'G' else 1) for k in range(len(sp)))


def gen_cutoff_case(rng, target):
    """two routes between A and B: the direct line and a chain over 2-4 sites whose A -> B element count (transceivers
    included) is `target`, around the documented search cut-off of compute_path_dsjctn (80 links = 81 elements); a pair
    of requests A -> B declared disjoint needs that long candidate.  Both parities are reached with a Fused + declared
    amplifier after a span ('G')."""
    m = rng.randint(2, 4)
    chain = ['A'] + [site_name_(2 + i) for i in range(m)] + ['B']

    def mk(k):
        return [60 * rng.randint(20, 900) for _ in range(k)]
    lines = [{'a': 'A', 'b': 'B', 'ab': mk(1), 'ba': mk(1), 'mab': '-', 'mba': '-'}]
    descr = []
    for x, y in zip(chain, chain[1:]):
        k = rng.randint(1, 3)
        descr.append({'x': x, 'y': y, 'sp': mk(k), 'mid': ''.join(rng.choice('--A-F') for _ in range(k))})

    def total():
        return 2 + len(chain) + sum(link_elements(d['sp'], d['mid']) for d in descr)
    guard = 0
    while total() != target and guard < 200:
        guard += 1
        d = rng.choice(descr)
        diff = target - total()
        if diff >= 2:
            d['sp'].append(60 * rng.randint(20, 900))
            d['mid'] += rng.choice('--A-F')
        elif diff == 1:
            ks = [k for k in range(len(d['mid'])) if d['mid'][k] != 'G']
            if ks:
                k = rng.choice(ks)
                d['mid'] = d['mid'][:k] + 'G' + d['mid'][k + 1:]
        elif diff == -1:
            ks = [k for k in range(len(d['mid'])) if d['mid'][k] == 'G']
            if ks:
                k = rng.choice(ks)
                d['mid'] = d['mid'][:k] + '-' + d['mid'][k + 1:]
            elif len(d['sp']) > 1:
                d['sp'].pop()
                d['mid'] = d['mid'][:-1]
        elif len(d['sp']) > 1:
            d['sp'].pop()
            d['mid'] = d['mid'][:-1]
    for d in descr:
        a, b = sorted((d['x'], d['y']))
        fwd = (d['x'], d['y']) == (a, b)
        k = rng.randint(1, 2)
        back_sp, back_mid = mk(k), ''.join(rng.choice('--A') for _ in range(k))
        lines.append({'a': a, 'b': b, 'ab': d['sp'] if fwd else back_sp, 'ba': back_sp if fwd else d['sp'],
                      'mab': d['mid'] if fwd else back_mid, 'mba': back_mid if fwd else d['mid']})
    topo = {'n': 2 + m, 'lines': lines}
    rev = rng.random() < 0.25
    reqs = [{'id': '0', 'src': 'trx A', 'dst': 'trx B', 'nodes': [], 'loose': [], 'style': 'cutoff', 'mode': 'mode 1',
             'bidir': False, 'build': 'api_defaults'},
            {'id': '1', 'src': 'trx B' if rev else 'trx A', 'dst': 'trx A' if rev else 'trx B', 'nodes': [], 'loose': [],
             'style': 'cutoff', 'mode': None, 'bidir': False}]
    return {'topo': topo, 'requests': reqs, 'groups': [{'id': 'd0', 'reqs': ['0', '1']}], 'kind': 'cutoff',
            'target': target}


def site_name_(i):
    return c11.site_name(i)


# ------------------------------------------------------------------ gnpy driver
def rid_of(request_id):
    return [int(x) for x in request_id.split(' | ')]


def drive(N, reqs, groups):
    import gnpy.topology.request as rqm
    from gnpy.topology.request import (Disjunction, correct_json_route_list, deduplicate_disjunctions,
                                       requests_aggregation, compute_path_dsjctn)
    from gnpy.core.exceptions import DisjunctionError, ServiceError
    obs = {}
    R = [mk_request(r, mode=r['mode']) for r in reqs]
    try:
        correct_json_route_list(N.net, R)
    except ServiceError:
        obs['out'] = 'skip'
        return obs
    obs['clean'] = [(list(r.nodes_list), list(r.loose_list)) for r in R]
    gnum = {g['id']: i for i, g in enumerate(groups)}
    D = [Disjunction(disjunction_id=g['id'], relaxable=False, link_diverse=True, node_diverse=True,
                     disjunctions_req=list(g['reqs'])) for g in groups]
    D2 = deduplicate_disjunctions(D)
    obs['dedup'] = [gnum[d.disjunction_id] for d in D2]
    R2, D3 = requests_aggregation(R, D2)
    obs['ids'] = [rid_of(r.request_id) for r in R2]
    obs['groups'] = [(gnum[d.disjunction_id], [rid_of(x) for x in d.disjunctions_req]) for d in D3]
    calls, revs = [], []
    orig_isd, orig_frp = rqm.isdisjoint, rqm.find_reversed_path

    def w_isd(p1, p2):
        res = orig_isd(p1, p2)
        if len(calls) < 12:
            calls.append(([N.id[u] for u in p1], [N.id[u] for u in p2], res))
        return res

    def w_frp(p):
        res = orig_frp(p)
        if len(revs) < 5000:
            revs.append((N.ids(p), N.ids(res)))
        return res
    rqm.isdisjoint, rqm.find_reversed_path = w_isd, w_frp
    try:
        P = compute_path_dsjctn(N.net, eqpt(), R2, D3)
        obs['out'] = 'P'
        obs['paths'] = [N.ids(p) for p in P]
    except DisjunctionError:
        obs['out'] = 'E'
    except Exception as e:  # noqa
        obs['out'] = 'X'
        obs['exc'] = f'{type(e).__name__}: {e}'
    finally:
        rqm.isdisjoint, rqm.find_reversed_path = orig_isd, orig_frp
    obs['isd_calls'] = calls
    obs['frp'] = revs
    return obs


# ------------------------------------------------------------------ Coq terms
def zl(l):
    return listlit(map(str, l))


def rid_lit(r):
    return zl(r)


def grp_lit(g, members):
    return f'(mkG {g} {listlit([rid_lit(m) for m in members])})'


def count_cands(N, s, t, inc, limit=4000):
    """number of candidate routes (simple paths s..t crossing inc in order, <= CUTOFF links); only used to decide whether
    the whole-batch existence search is small enough to be run in Coq"""
    cnt = 0

    def ok(p):
        j = 0
        for e in inc:
            if e not in p:
                return False
            k = p.index(e)
            if k < j:
                return False
            j = k
        return True
    stack = [(s, [s])]
    while stack and cnt < limit:
        u, p = stack.pop()
        if u == t:
            if len(p) <= CUTOFF + 1 and ok(p):
                cnt += 1
            continue
        for v, _ in N.adj[u]:
            if v not in p:
                stack.append((v, p + [v]))
    return cnt


SEARCH_LIMIT = 150000


def batch_small_enough(N, reqs, obs):
    grouped = {m[0] for _, members in obs['groups'] for m in members}
    prod = 1
    for rid in obs['ids']:
        if rid[0] not in grouped:
            continue
        r, (nodes, loose) = next((r, c) for r, c in zip(reqs, obs['spec_clean']) if int(r['id']) == rid[0])
        inc = [N.id[u] for u in nodes] if 'STRICT' in loose else []
        prod *= max(1, count_cands(N, N.id[r['src']], N.id[r['dst']], inc))
        if prod > SEARCH_LIMIT:
            return False
    return True


def spec_clean(N, r):
    """the include list as the specification cleans it (own source first / own destination last stripped, unknown names
    and transceivers dropped when LOOSE) -- used for the aggregation signature and the size of the search only; the oracle
    itself uses Model.Route.clean_route evaluated in Coq"""
    nodes, loose = list(r['nodes']), list(r['loose'])
    if nodes and nodes[0] == r['src']:
        nodes, loose = nodes[1:], loose[1:]
    if nodes and nodes[-1] == r['dst']:
        nodes, loose = nodes[:-1], loose[:-1]
    keep = [(u, h) for u, h in zip(nodes, loose) if u in N.id and N.kind[N.id[u]] != 'T']
    return [u for u, _ in keep], [h for _, h in keep]


def coq_term(N, reqs, groups, obs):
    sigs = {}
    rqs = []
    obs['spec_clean'] = [spec_clean(N, r) for r in reqs]
    for r, (nodes, loose) in zip(reqs, obs['spec_clean']):
        # a request built from a JSON document gets its power / channel count / band from the transceiver library, an
        # API-built one from mk_request's constants: they differ in compared attributes, so they are never twins
        key = (r['src'], r['dst'], bool(r.get('bidir')), r['mode'], tuple(nodes), tuple(loose), r.get('build') == 'json')
        sg = sigs.setdefault(key, len(sigs))
        rqs.append(f'(mkRaw {r["id"]} {N.id[r["src"]]} {N.id[r["dst"]]} '
                   f'{listlit(map(common.zlit, c11.name_ids(N, r["nodes"])))} {c11.coq_bools(r["loose"])} {sg} '
                   f'{"true" if r["mode"] is not None else "false"})')
    declared = [grp_lit(i, [[int(x)] for x in g['reqs']]) for i, g in enumerate(groups)]
    if obs['out'] == 'P':
        o = '(DPaths ' + listlit([f'({rid_lit(i)},{zl(p)})' for i, p in zip(obs['ids'], obs['paths'])]) + ')'
    elif obs['out'] == 'E':
        o = 'DError'
    else:
        o = 'DOther'
    obs['judge_all'] = batch_small_enough(N, reqs, obs)
    return (f'run_dis {N.coq_graph()} {N.coq_kinds()} {N.coq_oms()} {CUTOFF}%nat '
            f'{"true" if obs["judge_all"] else "false"} {listlit(rqs)} {listlit(declared)} '
            f'{zl(obs["dedup"])} {listlit([rid_lit(i) for i in obs["ids"]])} '
            f'{listlit([grp_lit(g, m) for g, m in obs["groups"]])} {o}')


def short_positions(N):
    """ids that can appear in a short list: ROADMs and the element right after a ROADM"""
    s = set()
    for els in N.oms_els:
        s.update((els[0], els[1], els[-1]))
    return s


# ------------------------------------------------------------------ judgement
def judge(ctx, N, case, reqs, groups, obs, line):
    f = c11.parse_fields(line)
    if f['d'] != '[' + ','.join(map(str, obs['dedup'])) + ']':
        ctx.corr_break('corr:Disjoint.deduplicate', 'de-duplicated groups differ', case, impl=obs['dedup'], model=f['d'])
    if f['a'] != f['o']:
        ctx.corr_break('corr:Disjoint.aggregate', 'aggregated ids / groups differ', case, impl=f['o'], model=f['a'])
    # route-list clean-up: what gnpy made of the lists against the model (the oracle below uses the model's lists)
    mine = ';'.join('[' + ','.join(str(N.id[u]) for u in nodes) + ']' + ''.join('S' if h == 'STRICT' else 'L' for h in loose)
                    for nodes, loose in obs['clean'])
    if f.get('c', mine) != mine:
        ctx.corr_break('corr:Route.clean_route', 'cleaned route lists differ', case, impl=mine, model=f.get('c'))
    cov_obs, nostale_obs, cov_model, nostale_model = f['f'].split(',')
    aggregated = len(obs['ids']) < len(reqs)
    ctx.count('aggregated_batches' if aggregated else 'plain_batches')
    if len(obs['dedup']) < len(groups):
        ctx.count('batches_with_duplicate_groups_removed')
    flags = {'cov_obs': cov_obs, 'nostale_obs': nostale_obs, 'aggregated': aggregated, 'out': obs['out']}
    v = f['v'].split(',')
    x = f['x']
    if x == '-':
        ctx.count('batch_existence_not_judged_search_too_large')
    if v[0] == 'P':
        if x == 'F' and v[1] == 'T' and v[2] == 'T' and 'F' not in v[3]:
            ctx.corr_break('corr:Disjoint.exists_disjoint_assignment', 'gnpy returned a valid disjoint set of routes, the '
                           'existence procedure says none exists', case, impl=obs['paths'], model=x)
        elif x == 'T':
            ctx.count('batch_assignment_exists_and_found')
        ctx.count('outcome_paths')
        okorig, okfinal, rflags = v[1], v[2], v[3]
        flags.update(okfinal=okfinal)
        if okorig != 'T':
            ctx.violation('overlap', 'two requests declared disjoint were given paths sharing a ROADM-to-ROADM link', case,
                          flags=flags, paths=obs['paths'])
        if 'F' in rflags:
            ctx.violation('invalid_route_in_group', f'a request of the batch got a path that is not a route crossing ITS '
                          f'STRICT list in ITS order (per original request: {rflags})', case, flags=flags, paths=obs['paths'])
        if cov_obs != 'T' and okorig == 'T':
            ctx.count('declared_pair_dropped_but_paths_disjoint')
    elif v[0] == 'E':
        ctx.count('outcome_disjunction_error')
        if v[1] in 'TF':
            ctx.count('single_pair_errors')
            ga, gb = groups[0]['reqs']
            pair = [next((r, c) for r, c in zip(reqs, obs['spec_clean']) if r['id'] == i) for i in (ga, gb)]
            sp = short_positions(N)
            flags['strict_nonshort'] = any('STRICT' in lo and any(N.id[u] not in sp for u in nodes)
                                           for _, (nodes, lo) in pair)
            flags['exists_unconstrained'] = v[2]
            if v[1] == 'T':
                ctx.violation('missed_disjoint_pair', 'DisjunctionError although a disjoint pair of routes meeting the '
                              'STRICT lists exists (<= 80 links)', case, flags=flags)
            else:
                ctx.count('single_pair_errors_confirmed_unsatisfiable')
            if x in 'TF' and x != v[1] and not aggregated:
                ctx.corr_break('corr:Disjoint.exists_disjoint_assignment', 'pair and batch procedures disagree', case,
                               impl=v[1], model=x)
        elif x == 'F':
            ctx.count('multi_group_errors_confirmed_unsatisfiable')
        elif x == 'T':
            # not a violation: the property claims completeness for a single pair only
            ctx.count('multi_group_errors_although_assignment_exists')
            if sum(1 for n_ in ctx.notes if n_.startswith('incomplete:')) < 3:
                ctx.notes.append('incomplete: DisjunctionError although a disjoint assignment exists (allowed by the property '
                                 'beyond one pair): ' + json.dumps({'requests': [(r['id'], r['src'], r['dst'], r['nodes'], r['loose'])
                                                                                  for r in reqs], 'groups': groups}))
        else:
            ctx.count('multi_group_errors_not_judged')
    else:
        ctx.count('outcome_exception')
        flags['exc'] = obs.get('exc', '')
        ctx.violation('exception', f'{obs.get("exc")} (neither paths nor DisjunctionError)', case, flags=flags)
    # ---- include clause of C11 for the two members of a single vector (LOOSE hops are dropped only when no disjoint
    # pair crossing both lists exists; judged by the proved-complete exists_disjoint_pair)
    w = f.get('w', '-').split(',')
    if len(w) == 3 and not aggregated:
        ex_all, ex_strict, full = w
        if any(r['nodes'] for r in reqs):
            ctx.count('vector_pairs_with_lists')
        if ex_all == 'T':
            ctx.count('vector_pairs_all_lists_satisfiable')
            if v[0] == 'P' and 'F' in full:
                ctx.violation('vector_member_include_dropped', 'a disjoint pair of routes crossing both include lists exists '
                              f'(<= 80 links), yet a returned route does not cross its list (per member: {full})', case,
                              flags=flags, paths=obs['paths'])
            elif v[0] == 'E' and ex_strict != 'T':
                ctx.corr_break('corr:Disjoint.exists_disjoint_pair', 'lists satisfiable but STRICT sub-lists not', case,
                               impl=ex_strict, model=ex_all)
        elif ex_strict == 'T' and v[0] == 'P':
            ctx.count('vector_pairs_loose_lists_dropped_legitimately')


# ------------------------------------------------------------------ run
def process(ctx, rng, cases, prop, tag, isd_cases=None, short_terms=None, short_meta=None):
    """build, drive, evaluate in Coq and judge a list of cases (also used by the C11 check for its vector stream)"""
    chunk = 250                                               # bounded number of live gnpy networks
    for k0 in range(0, len(cases), chunk):
        terms, meta = [], []
        for c in cases[k0:k0 + chunk]:
            N = c11.try_net(ctx, c['topo'])
            if N is None:
                continue
            kind = c.get('kind', 'random')
            if c.get('requests') is None:
                reqs, groups = {'vector': gen_vector_batch, 'shapes': gen_shapes_batch, 'perm': gen_perm_batch}.get(kind, gen_batch)(rng, N)
            else:
                reqs, groups = c['requests'], c['groups']
            case = {'topo': c['topo'], 'requests': reqs, 'groups': groups}
            try:
                obs = drive(N, reqs, groups)
            except Exception as e:  # noqa: an exception out of the planning sequence is an observation, not a crash
                ctx.case(case, True)
                ctx.violation('exception', f'{type(e).__name__}: {e} raised by deduplicate_disjunctions / '
                              'requests_aggregation (neither paths nor DisjunctionError)', case)
                continue
            if obs['out'] == 'skip':
                # ServiceError out of the route-list clean-up: legitimate only when some STRICT hop of the batch names
                # something unusable (unknown element, or a transceiver other than the own source first / destination last)
                if any(strict_unusable(N, r) for r in reqs):
                    ctx.count('skipped_service_error')
                else:
                    ctx.case(case, True)
                    ctx.violation('exception', 'ServiceError raised by correct_json_route_list for a batch whose include '
                                  'lists only name usable elements (neither paths nor DisjunctionError)', case)
                continue
            nontriv = len(groups) > 1 or any(r['nodes'] for r in reqs) or len(obs['ids']) < len(reqs)
            ctx.case(case, nontriv)
            ctx.count('stream_' + kind)
            ctx.count('groups_%d' % len(groups))
            ctx.count('group_sizes', sum(len(g['reqs']) for g in groups))
            for r in reqs:
                ctx.count('style_' + r['style'])
            if kind == 'cutoff':
                # element count of the long candidate, measured on the built network
                s_, t_ = N.id['trx A'], N.id['trx B']
                lens = sorted(len(p) for p in all_simple_ids(N, s_, t_))
                ctx.count('cutoff_long_candidate_%d_elements' % (lens[-1] if lens else 0))
                if not lens or lens[-1] != c.get('target'):
                    ctx.count('cutoff_target_not_met')
            terms.append(coq_term(N, reqs, groups, obs))
            meta.append((N, case, reqs, groups, obs))
            # isdisjoint on the lists gnpy really compared, and the short list of the first candidates of each request
            if isd_cases is not None and len(isd_cases) < ctx.scale(3000, 12000):
                for p1, p2, res in obs['isd_calls']:
                    isd_cases.append((p1, p2, res, case))
            if short_terms is not None and obs['isd_calls'] and obs['frp'] and len(short_terms) < ctx.scale(24, 300):
                by = {}
                for fwd, rev in obs['frp']:
                    by.setdefault((fwd[0], fwd[-1]), []).append((fwd, rev))
                sel = [p for lst in by.values() for pr in lst[:8] for p in pr]
                short_terms.append(f'run_short {N.coq_graph()} {N.coq_kinds()} {N.coq_oms()} {listlit([zl(p) for p in sel])}')
                short_meta.append((case, {'isd_calls': obs['isd_calls']}))
            obs.pop('frp', None)
        lines = common.coq_eval(prop, 'Prelude Model.Route Model.Disjoint Run.C11 Run.C12', terms, per_file=16, tag=tag)
        for (N, case, reqs, groups, obs), line in zip(meta, lines):
            judge(ctx, N, case, reqs, groups, obs, line)
        del terms, meta


def strict_unusable(N, r):
    """does the request hold a STRICT hop that correct_json_route_list must refuse (unknown element, or a transceiver
    other than its own source listed first / destination listed last)?"""
    nodes, loose = list(r['nodes']), list(r['loose'])
    if nodes and nodes[0] == r['src']:
        nodes, loose = nodes[1:], loose[1:]
    if nodes and nodes[-1] == r['dst']:
        nodes, loose = nodes[:-1], loose[:-1]
    return any(h == 'STRICT' and (u not in N.id or N.kind[N.id[u]] == 'T') for u, h in zip(nodes, loose))


def all_simple_ids(N, s, t, limit=2000):
    out, stack = [], [(s, [s])]
    while stack and len(out) < limit:
        u, p = stack.pop()
        if u == t:
            out.append(p)
            continue
        for v, _ in N.adj[u]:
            if v not in p:
                stack.append((v, p + [v]))
    return out


def run(ctx):
    rng = ctx.rng
    # second tie: re-translate the decision code of /repo (harness/pygen_c11.py); the equivalence lemmas of
    # Proofs/RouteGen.v / Proofs/DisjointGen.v are then re-checked by check_props against what the code says now
    from . import pygen_c11
    gen_ok, gen_msg = pygen_c11.regenerate(('disjoint',))
    ctx.proof = common.check_props('C12')
    if not gen_ok:
        ctx.proof['ok'] = False
        ctx.proof['log'] = 'harness/pygen_c11.py: ' + gen_msg + '\n' + ctx.proof.get('log', '')
        ctx.proof['failed_file'] = 'theories/Gen (translation of /repo source failed: ' + gen_msg[:300] + ')'
    ctx.rule = ('random ROADM meshes (3-7 sites) x batches of 2-6 requests (twins that get aggregated, ROADM / booster / '
                'line-element include lists, STRICT/LOOSE) x 1-4 synchronisation groups (pairs, triples, overlapping, '
                'duplicated) through deduplicate_disjunctions, requests_aggregation, compute_path_dsjctn; judged in Coq '
                'by disjoint_ok / route_ok / exists_disjoint_pair; non-trivial = more than one group, an include list or '
                'an aggregation; distinct by content hash')
    cases = []
    if ctx.replay:
        cases = [json.load(open(ctx.replay))['case']]
    else:
        for fpath in sorted(glob.glob(os.path.join(common.VERIF, 'corpus', 'C12', '*.json'))):
            cases.append(json.load(open(fpath)))
        cases += [gen_case(rng) for _ in range(ctx.scale(130, 2400))]
        cases += [gen_vector_case(rng) for _ in range(ctx.scale(25, 400))]
        cases += [gen_shapes_case(rng) for _ in range(ctx.scale(32, 500))]
        cases += [gen_perm_case(rng) for _ in range(ctx.scale(20, 300))]
        cases += [gen_cutoff_case(rng, [80, 81, 79, 82, 80, 81, 78, 83, 80, 81, 77, 84][k % 12]) for k in range(ctx.scale(12, 72))]
    isd_cases, short_terms, short_meta = [], [], []
    process(ctx, rng, cases, 'C12', 'cases', isd_cases, short_terms, short_meta)
    # ---- isdisjoint correspondence (real arguments + random integer lists)
    for _ in range(ctx.scale(200, 3000)):
        a = [rng.randint(0, 6) for _ in range(rng.randint(0, 7))]
        b = [rng.randint(0, 6) for _ in range(rng.randint(0, 7))]
        if rng.random() < 0.3 and len(a) > 1:
            k = rng.randrange(len(a) - 1)
            b = b[:2] + a[k:k + 2] + b[2:]
        if rng.random() < 0.2:
            b = list(reversed(a))
        from gnpy.topology.request import isdisjoint
        isd_cases.append((a, b, isdisjoint(a, b), None))
    chunks = [isd_cases[i:i + 400] for i in range(0, len(isd_cases), 400)]
    outs = common.coq_eval('C12', 'Prelude Model.Route Model.Disjoint Run.C11 Run.C12',
                           ['run_isdisjoint ' + listlit([f'({zl(a)},{zl(b)})' for a, b, _, _ in ch]) for ch in chunks],
                           per_file=1, tag='isd')
    for ch, out in zip(chunks, outs):
        for (a, b, res, case), m in zip(ch, out):
            ctx.count('isdisjoint_calls')
            if str(res) != m:
                ctx.corr_break('corr:Disjoint.isdisjoint', f'isdisjoint({a},{b})', case or {'lists': [a, b]}, impl=res, model=m)
    sample = short_terms
    outs = common.coq_eval('C12', 'Prelude Model.Route Model.Disjoint Run.C11 Run.C12', sample, per_file=4, tag='short')
    for (case, obs), out in zip(short_meta, outs):
        model_shorts = set(out.split(';'))
        for p1, p2, _ in obs['isd_calls']:
            for p in (p1, p2):
                ctx.count('short_lists_checked')
                if '[' + ','.join(map(str, p)) + ']' not in model_shorts:
                    ctx.corr_break('corr:Disjoint.short_list', 'a list passed to isdisjoint is not the model short list of '
                                   'any of the first candidate paths', case, impl=p, model=sorted(model_shorts)[:5])
    ctx.assumptions += [
        'translator tie: harness/pygen_c11.py (fail-closed template matching + translation of the tests, constants and '
        'branches listed in its docstring into model terms, regenerated from the source on every run)',
        'links are unordered ROADM pairs: the generated meshes have no parallel lines between two sites (gnpy documents '
        'find_reversed_path / reversed_oms as inexact there)',
        'completeness is a violation only for batches made of one pair group (what the property claims); DisjunctionError '
        'on larger or overlapping groups is classified by exists_disjoint_assignment (confirmed unsatisfiable / an '
        'assignment exists) when the product of candidate counts is <= %d, counted as not judged otherwise' % SEARCH_LIMIT,
    ]
    for k, v in c11.GEN_STATS.items():
        ctx.count(k, v)
    c11.GEN_STATS.clear()
    return common.finish(ctx)
