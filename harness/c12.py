"""C12 — requests declared disjoint never share a ROADM-to-ROADM link in either direction.

Tie (DESIGN §4(b)): random ROADM meshes x random request batches x random synchronisation groups (pairs, triples,
overlapping and duplicated groups, identical requests that get aggregated, ROADM / line-element include lists) are driven
through the real deduplicate_disjunctions -> requests_aggregation -> compute_path_dsjctn.  Coq then judges
  * the returned paths against the groups *as declared by the user* with the proved validator `disjoint_ok`
    (links = unordered ROADM pairs) and each grouped path with `route_ok`                                  (oracle)
  * a DisjunctionError on a single pair with the proved-complete `exists_disjoint_pair` (<= 80 links)      (oracle)
  * gnpy's de-duplicated groups / aggregated ids and groups against the faithful models `deduplicate`, `aggregate`,
    and `isdisjoint` / `short_list` against the arguments really passed to request.isdisjoint    (correspondence)
The five pruning steps of compute_path_dsjctn are not modelled.
"""
import glob
import json
import os

from . import common, c11
from .common import listlit, strlit
from .c11 import Net, gen_topo, mk_request, eqpt, line_elements, simple_paths_sites

CUTOFF = 80


# ------------------------------------------------------------------ generator
def gen_case(rng):
    n = rng.choice([3, 3, 4, 4, 5, 5, 6, 6, 7])
    extra = rng.randint(n // 2, n) if n < 6 else rng.randint(1, 3)        # dense enough for disjoint routes to exist
    topo = gen_topo(rng, n, extra, cut=rng.random() < 0.05)
    return {'topo': topo, 'requests': None, 'groups': None}


def gen_batch(rng, N):
    sites = N.sites
    nreq = rng.randint(2, 6)
    reqs = []
    for k in range(nreq):
        a, b = rng.sample(sites, 2)
        nodes, loose, style = [], [], 'none'
        r = rng.random()
        sp = simple_paths_sites(N.topo, a, b, rng, limit=20)
        if r < 0.55 or not sp:
            pass
        elif r < 0.7:
            style = 'roadms'
            p = rng.choice(sp)
            nodes = [f'roadm {x}' for x in p[1:-1] if rng.random() < 0.6] or [f'roadm {rng.choice(sites)}']
        elif r < 0.8:
            style = 'booster'                                  # first element after a ROADM: present in gnpy's short list
            p = rng.choice(sp)
            hops = [h for h in zip(p, p[1:]) if rng.random() < 0.6] or [(p[0], p[1])]
            nodes = [line_elements(N, x, y)[0] for x, y in hops]
        elif r < 0.92:
            style = 'line'                                     # any line element of a path
            p = rng.choice(sp)
            hops = [h for h in zip(p, p[1:]) if rng.random() < 0.5] or [(p[0], p[1])]
            for x, y in hops:
                nodes.append(rng.choice(line_elements(N, x, y)))
        else:
            style = 'roadm_random'
            nodes = [f'roadm {rng.choice(sites)}' for _ in range(rng.randint(1, 2))]
        m = rng.random()
        loose = (['STRICT'] * len(nodes) if m < 0.45 else ['LOOSE'] * len(nodes) if m < 0.8
                 else [rng.choice(['STRICT', 'LOOSE']) for _ in nodes])
        rq = {'id': str(k), 'src': f'trx {a}', 'dst': f'trx {b}', 'nodes': nodes, 'loose': loose, 'style': style,
              'mode': rng.choice(['mode 1', 'mode 1', 'mode 1', None]), 'bidir': rng.random() < 0.3}
        if k > 0 and rng.random() < 0.3:
            o = rng.choice(reqs)                               # a twin: candidate for aggregation
            rq.update(src=o['src'], dst=o['dst'])
            if rng.random() < 0.75:
                rq.update(nodes=list(o['nodes']), loose=list(o['loose']), style=o['style'])
                if rng.random() < 0.8:
                    rq['mode'] = o['mode']
                if rng.random() < 0.8:
                    rq['bidir'] = o['bidir']
        reqs.append(rq)
    ids = [r['id'] for r in reqs]
    groups = []
    shape = rng.random()
    if shape < 0.12 and len(sites) >= 3:
        # directed stream: twins whose groups name the same other requests but are shaped differently
        # (what compare_reqs.same_disj accepts): r1 in two pair groups, its twin r2 in one triple / several twins
        a, b = rng.sample(sites, 2)
        others = []
        while len(others) < 2:
            c, d = rng.sample(sites, 2)
            if (c, d) != (a, b) and (c, d) not in others:
                others.append((c, d))

        def plain(k, s, t):
            return {'id': str(k), 'src': f'trx {s}', 'dst': f'trx {t}', 'nodes': [], 'loose': [], 'style': 'none',
                    'mode': 'mode 1', 'bidir': False}
        v = rng.random()
        if v < 0.35:
            # same shape: the twins 1 and 2 are merged, their groups follow the merged request
            reqs = [plain(0, *others[0]), plain(1, a, b), plain(2, a, b), plain(3, *others[1])]
            gl = rng.choice([[['0', '1'], ['0', '2']], [['1', '0', '3'], ['3', '2', '0']],
                             [['0', '1'], ['3', '1'], ['2', '0'], ['2', '3']]])
        elif v < 0.7:
            reqs = [plain(0, *others[0]), plain(1, a, b), plain(2, a, b), plain(3, *others[1])]
            gl = [['3', '1'], ['0', '1'], ['0', '3', '2']]
        else:
            reqs = [plain(0, a, b), plain(1, *others[0]), plain(2, a, b), plain(3, a, b)]
            gl = [['1', '2'], ['3', '2'], ['3', '1', '0']]
        if rng.random() < 0.3:
            rng.shuffle(gl)
        return reqs, [{'id': f'd{i}', 'reqs': g} for i, g in enumerate(gl)]
    if shape < 0.45:
        groups.append(rng.sample(ids, 2))
    elif shape < 0.6 and nreq >= 3:
        groups.append(rng.sample(ids, 3))
    else:
        for _ in range(rng.randint(2, 3)):
            groups.append(rng.sample(ids, 3 if nreq >= 3 and rng.random() < 0.3 else 2))
    if rng.random() < 0.15:
        g = list(rng.choice(groups))
        rng.shuffle(g)
        groups.insert(rng.randint(0, len(groups)), g)          # the same set declared twice
        if rng.random() < 0.3:
            groups.append(list(g))
    return reqs, [{'id': f'd{i}', 'reqs': g} for i, g in enumerate(groups)]


# ------------------------------------------------------------------ gnpy driver
def rid_of(request_id):
    return [int(x) for x in request_id.split(' | ')]


def drive(N, reqs, groups):
    import gnpy.topology.request as rqm
    from gnpy.topology.request import (Disjunction, correct_json_route_list, deduplicate_disjunctions,
                                       requests_aggregation, compute_path_dsjctn)
    from gnpy.core.exceptions import DisjunctionError, ServiceError
    obs = {}
    R = [mk_request(r, mode=r['mode']) for r in reqs]
    try:
        correct_json_route_list(N.net, R)
    except ServiceError:
        obs['out'] = 'skip'
        return obs
    obs['clean'] = [(list(r.nodes_list), list(r.loose_list)) for r in R]
    gnum = {g['id']: i for i, g in enumerate(groups)}
    D = [Disjunction(disjunction_id=g['id'], relaxable=False, link_diverse=True, node_diverse=True,
                     disjunctions_req=list(g['reqs'])) for g in groups]
    D2 = deduplicate_disjunctions(D)
    obs['dedup'] = [gnum[d.disjunction_id] for d in D2]
    R2, D3 = requests_aggregation(R, D2)
    obs['ids'] = [rid_of(r.request_id) for r in R2]
    obs['groups'] = [(gnum[d.disjunction_id], [rid_of(x) for x in d.disjunctions_req]) for d in D3]
    calls, revs = [], []
    orig_isd, orig_frp = rqm.isdisjoint, rqm.find_reversed_path

    def w_isd(p1, p2):
        res = orig_isd(p1, p2)
        if len(calls) < 12:
            calls.append(([N.id[u] for u in p1], [N.id[u] for u in p2], res))
        return res

    def w_frp(p):
        res = orig_frp(p)
        if len(revs) < 5000:
            revs.append((N.ids(p), N.ids(res)))
        return res
    rqm.isdisjoint, rqm.find_reversed_path = w_isd, w_frp
    try:
        P = compute_path_dsjctn(N.net, eqpt(), R2, D3)
        obs['out'] = 'P'
        obs['paths'] = [N.ids(p) for p in P]
    except DisjunctionError:
        obs['out'] = 'E'
    except Exception as e:  # noqa
        obs['out'] = 'X'
        obs['exc'] = f'{type(e).__name__}: {e}'
    finally:
        rqm.isdisjoint, rqm.find_reversed_path = orig_isd, orig_frp
    obs['isd_calls'] = calls
    obs['frp'] = revs
    return obs


# ------------------------------------------------------------------ Coq terms
def zl(l):
    return listlit(map(str, l))


def rid_lit(r):
    return zl(r)


def grp_lit(g, members):
    return f'(mkG {g} {listlit([rid_lit(m) for m in members])})'


def count_cands(N, s, t, inc, limit=4000):
    """number of candidate routes (simple paths s..t crossing inc in order, <= CUTOFF links); only used to decide whether
    the whole-batch existence search is small enough to be run in Coq"""
    cnt = 0

    def ok(p):
        j = 0
        for e in inc:
            if e not in p:
                return False
            k = p.index(e)
            if k < j:
                return False
            j = k
        return True
    stack = [(s, [s])]
    while stack and cnt < limit:
        u, p = stack.pop()
        if u == t:
            if len(p) <= CUTOFF + 1 and ok(p):
                cnt += 1
            continue
        for v, _ in N.adj[u]:
            if v not in p:
                stack.append((v, p + [v]))
    return cnt


SEARCH_LIMIT = 150000


def batch_small_enough(N, reqs, obs):
    grouped = {m[0] for _, members in obs['groups'] for m in members}
    prod = 1
    for rid in obs['ids']:
        if rid[0] not in grouped:
            continue
        r, (nodes, loose) = next((r, c) for r, c in zip(reqs, obs['clean']) if int(r['id']) == rid[0])
        inc = [N.id[u] for u in nodes] if 'STRICT' in loose else []
        prod *= max(1, count_cands(N, N.id[r['src']], N.id[r['dst']], inc))
        if prod > SEARCH_LIMIT:
            return False
    return True


def coq_term(N, reqs, groups, obs):
    sigs = {}
    rqs = []
    for r, (nodes, loose) in zip(reqs, obs['clean']):
        key = (r['src'], r['dst'], bool(r.get('bidir')), r['mode'], tuple(nodes), tuple(loose))
        sg = sigs.setdefault(key, len(sigs))
        rqs.append(f'(mkD {r["id"]} {N.id[r["src"]]} {N.id[r["dst"]]} {zl([N.id[u] for u in nodes])} '
                   f'{"true" if "STRICT" in loose else "false"} {sg} {"true" if r["mode"] is not None else "false"})')
    declared = [grp_lit(i, [[int(x)] for x in g['reqs']]) for i, g in enumerate(groups)]
    if obs['out'] == 'P':
        o = '(DPaths ' + listlit([f'({rid_lit(i)},{zl(p)})' for i, p in zip(obs['ids'], obs['paths'])]) + ')'
    elif obs['out'] == 'E':
        o = 'DError'
    else:
        o = 'DOther'
    obs['judge_all'] = batch_small_enough(N, reqs, obs)
    return (f'run_dis {N.coq_graph()} {N.coq_kinds()} {N.coq_oms()} {CUTOFF}%nat '
            f'{"true" if obs["judge_all"] else "false"} {listlit(rqs)} {listlit(declared)} '
            f'{zl(obs["dedup"])} {listlit([rid_lit(i) for i in obs["ids"]])} '
            f'{listlit([grp_lit(g, m) for g, m in obs["groups"]])} {o}')


def short_positions(N):
    """ids that can appear in a short list: ROADMs and the element right after a ROADM"""
    s = set()
    for els in N.oms_els:
        s.update((els[0], els[1], els[-1]))
    return s


# ------------------------------------------------------------------ judgement
def judge(ctx, N, case, reqs, groups, obs, line):
    f = c11.parse_fields(line)
    if f['d'] != '[' + ','.join(map(str, obs['dedup'])) + ']':
        ctx.corr_break('corr:Disjoint.deduplicate', 'de-duplicated groups differ', case, impl=obs['dedup'], model=f['d'])
    if f['a'] != f['o']:
        ctx.corr_break('corr:Disjoint.aggregate', 'aggregated ids / groups differ', case, impl=f['o'], model=f['a'])
    cov_obs, nostale_obs, cov_model, nostale_model = f['f'].split(',')
    aggregated = len(obs['ids']) < len(reqs)
    ctx.count('aggregated_batches' if aggregated else 'plain_batches')
    if len(obs['dedup']) < len(groups):
        ctx.count('batches_with_duplicate_groups_removed')
    flags = {'cov_obs': cov_obs, 'nostale_obs': nostale_obs, 'aggregated': aggregated, 'out': obs['out']}
    v = f['v'].split(',')
    x = f['x']
    if x == '-':
        ctx.count('batch_existence_not_judged_search_too_large')
    if v[0] == 'P':
        if x == 'F' and v[1] == 'T' and v[2] == 'T' and 'F' not in v[3]:
            ctx.corr_break('corr:Disjoint.exists_disjoint_assignment', 'gnpy returned a valid disjoint set of routes, the '
                           'existence procedure says none exists', case, impl=obs['paths'], model=x)
        elif x == 'T':
            ctx.count('batch_assignment_exists_and_found')
        ctx.count('outcome_paths')
        okorig, okfinal, rflags = v[1], v[2], v[3]
        flags.update(okfinal=okfinal)
        if okorig != 'T':
            ctx.violation('overlap', 'two requests declared disjoint were given paths sharing a ROADM-to-ROADM link', case,
                          flags=flags, paths=obs['paths'])
        if 'F' in rflags:
            ctx.violation('invalid_route_in_group', f'a grouped request got a path that is not a route meeting its STRICT '
                          f'list (per request: {rflags})', case, flags=flags, paths=obs['paths'])
        if cov_obs != 'T' and okorig == 'T':
            ctx.count('declared_pair_dropped_but_paths_disjoint')
    elif v[0] == 'E':
        ctx.count('outcome_disjunction_error')
        if v[1] in 'TF':
            ctx.count('single_pair_errors')
            ga, gb = groups[0]['reqs']
            pair = [next((r, c) for r, c in zip(reqs, obs['clean']) if r['id'] == i) for i in (ga, gb)]
            sp = short_positions(N)
            flags['strict_nonshort'] = any('STRICT' in lo and any(N.id[u] not in sp for u in nodes)
                                           for _, (nodes, lo) in pair)
            flags['exists_unconstrained'] = v[2]
            if v[1] == 'T':
                ctx.violation('missed_disjoint_pair', 'DisjunctionError although a disjoint pair of routes meeting the '
                              'STRICT lists exists (<= 80 links)', case, flags=flags)
            else:
                ctx.count('single_pair_errors_confirmed_unsatisfiable')
            if x in 'TF' and x != v[1] and not aggregated:
                ctx.corr_break('corr:Disjoint.exists_disjoint_assignment', 'pair and batch procedures disagree', case,
                               impl=v[1], model=x)
        elif x == 'F':
            ctx.count('multi_group_errors_confirmed_unsatisfiable')
        elif x == 'T':
            # not a violation: the property claims completeness for a single pair only
            ctx.count('multi_group_errors_although_assignment_exists')
            if sum(1 for n_ in ctx.notes if n_.startswith('incomplete:')) < 3:
                ctx.notes.append('incomplete: DisjunctionError although a disjoint assignment exists (allowed by the property '
                                 'beyond one pair): ' + json.dumps({'requests': [(r['id'], r['src'], r['dst'], r['nodes'], r['loose'])
                                                                                  for r in reqs], 'groups': groups}))
        else:
            ctx.count('multi_group_errors_not_judged')
    else:
        ctx.count('outcome_exception')
        flags['exc'] = obs.get('exc', '')
        ctx.violation('exception', f'{obs.get("exc")} (neither paths nor DisjunctionError)', case, flags=flags)


# ------------------------------------------------------------------ run
def run(ctx):
    rng = ctx.rng
    ctx.proof = common.check_props('C12')
    ctx.rule = ('random ROADM meshes (3-7 sites) x batches of 2-6 requests (twins that get aggregated, ROADM / booster / '
                'line-element include lists, STRICT/LOOSE) x 1-4 synchronisation groups (pairs, triples, overlapping, '
                'duplicated) through deduplicate_disjunctions, requests_aggregation, compute_path_dsjctn; judged in Coq '
                'by disjoint_ok / route_ok / exists_disjoint_pair; non-trivial = more than one group, an include list or '
                'an aggregation; distinct by content hash')
    cases = []
    if ctx.replay:
        cases = [json.load(open(ctx.replay))['case']]
    else:
        for fpath in sorted(glob.glob(os.path.join(common.VERIF, 'corpus', 'C12', '*.json'))):
            cases.append(json.load(open(fpath)))
        cases += [gen_case(rng) for _ in range(ctx.scale(170, 3000))]
    isd_cases, short_terms, short_meta = [], [], []
    chunk = 250                                               # bounded number of live gnpy networks
    for k0 in range(0, len(cases), chunk):
        terms, meta = [], []
        for c in cases[k0:k0 + chunk]:
            N = Net(c['topo'])
            if c.get('requests') is None:
                reqs, groups = gen_batch(rng, N)
            else:
                reqs, groups = c['requests'], c['groups']
            case = {'topo': c['topo'], 'requests': reqs, 'groups': groups}
            obs = drive(N, reqs, groups)
            if obs['out'] == 'skip':
                ctx.count('skipped_service_error')
                continue
            nontriv = len(groups) > 1 or any(r['nodes'] for r in reqs) or len(obs['ids']) < len(reqs)
            ctx.case(case, nontriv)
            ctx.count('groups_%d' % len(groups))
            ctx.count('group_sizes', sum(len(g['reqs']) for g in groups))
            for r in reqs:
                ctx.count('style_' + r['style'])
            terms.append(coq_term(N, reqs, groups, obs))
            meta.append((N, case, reqs, groups, obs))
            # isdisjoint on the lists gnpy really compared, and the short list of the first candidates of each request
            if len(isd_cases) < ctx.scale(3000, 12000):
                for p1, p2, res in obs['isd_calls']:
                    isd_cases.append((p1, p2, res, case))
            if obs['isd_calls'] and obs['frp'] and len(short_terms) < ctx.scale(24, 300):
                by = {}
                for fwd, rev in obs['frp']:
                    by.setdefault((fwd[0], fwd[-1]), []).append((fwd, rev))
                sel = [p for lst in by.values() for pr in lst[:8] for p in pr]
                short_terms.append(f'run_short {N.coq_graph()} {N.coq_kinds()} {N.coq_oms()} {listlit([zl(p) for p in sel])}')
                short_meta.append((case, {'isd_calls': obs['isd_calls']}))
            obs.pop('frp', None)
        lines = common.coq_eval('C12', 'Prelude Model.Route Model.Disjoint Run.C11 Run.C12', terms, per_file=16)
        for (N, case, reqs, groups, obs), line in zip(meta, lines):
            judge(ctx, N, case, reqs, groups, obs, line)
        del terms, meta
    # ---- isdisjoint correspondence (real arguments + random integer lists)
    for _ in range(ctx.scale(200, 3000)):
        a = [rng.randint(0, 6) for _ in range(rng.randint(0, 7))]
        b = [rng.randint(0, 6) for _ in range(rng.randint(0, 7))]
        if rng.random() < 0.3 and len(a) > 1:
            k = rng.randrange(len(a) - 1)
            b = b[:2] + a[k:k + 2] + b[2:]
        if rng.random() < 0.2:
            b = list(reversed(a))
        from gnpy.topology.request import isdisjoint
        isd_cases.append((a, b, isdisjoint(a, b), None))
    chunks = [isd_cases[i:i + 400] for i in range(0, len(isd_cases), 400)]
    outs = common.coq_eval('C12', 'Prelude Model.Route Model.Disjoint Run.C11 Run.C12',
                           ['run_isdisjoint ' + listlit([f'({zl(a)},{zl(b)})' for a, b, _, _ in ch]) for ch in chunks],
                           per_file=1, tag='isd')
    for ch, out in zip(chunks, outs):
        for (a, b, res, case), m in zip(ch, out):
            ctx.count('isdisjoint_calls')
            if str(res) != m:
                ctx.corr_break('corr:Disjoint.isdisjoint', f'isdisjoint({a},{b})', case or {'lists': [a, b]}, impl=res, model=m)
    sample = short_terms
    outs = common.coq_eval('C12', 'Prelude Model.Route Model.Disjoint Run.C11 Run.C12', sample, per_file=4, tag='short')
    for (case, obs), out in zip(short_meta, outs):
        model_shorts = set(out.split(';'))
        for p1, p2, _ in obs['isd_calls']:
            for p in (p1, p2):
                ctx.count('short_lists_checked')
                if '[' + ','.join(map(str, p)) + ']' not in model_shorts:
                    ctx.corr_break('corr:Disjoint.short_list', 'a list passed to isdisjoint is not the model short list of '
                                   'any of the first candidate paths', case, impl=p, model=sorted(model_shorts)[:5])
    ctx.assumptions += [
        'links are unordered ROADM pairs: the generated meshes have no parallel lines between two sites (gnpy documents '
        'find_reversed_path / reversed_oms as inexact there)',
        'completeness is a violation only for batches made of one pair group (what the property claims); DisjunctionError '
        'on larger or overlapping groups is classified by exists_disjoint_assignment (confirmed unsatisfiable / an '
        'assignment exists) when the product of candidate counts is <= %d, counted as not judged otherwise' % SEARCH_LIMIT,
    ]
    return common.finish(ctx)
