"""C17 — designing is repeatable: export, reload and redesign changes nothing; design twice gives identical output;
auto-design leaves SimParams (Raman / NLI settings) exactly as found.

Oracle (implementation against itself): random topologies / configurations (generator of C08 plus VOA settings,
automatic output VOA, gain mode, Raman spans, non-default SimParams; a multiband stream on the shipped example) are
designed, exported with network_to_json, reloaded and redesigned for 1-3 rounds; consecutive exports are compared
element by element (gain_target / att_in to 1e-5, everything else to 1e-9), connections as sets, a propagated
reference path to 1e-3 dB; the same input designed twice must give identical JSON; vars() of the shared SimParams
objects are compared before / after design, and to_json keys against attribute names.
A drift is attributed by counterfactual: the same case is rerun with the proposed minimal fix of a recorded finding
patched in at run time; only a drift that disappears under exactly those fixes is a KNOWN-FINDING.

Correspondence: the amplifier settings of every line (gain, delta_p, tilt, VOAs, as designed and as exported) are
recomputed by Verif.Model.Redesign.design_line_amps from the chain observed BEFORE design (round 1 and the reloaded
round 2), the SimParams walk of estimate_raman_gain by Redesign.estimate_raman_gain_params.
The for-all part is Props/C17.v.
"""
import copy
import contextlib
import glob
import json
import logging
import math
import os
from fractions import Fraction

from . import common, c08
from .common import zlit, listlit, qlit, strlit
from .c08 import oq, close

PROP = 'C17'
QPRE = c08.QPRE
_EQ = {}
AUTO_VOA = ['std_low_gain', 'std_medium_gain']


# ------------------------------------------------------------------ equipment
def build_equipment(span, si=None, auto_voa=False):
    from gnpy.tools.json_io import load_json, _equipment_from_json
    from gnpy.tools.default_edfa_config import DEFAULT_EXTRA_CONFIG
    from pathlib import Path
    key = json.dumps([span, si, auto_voa], sort_keys=True)
    if key not in _EQ:
        if 'base' not in _EQ:
            _EQ['base'] = load_json(Path(c08.example_dir()) / 'eqpt_config.json')
        ej = copy.deepcopy(_EQ['base'])
        ej['Span'][0].update(span)
        if si:
            ej['SI'][0].update(si)
        if auto_voa:
            for a in ej['Edfa']:
                if a['type_variety'] in AUTO_VOA:
                    a['out_voa_auto'] = True
        if len(_EQ) > 300:
            base = _EQ['base']
            _EQ.clear()
            _EQ['base'] = base
        _EQ[key] = _equipment_from_json(ej, DEFAULT_EXTRA_CONFIG)
    return _EQ[key]


# ------------------------------------------------------------------ generator
def gen_case(rng, kind='valid'):
    case = c08.gen_case(rng, 'valid')
    case['kind'] = kind
    sp = case['span']
    if kind != 'eol':
        sp['EOL'] = 0
    elif sp['EOL'] == 0:
        sp['EOL'] = rng.choice([0.5, 1.5])
    sp['voa_margin'] = rng.choice([1, 1, 1, 0.5, 0.25])
    sp['voa_step'] = rng.choice([0.5, 0.5, 0.1, 0.2])
    if kind == 'voa_margin':
        sp['voa_margin'], sp['voa_step'], sp['power_mode'] = rng.choice([(0, 0.5), (0.1, 1), (0, 1)]) + (True,)
    case['auto_voa'] = kind == 'voa_margin' or rng.random() < 0.4
    case.setdefault('si', {}).update({'power_dbm': rng.choice([0, 0, 1, -1.5]), 'tx_power_dbm': rng.choice([0, 0, None])})
    for ln in case['lines']:
        for e in ln['els']:
            if kind != 'lumped':
                e.pop('lumped', None)
            if kind != 'att_in' and e.get('att_in'):
                e['att_in'] = 0
    if kind == 'lumped':
        n = 0
        for ln in case['lines']:
            for e in ln['els']:
                if e['k'] == 'F' and e['len'] < c08.max_km(sp) and e['len'] > 2 and (n == 0 or rng.random() < 0.2):
                    e['lumped'] = [{'position': round(e['len'] * rng.uniform(0.1, 0.9), 3), 'loss': rng.choice([0.5, 1.5])}]
                    n += 1
    if kind == 'att_in':
        n = 0
        for ln in case['lines']:
            for e in ln['els']:
                if e['k'] == 'F' and e['len'] < 30 and (n == 0 or rng.random() < 0.3):
                    e['att_in'] = rng.choice([1, 2.5])
                    n += 1
        if n == 0:
            f = case['lines'][0]['els']
            f.insert(0, {'k': 'F', 'uid': 'fiber short', 'len': 12.5, 'lc': 0.2, 'variety': 'SSMF', 'con_in': None, 'con_out': None,
                         'att_in': 2})
    if kind != 'raman':
        # Raman spans (slow: the Raman solver runs at every design) only in their own stream
        for ln in case['lines']:
            ln['els'] = [e for e in ln['els'] if e['k'] != 'R']
            if not any(e['k'] in 'F' for e in ln['els']):
                ln['els'] = [{'k': 'F', 'uid': f'fiber {ln["src"][-1]}{ln["dst"][-1]}_x', 'len': 75.5, 'lc': 0.2, 'variety': 'SSMF',
                              'con_in': None, 'con_out': None}]
    else:
        ln = case['lines'][0]
        if not any(e['k'] == 'R' for l2 in case['lines'] for e in l2['els']):
            head = [c08.gen_amp(rng, 'amp r0', sp['power_mode'], before_raman=rng.random() < 0.5)] if rng.random() < 0.5 else []
            ln['els'] = head + [c08.gen_fiber(rng, 'raman r1', c08.max_km(sp), raman=True)] + [e for e in ln['els'] if e['k'] == 'F'][:1]
    case['simparams'] = gen_simparams(rng) if rng.random() < 0.5 else None
    if kind == 'raman':
        # the settings in force when a Raman span is designed: never the defaults
        case['simparams'] = gen_simparams(rng)
        case['simparams']['raman_params']['order'] = rng.choice([1, 3, 4])
    if kind == 'gain_in_voa':
        # gain mode, input VOAs on amplifiers whose gain is auto-designed, total powers close to p_max downstream
        sp['power_mode'] = False
        case['si'].update({'power_dbm': rng.choice([-1, 0, 0.5, 1, 2, 2.5]), 'f_min': rng.choice([191.275e12, 191.3e12, 192.3e12]),
                           'f_max': 196.125e12})
        # sites where the operator allows few amplifier types (restrictions of the ROADM): the automatic selection then
        # has to live with a low p_max
        for r, spec in case['roadms'].items():
            if rng.random() < 0.6:
                spec.setdefault('params', {})['restrictions'] = {
                    'preamp_variety_list': rng.choice([['std_high_gain'], ['std_low_gain'], ['std_medium_gain', 'std_high_gain'], []]),
                    'booster_variety_list': rng.choice([['std_medium_gain'], ['std_high_gain'], ['std_low_gain', 'high_power'], []])}
        for ln in case['lines']:
            amps = [e for e in ln['els'] if e['k'] == 'A']
            if not amps:
                ln['els'].append(c08.gen_amp(rng, f'amp iv {ln["src"][-1]}{ln["dst"][-1]}', False))
                ln['els'].append(c08.gen_fiber(rng, f'fiber iv {ln["src"][-1]}{ln["dst"][-1]}', c08.max_km(sp), allow_lumped=False))
                amps = [ln['els'][-2]]
            for i, a in enumerate(amps):
                op = a.setdefault('op', {})
                if i % 2 == 0:
                    op['in_voa'] = rng.choice([0.5, 1, 2, 2.5, 3])
                    op.pop('gain_target', None)
                    a['variety'] = rng.choice(['std_medium_gain', 'std_low_gain', ''])
                else:
                    a['variety'] = rng.choice(['std_high_gain', 'std_fixed_gain', 'std_medium_gain'])
    if kind == 'zero_gain':
        # gain mode with a by-pass amplifier (gain exactly 0 dB)
        sp['power_mode'] = False
        amps = [e for ln in case['lines'] for e in ln['els'] if e['k'] == 'A']
        if not amps:
            amps = [{'k': 'A', 'uid': 'amp zero'}]
            case['lines'][0]['els'].append(amps[0])
        for a in amps[:max(1, len(amps) // 2)]:
            a.setdefault('op', {})['gain_target'] = 0
    case['rounds'] = rng.choice([1, 1, 2, 3])
    return case


def gen_simparams(rng):
    sp = {'raman_params': {'flag': False, 'method': rng.choice(['perturbative', 'numerical']), 'order': rng.choice([1, 2, 3, 4]),
                           'result_spatial_resolution': rng.choice([10e3, 5e3, 20e3]),
                           'solver_spatial_resolution': rng.choice([10e3, 50, 200])},
          'nli_params': {'method': rng.choice(['gn_model_analytic', 'ggn_spectrally_separated', 'GGN_approx']),
                         'dispersion_tolerance': rng.choice([1, 4, 2.5]), 'phase_shift_tolerance': rng.choice([0.1, 0.05]),
                         'computed_channels': rng.choice([None, [1, 18, 37], [2, 40]])}}
    if sp['nli_params']['computed_channels'] is None and rng.random() < 0.5:
        sp['nli_params']['computed_number_of_channels'] = rng.choice([3, 9])
    if rng.random() < 0.3:
        del sp['raman_params']['order']
    return sp


# ------------------------------------------------------------------ counterfactual fixes (proposed minimal repairs)
@contextlib.contextmanager
def fix_f22():
    """the Raman gain estimate is fed the power behind the output VOA of the previous amplifier (pref + dp - voa)"""
    import gnpy.core.network as N
    from gnpy.core import elements as E
    orig = N.span_loss

    def span_loss(network, node, equipment, input_power=None):
        if input_power is not None and isinstance(node, E.RamanFiber):
            cur = node
            for _ in range(50):
                preds = list(network.predecessors(cur))
                if len(preds) != 1:
                    break
                cur = preds[0]
                if isinstance(cur, E.Edfa):
                    input_power -= (cur.operational.out_voa or 0)
                    break
                if not isinstance(cur, (E.Fiber, E.Fused)):
                    break
        return orig(network, node, equipment, input_power)
    N.span_loss = span_loss
    try:
        yield
    finally:
        N.span_loss = orig


# F20 (design_span_loss counted att_in twice) and F21 (automatic VOA above the head-room) were repaired in /repo
# (13a35c31, 99151283): their streams ('att_in', 'voa_margin') stay as regression streams without a matcher.
# F8 (single design band dropped) and F19 (lumped losses not exported) were repaired too (37844749, 562b868b):
# the 'lumped' stream and the multiband example stay as regressions that must pass.
# F15 / F23 (Raman estimate without span power: TypeError, then cached at the wrong power) were repaired as well
# (36fd5b85, d3e2700d).
@contextlib.contextmanager
def fix_gm_in_voa():
    """gain-mode saturation test of an imposed variety made behind the input VOA: pout - in_voa against p_max (the open C09
    finding F-gain-mode-in-voa).  set_one_amplifier reads p_max from equipment['Edfa'][variety] for that test only, so
    the repair is applied by handing it a p_max raised by the amplifier's in_voa."""
    import gnpy.core.network as N
    orig = N.set_one_amplifier

    def set_one_amplifier(node, *args, **kw):
        args = list(args)
        power_mode, equipment = args[2], args[9]
        iv = node.in_voa if node.in_voa else 0
        v = node.params.type_variety
        if not power_mode and iv and v and v in equipment['Edfa']:
            eq2 = dict(equipment)
            eq2['Edfa'] = dict(equipment['Edfa'])
            amp = copy.copy(equipment['Edfa'][v])
            amp.p_max = amp.p_max + iv
            eq2['Edfa'][v] = amp
            args[9] = eq2
        return orig(node, *args, **kw)
    N.set_one_amplifier = set_one_amplifier
    try:
        yield
    finally:
        N.set_one_amplifier = orig


# F24 (Multiband_amplifier.to_json dropped in_voa of its band amplifiers) was repaired too (71cdcae5): the generated
# multiband stream with in_voa on band amplifiers stays as a regression without matcher.
FIX_CTX = {'F22': fix_f22, 'GMIV': fix_gm_in_voa}


# ------------------------------------------------------------------ driving the implementation
def set_simparams(sp):
    from gnpy.core.parameters import SimParams
    SimParams.set_params(copy.deepcopy(sp) if sp else {})


def simparams_vars():
    from gnpy.core.parameters import SimParams
    return {k: copy.deepcopy(vars(v)) for k, v in SimParams._shared_dict.items()}


def ops_of(net):
    """operational blocks of the loaded amplifiers (before design)"""
    from gnpy.core import elements as E
    out = {}
    for n in net.nodes():
        if isinstance(n, E.Edfa):
            o = n.operational
            out[n.uid] = {'var': n.params.type_variety or '', 'gain': c08.fnum(o.gain_target), 'dp': c08.fnum(o.delta_p),
                          'tilt': c08.fnum(o.tilt_target), 'voa': c08.fnum(o.out_voa), 'in_voa': c08.fnum(o.in_voa)}
    return out


def same_num(a, b):
    """saved value vs in-memory value: both None, or numerically identical (so -0.0 and 0.0 agree)"""
    if a is None or b is None:
        return a is None and b is None
    return float(a) == float(b)


def export_unfaithful(net, j):
    """every saved operational value of every amplifier (per band for a Multiband_amplifier) against the value the
    designed network holds in memory: gain_target to the 6 decimals of the export, tilt_target to 5 decimals for an
    Edfa and as it is for a band amplifier, delta_p / out_voa / in_voa as they are.  Returns a list of descriptions."""
    from gnpy.core import elements as E
    saved = {e['uid']: e for e in j['elements']}
    bad = []

    def chk(uid, what, sv, mem):
        if not same_num(sv, mem):
            bad.append(f'{uid} {what}: saved {sv} but designed {mem}')

    def gain6(g):
        return None if g is None else round(g, 6)
    for n in net.nodes():
        e = saved.get(n.uid)
        if isinstance(n, E.Edfa):
            op = e['operational']
            if e['type_variety'] != n.params.type_variety:
                bad.append(f'{n.uid} type_variety: saved {e["type_variety"]} but designed {n.params.type_variety}')
            chk(n.uid, 'gain_target', op['gain_target'], gain6(n.effective_gain))
            chk(n.uid, 'delta_p', op['delta_p'], n.delta_p)
            chk(n.uid, 'tilt_target', op['tilt_target'], None if n.tilt_target is None else round(n.tilt_target, 5))
            chk(n.uid, 'out_voa', op['out_voa'], n.out_voa)
            chk(n.uid, 'in_voa', op['in_voa'], n.in_voa)
        elif isinstance(n, E.Multiband_amplifier):
            amps = list(n.amplifiers.values())
            if len(e['amplifiers']) != len(amps):
                bad.append(f'{n.uid}: {len(e["amplifiers"])} band amplifiers saved, {len(amps)} designed')
                continue
            for k, (sa, a) in enumerate(zip(e['amplifiers'], amps)):
                op = sa['operational']
                u = f'{n.uid}[band {k}]'
                if sa['type_variety'] != a.params.type_variety:
                    bad.append(f'{u} type_variety: saved {sa["type_variety"]} but designed {a.params.type_variety}')
                chk(u, 'gain_target', op.get('gain_target'), gain6(a.effective_gain))
                chk(u, 'delta_p', op.get('delta_p'), a.delta_p)
                chk(u, 'tilt_target', op.get('tilt_target'), a.tilt_target)
                chk(u, 'out_voa', op.get('out_voa'), a.out_voa)
                # a missing key reloads as None -> 0: only a non-zero in-memory value is lost
                chk(u, 'in_voa', op.get('in_voa', 0) or 0, a.in_voa or 0)
    return bad


def fibre_values(net):
    """the parameters of every fibre as the network holds them (what propagation will use)"""
    from gnpy.core import elements as E
    out = {}
    for n in net.nodes():
        if isinstance(n, E.Fiber):
            p = n.params

            def num(x):
                try:
                    return float(x)
                except TypeError:
                    return [float(v) for v in x]
            out[n.uid] = {'type': type(n).__name__, 'length': float(p.length), 'loss_coef': num(p.loss_coef),
                          'att_in': c08.fnum(p.att_in), 'con_in': c08.fnum(p.con_in), 'con_out': c08.fnum(p.con_out),
                          'pmd_coef': float(p.pmd_coef), 'dispersion': num(p.dispersion), 'gamma': float(p.gamma),
                          'effective_area': float(p._effective_area),
                          'lumped': [[float(x['position']), float(x['loss'])] for x in p.lumped_losses]}
    return out


def reload_unfaithful(designed, loaded):
    """designed network vs the network loaded from its export, fibre by fibre: every parameter, exported or not,
    must come back (length / loss_coef to the 6 decimals of the export in km, dB/km; the rest exactly)"""
    bad = []
    for uid, d in designed.items():
        q = loaded.get(uid)
        if q is None:
            bad.append(f'{uid}: not in the reloaded network')
            continue
        for k, v in d.items():
            w = q[k]
            if k == 'length':
                ok = abs(v - w) <= 0.5e-3 + 1e-9
            elif k == 'loss_coef' and not isinstance(v, list):
                ok = abs(v - w) <= 0.5e-9 + 1e-15
            elif isinstance(v, float) and isinstance(w, float):
                ok = abs(v - w) <= 1e-12 * max(abs(v), abs(w), 1e-30)
            else:
                ok = v == w
            if not ok:
                bad.append(f'{uid} {k}: designed {v} but reloaded {w}')
    return bad


def roundtrip(case, fixes=(), rounds=None, want_obs=False, propagate_pair=None):
    """design, then `rounds` times export / reload / redesign, with the given counterfactual fixes patched in.
    Returns dict(json=[j1, j2, ...], obs=[...], exc=...)"""
    from gnpy.tools.json_io import network_from_json, network_to_json
    from gnpy.tools.worker_utils import designed_network
    from gnpy.core import elements as E
    rounds = case.get('rounds', 1) if rounds is None else rounds
    if case.get('equipment') == 'multiband':
        eq1 = eq2 = multiband_equipment()
    else:
        span = dict(case['span'])
        eq1 = build_equipment(span, case.get('si'), case.get('auto_voa', False))
        span2 = dict(span)
        if 'F7' in fixes:
            span2['EOL'] = 0
        eq2 = build_equipment(span2, case.get('si'), case.get('auto_voa', False))
    res = {'json': [], 'obs': [], 'snr': [], 'unfaithful': []}
    with contextlib.ExitStack() as st:
        for f in fixes:
            if f in FIX_CTX:
                st.enter_context(FIX_CTX[f]())
        cur = c08.topology_json(case) if 'topology' not in case else copy.deepcopy(case['topology'])
        for k in range(rounds + 1):
            eq = eq1 if k == 0 else eq2
            try:
                net = network_from_json(copy.deepcopy(cur), eq)
                if k > 0:
                    res['unfaithful'] += [f'round {k - 1}: {x}' for x in reload_unfaithful(designed_fibres, fibre_values(net))]
                ob = {}
                if want_obs:
                    ob['before'], ob['problems'] = c08.extract_lines(net)
                    ob['ops'] = ops_of(net)
                kw = {}
                if propagate_pair:
                    kw = {'source': propagate_pair[0], 'destination': propagate_pair[1]}
                with c08.RefEstimates() as refest:
                    net, req, ref = designed_network(eq, net, **kw)
                ob['ref_gain'] = dict(refest.pad)
                ob['ref_gain_walk'] = dict(refest.walk)
                if want_obs:
                    ob['after'], _ = c08.extract_lines(net)
                    ob['rgain'] = {n.uid: float(getattr(n, 'estimated_gain', 0.0)) for n in net.nodes()
                                   if isinstance(n, E.RamanFiber)}
                    ob['targets'] = {}
                    for n in net.nodes():
                        if isinstance(n, E.Roadm):
                            for s in net.successors(n):
                                if not isinstance(s, E.Transceiver):
                                    ob['targets'][(n.uid, s.uid)] = float(n.get_per_degree_ref_power(degree=s.uid))
                cur = network_to_json(net)      # export first: propagation may clamp effective_gain (finding F6)
                designed_fibres = fibre_values(net)
                res['unfaithful'] += [f'round {k}: {x}' for x in export_unfaithful(net, cur)]
                if propagate_pair:
                    from gnpy.topology.request import compute_constrained_path, propagate
                    path = compute_constrained_path(net, req)
                    if path:
                        propagate(path, req, eq)
                        res['snr'].append([float(x) for x in path[-1].snr_01nm])
                    else:
                        res['snr'].append(None)
            except Exception as e:      # every exception is an observation
                res['exc'] = f'round {k}: {type(e).__name__}: {e}'
                res['exc_type'] = type(e).__name__
                res['exc_round'] = k
                return res
            res['json'].append(cur)
            res['obs'].append(ob)
        # the last export is reloaded too (fibre parameters as the reload assumes them)
        try:
            res['unfaithful'] += [f'round {rounds}: {x}' for x in
                                  reload_unfaithful(designed_fibres, fibre_values(network_from_json(copy.deepcopy(cur), eq2)))]
        except Exception as e:
            res['exc'] = f'round {rounds + 1}: {type(e).__name__}: {e}'
            res['exc_type'] = type(e).__name__
            res['exc_round'] = rounds + 1
    return res


# ------------------------------------------------------------------ comparing exports
TOL_FIELDS = ('gain_target', 'att_in')


def diff_json(a, b, path='', out=None, gain_tol=1e-5):
    out = [] if out is None else out
    if isinstance(a, dict) and isinstance(b, dict):
        for k in sorted(set(a) | set(b)):
            if k not in a or k not in b:
                out.append((path + '/' + k, a.get(k, '<missing>'), b.get(k, '<missing>')))
            else:
                diff_json(a[k], b[k], path + '/' + k, out, gain_tol)
    elif isinstance(a, list) and isinstance(b, list):
        if len(a) != len(b):
            out.append((path + '#len', len(a), len(b)))
        for i, (x, y) in enumerate(zip(a, b)):
            diff_json(x, y, f'{path}[{i}]', out, gain_tol)
    elif isinstance(a, (int, float)) and isinstance(b, (int, float)) and not isinstance(a, bool) and not isinstance(b, bool):
        leaf = path.rsplit('/', 1)[-1]
        tol = gain_tol if leaf == 'gain_target' else 1e-5 if leaf in TOL_FIELDS else 1e-9 * max(1.0, abs(a), abs(b))
        if abs(a - b) > tol:
            out.append((path, a, b))
    elif a != b:
        out.append((path, a, b))
    return out


def amp_depths(j):
    """position of every Edfa on its OMS (number of Edfas between it and the ROADM / transceiver upstream)"""
    typ = {e['uid']: e['type'] for e in j['elements']}
    pred = {}
    for c in j['connections']:
        pred.setdefault(c['to_node'], []).append(c['from_node'])
    depth = {}
    for u, t in typ.items():
        if t != 'Edfa':
            continue
        k, cur, seen = 0, u, set()
        while True:
            ps = pred.get(cur, [])
            if len(ps) != 1 or ps[0] in seen:
                break
            cur = ps[0]
            seen.add(cur)
            if typ.get(cur) in ('Roadm', 'Transceiver'):
                break
            if typ.get(cur) in ('Edfa', 'Multiband_amplifier'):
                k += 1
        depth[u] = k
    return depth


def compare_exports(ja, jb, gain_mode=False):
    """list of (uid, field path, value a, value b); connections compared as sets"""
    ea = {e['uid']: e for e in ja['elements']}
    eb = {e['uid']: e for e in jb['elements']}
    out = []
    for u in sorted(set(ea) ^ set(eb)):
        out.append((u, '<element>', u in ea, u in eb))
    # gain_target: 1e-5 in power mode (the gain is recomputed from exact inputs); in gain mode the proved bound of
    # Props/C17.v C17_gain_mode_export: (k + 4) half-units of the 6th decimal for the k-th amplifier of its OMS
    depth = amp_depths(ja) if gain_mode else {}
    for u in ea:
        if u in eb:
            tol = (depth.get(u, 0) + 4) * 0.5e-6 + 1e-9 if gain_mode and ea[u].get('type') == 'Edfa' else 1e-5
            for (p, x, y) in diff_json(ea[u], eb[u], gain_tol=tol):
                out.append((u, p, x, y))
    ca = sorted((c['from_node'], c['to_node']) for c in ja['connections'])
    cb = sorted((c['from_node'], c['to_node']) for c in jb['connections'])
    if ca != cb:
        out.append(('<connections>', '', len(ca), len(cb)))
    if len(set(ea)) != len(ja['elements']):
        out.append(('<duplicate uid>', '', '', ''))
    return out


def drift_of(res, gain_mode=False):
    """differences between consecutive exports of a roundtrip result"""
    d = []
    js = res['json']
    for k in range(len(js) - 1):
        for item in compare_exports(js[k], js[k + 1], gain_mode):
            d.append((k + 1,) + item)
    for k in range(len(res.get('snr', [])) - 1):
        a, b = res['snr'][k], res['snr'][k + 1]
        if (a is None) != (b is None) or (a is not None and (len(a) != len(b) or max(abs(x - y) for x, y in zip(a, b)) > 1e-3)):
            d.append((k + 1, '<propagation>', 'snr_01nm', None if a is None else min(a), None if b is None else min(b)))
    return d


def attribute(case, pair):
    """minimal set of counterfactual fixes under which the drift disappears (None if none does)"""
    import itertools
    cands = ['F7'] if case['span'].get('EOL') else []
    if any(e['k'] == 'R' for ln in case.get('lines', []) for e in ln['els']):
        cands.append('F22')
    if not case['span'].get('power_mode', True) and any(e.get('op', {}).get('in_voa') for ln in case.get('lines', []) for e in ln['els']
                                                        if e['k'] == 'A'):
        cands.append('GMIV')
    for size in (1, 2):
        for sub in itertools.combinations(cands, size):
            r = roundtrip(case, fixes=sub, propagate_pair=pair)
            if 'exc' not in r and not drift_of(r, not case['span'].get('power_mode', True)):
                return list(sub)
    return None


# ------------------------------------------------------------------ model side
def qdec(x):
    """configuration constants enter the model with their decimal value (0.3 is 3/10, not the nearest double)"""
    return qlit(Fraction(repr(float(x)))) if not isinstance(x, int) else qlit(x)


def amp_s(e):
    return (e['uid'], e['variety'], e['gain'], e['dp'], e['tilt'], e['voa'], e['in_voa'])


def line_amp_term(case, ob, ln, cfg):
    sp = case['span']
    si = case.get('si') or {}
    pref = si.get('power_dbm', 0)
    dpr = sp['delta_power_range_db']
    s = (f'sc {"true" if sp["power_mode"] else "false"} {qdec(dpr[0])} {qdec(dpr[1])} {qdec(dpr[2])} {qdec(0.3)} {qdec(20.0)} '
         f'{qdec(sp.get("voa_margin", 1))} {qdec(sp.get("voa_step", 0.5))} {qdec(2.5)}')
    after = next(a for a in ob['after'] if a['src'] == ln['src'] and a['dst'] == ln['dst'] and same_line(ln, a))
    if pad_tie(case, ln, after):
        return 'tie', None
    amps = [e for e in after['els'] if e['k'] == 'A']
    eq = build_equipment(sp, case.get('si'), case.get('auto_voa', False))
    lib = []
    for v in sorted({a['variety'] for a in amps}):
        if v in eq['Edfa']:
            p = eq['Edfa'][v]
            lib.append(f'({strlit(v)}%string, lb {qlit(p.p_max)} {qlit(p.gain_flatmax)} {"true" if p.out_voa_auto else "false"})')
    sel = [f'({strlit(a["uid"])}%string, {strlit(a["variety"])}%string)' for a in amps]
    rg = [f'({strlit(u)}%string, {qlit(g)})' for u, g in ob['rgain'].items()
          if any(e['uid'] == u for e in ln['els'])]
    ops = []
    for e in ln['els']:
        if e['k'] == 'A' and e['uid'] in ob['ops']:
            o = ob['ops'][e['uid']]
            ops.append(f'op {strlit(e["uid"])} {strlit(o["var"])} {oq(o["gain"])} {oq(o["dp"])} {oq(o["tilt"])} {oq(o["voa"])} {oq(o["in_voa"])}')
    if ln['src_kind'] == 'R':
        tgt = ob['targets'].get((ln['src'], after['els'][0]['uid'] if after['els'] else ln['dst']))
        if tgt is None:
            return None, None
        d0 = tgt - pref
    else:
        tx = si.get('tx_power_dbm', 0)
        d0 = (tx if tx is not None else pref) - pref
    nch = int((si.get('f_max', 195.1e12) - si.get('f_min', 191.3e12)) // 50e9)
    ptot = pref + 10 * math.log10(nch)
    order_flag = True
    rg1 = sorted(ob.get('ref_gain', {}).items())
    rgn = [f'({strlit(u)}%string, {qlit(g)})' for u, g in sorted(ob.get('ref_gain_walk', {}).items())]
    term = (f'run_amps ({c08.cfg_term(cfg, rg1)}) ({s}) {listlit(lib)} {listlit(sel)} {listlit(rg)} {listlit(rgn)} {listlit(ops)} '
            f'{qlit(d0)} {qlit(ptot)} ({c08.line_term(ln, order_flag)})')
    return term, amps


def same_line(b, a):
    keep = {e['uid'] for e in b['els']}
    au = {e['uid'] for e in a['els']}
    return bool(keep & au) or any((c08.split_base(u) or ('',))[0] in keep for u in au) or (not keep and len(a['els']) <= 1)


def parse_amps(s):
    """model output 'd1|d2#e1|e2' -> (designed list, exported list) of tuples, or ('E', type)"""
    if s.startswith('E:'):
        return ('E', s[2:].split(':')[0]), None
    d, e = s.split('#')

    def rows(t):
        out = []
        for part in (t.split('|') if t else []):
            f = part.split('~')
            out.append((f[0], f[1]) + tuple(c08.parse_q(x) for x in f[2:]))
        return out
    return rows(d), rows(e)


def cmp_amps(model, impl, tol=1e-7):
    """model rows vs implementation amplifiers (uid, variety, gain, dp, tilt, voa, in_voa)"""
    if len(model) != len(impl):
        return f'{len(model)} amplifiers (model) vs {len(impl)}'
    for m, i in zip(model, impl):
        if m[0] != i[0] or m[1] != i[1]:
            return f'{m[:2]} vs {i[:2]}'
        for name, a, b in zip(('gain', 'delta_p', 'tilt', 'out_voa', 'in_voa'), m[2:], i[2:]):
            if a is None or b is None:
                if not (a is None and b is None):
                    return f'{m[0]} {name}: model {a} impl {b}'
            elif abs(float(a) - b) > tol * max(1.0, abs(b)):
                return f'{m[0]} {name}: model {float(a)} impl {b}'
    return None


def pad_tie(case, ln_before, ln_after):
    """tie rule: a span whose loss BEFORE padding lies within 1e-9 of Span.padding without being equal (typically a
    span padded by the previous round) is decided by float rounding; the line is not judged then"""
    pad = case['span']['padding']
    att0 = {}
    for e in ln_before['els']:
        if e['k'] in 'FR':
            att0[e['uid']] = e['att_in']
    run = []
    runs = []
    for e in ln_after['els']:
        if e['k'] == 'A':
            if run:
                runs.append(run)
            run = []
        else:
            run.append(e)
    if run:
        runs.append(run)
    for r in runs:
        loss = Fraction(0)
        for e in r:
            if e['k'] == 'U':
                loss += Fraction(e['loss'])
            else:
                base = e['uid'] if e['uid'] in att0 else (c08.split_base(e['uid']) or (None,))[0]
                loss += Fraction(e['len']) * Fraction(e['lc']) + Fraction(e['con_in'] or 0) + Fraction(e['con_out'] or 0) \
                    + Fraction(att0.get(base, 0.0)) + sum(Fraction(l) for _, l in e['lumped'])
        if loss != Fraction(pad) and abs(loss - Fraction(pad)) < Fraction(1, 10 ** 9):
            return True
    return False


def rounding_tie(x, n):
    """x * 10^n within 1e-4 of a half-integer: the exported rounding is decided by float noise"""
    if x is None:
        return False
    y = abs(float(x)) * 10 ** n
    return abs((y % 1.0) - 0.5) < 1e-4


def sim_kw(d):
    def v(x):
        if x is None:
            return 'JNone'
        if isinstance(x, bool):
            return f'JB {"true" if x else "false"}'
        if isinstance(x, str):
            return f'JS {strlit(x)}'
        if isinstance(x, int):
            return f'JZ {zlit(x)}'
        if isinstance(x, float):
            return f'JQ {qlit(x)}'
        if isinstance(x, list):
            return f'JZL {listlit([zlit(i) for i in x])}'
        raise ValueError(x)
    return listlit([f'({strlit(k)}, {v(x)})' for k, x in d.items()])


def sim_render(nli, raman):
    def v(x):
        if x is None:
            return 'N'
        if isinstance(x, bool):
            return 'T' if x else 'F'
        if isinstance(x, str):
            return x
        if isinstance(x, int):
            return str(x)
        if isinstance(x, float):
            fr = Fraction(x)
            return f'{fr.numerator}/{fr.denominator}'
        if isinstance(x, list):
            return '[' + ','.join(str(i) for i in x) + ']'
        raise ValueError(x)
    return ','.join(f'{k}={v(x)}' for k, x in nli.items()) + ';' + ','.join(f'{k}={v(x)}' for k, x in raman.items())


def simparams_trace(sp):
    """SimParams as the Raman solver sees them inside estimate_raman_gain, and afterwards (implementation)"""
    import gnpy.core.network as N
    from gnpy.core.parameters import SimParams
    from gnpy.core import elements as E
    from pathlib import Path
    seen = {}
    orig = N.RamanSolver.calculate_stimulated_raman_scattering

    def wrapped(si, fiber):
        seen['during'] = (SimParams._shared_dict['nli_params'].to_json(), SimParams._shared_dict['raman_params'].to_json())
        return orig(si, fiber)
    set_simparams(sp)
    start = (SimParams._shared_dict['nli_params'].to_json(), SimParams._shared_dict['raman_params'].to_json())
    eq = build_equipment({})
    fiber = E.RamanFiber(uid='r', type_variety='SSMF', params=dict(
        {'length': 80, 'length_units': 'km', 'loss_coef': 0.2, 'con_in': 0.5, 'con_out': 0.5, 'att_in': 0},
        **{k: v for k, v in eq['RamanFiber']['SSMF'].__dict__.items()}),
        operational={'temperature': 283, 'raman_pumps': [{'power': 0.2, 'frequency': 205e12, 'propagation_direction': 'counterprop'}]})
    N.RamanSolver.calculate_stimulated_raman_scattering = staticmethod(wrapped)
    try:
        N.estimate_raman_gain(fiber, eq, 0.0)
    finally:
        N.RamanSolver.calculate_stimulated_raman_scattering = orig
    after = (SimParams._shared_dict['nli_params'].to_json(), SimParams._shared_dict['raman_params'].to_json())
    set_simparams(None)
    return start, seen.get('during'), after


# ------------------------------------------------------------------ known findings
def mk_matcher(cause):
    def m(v):
        d = v.get('detail', {})
        return v['key'] == 'redesign_drift' and d.get('cause') == cause and d.get('vanishes_with_fix') is True
    return m


MATCHERS = {
    'F7-eol-readded': mk_matcher('F7'),
    'F22-raman-estimate-ignores-out-voa': mk_matcher('F22'),
    'F-gain-mode-in-voa': mk_matcher('GMIV'),
}


def strip(case):
    return {k: v for k, v in case.items() if not k.startswith('_')}


def multiband_case():
    from gnpy.tools.json_io import load_json
    from pathlib import Path
    return {'kind': 'multiband', 'multiband': True}


# ------------------------------------------------------------------ run
def run(ctx):
    logging.disable(logging.CRITICAL)
    rng = ctx.rng
    # second tie: re-translate the decision-carrying code of /repo (harness/pygen_c17.py); the equivalence lemmas of
    # Proofs/RedesignGen.v are then re-checked by check_props against what the code says now
    from . import pygen_c17
    gen_ok, gen_msg = pygen_c17.regenerate()
    ctx.proof = common.check_props(PROP)
    if not gen_ok:
        ctx.proof['ok'] = False
        ctx.proof['log'] = 'harness/pygen_c17.py: ' + gen_msg + '\n' + ctx.proof.get('log', '')
        ctx.proof['failed_file'] = 'theories/Gen/RedesignGen.v (translation of /repo source failed)'
    ctx.rule = ('random topologies / Span configurations of C08 plus VOA margin / step, automatic output VOA, gain mode, '
                'Raman spans behind operator-set amplifiers, SI power offsets, non-default SimParams; 1-3 export / reload / '
                'redesign rounds compared export by export, design twice, SimParams vars() before / after; amplifier '
                'settings of every line recomputed by the model for round 1 and round 2; a case is non-trivial when it '
                'has a user amplifier with partial settings or an automatic VOA or a padded span; distinct by content hash')
    cases = []
    for f in sorted(glob.glob(os.path.join(common.VERIF, 'corpus', PROP, '*.json'))):
        c = json.load(open(f))
        c['_corpus'] = os.path.basename(f)
        cases.append(c)
    if ctx.replay:
        cases = [json.load(open(ctx.replay))['case']]
    else:
        nvalid = int(os.environ.get('VERIF_C17_N', ctx.scale(45, 800)))
        cases += [gen_case(rng) for _ in range(nvalid)]
        # the Raman flag makes design estimate SRS tilts (slow): one such case in the quick tier, half of them in thorough
        cases += [gen_multiband_case(rng, raman=(k == 0) if not ctx.thorough else None) for k in range(ctx.scale(3, 30))]
        for kind, n in (('eol', ctx.scale(3, 40)), ('lumped', ctx.scale(3, 40)), ('att_in', ctx.scale(3, 40)),
                        ('voa_margin', ctx.scale(4, 60)), ('raman', ctx.scale(3, 40)), ('zero_gain', ctx.scale(3, 40)), ('gain_in_voa', ctx.scale(4, 40))):
            cases += [gen_case(rng, kind) for _ in range(n)]
    terms, meta, replay_sims = [], [], []
    import time
    t0 = t_prev = time.time()
    for case in cases:
        sc = strip(case)
        tc = time.time()
        if os.environ.get('VERIF_DEBUG') and meta:
            print('case', case.get('kind'), case.get('_corpus'), 'prev took', round(tc - t_prev, 1), flush=True)
        t_prev = tc
        ctx.count('kind_' + case.get('kind', 'valid'))
        if case.get('kind') == 'multiband':               # generated (or replayed) multiband line system
            run_multiband_case(ctx, case)
            continue
        if case.get('kind') == 'multiband_example':       # replay of a multiband finding
            run_multiband(ctx, bool(case.get('sim_params')))
            continue
        if 'lines' not in case:                            # replay of a SimParams-only record
            replay_sims.append(case.get('simparams'))
            continue
        # ---- SimParams in force
        set_simparams(case.get('simparams'))
        v_before = simparams_vars()
        names = sorted(case['roadms'])
        pair = None
        total_km = sum(e['len'] for ln in case['lines'] for e in ln['els'] if e['k'] in 'FR')
        slow_nli = bool(case.get('simparams')) and case['simparams'].get('nli_params', {}).get('method', '').lower().startswith('ggn')
        if rng.random() < 0.2 and len(names) >= 2 and total_km < 1500 and not slow_nli:     # GGN propagation takes minutes
            a, b = rng.sample(names, 2)
            pair = ('trx ' + a.split(' ', 1)[1], 'trx ' + b.split(' ', 1)[1])
        res = roundtrip(case, want_obs=True, propagate_pair=pair)
        v_after = simparams_vars()
        if v_before != v_after:
            ctx.violation('simparams_changed', f'SimParams before {v_before} after design {v_after}', sc)
        from gnpy.core.parameters import SimParams
        for k, p in SimParams._shared_dict.items():
            if set(vars(p)) != set(p.to_json()):
                ctx.violation('simparams_to_json_keys', f'{k}: attributes {sorted(vars(p))} vs to_json {sorted(p.to_json())}', sc)
        set_simparams(None)
        if 'exc' in res:
            ctx.count('exception_' + res['exc_type'])
            ctx.case(sc, False)
            if res['exc_round'] > 0:
                ctx.violation('redesign_raises', f'the exported design cannot be reloaded / redesigned: {res["exc"][:200]}', sc,
                              detail={'exc_type': res['exc_type'], 'raman_gain_mode': (not case['span']['power_mode']) and any(
                                  e['k'] == 'R' for ln in case['lines'] for e in ln['els'])})
            continue
        for x in res.get('unfaithful', [])[:1]:
            ctx.violation('export_unfaithful', f'{len(res["unfaithful"])} saved values differ from the designed network: {x}', sc)
        # ---- design twice
        if not pair and rng.random() < 0.4:
            ctx.count('designed_twice')
            twice = roundtrip(case, rounds=0)
            if 'exc' in twice or json.dumps(twice['json'][0], sort_keys=True) != json.dumps(res['json'][0], sort_keys=True):
                ctx.violation('design_twice_differs', 'two designs of the same input give different exports', sc)
        # ---- redesign drift
        d = drift_of(res, not case['span']['power_mode'])
        amps_total = sum(1 for e in res['json'][0]['elements'] if e['type'] == 'Edfa')
        ob0 = res['obs'][0]
        nontrivial = any(o['gain'] is not None or o['voa'] is not None or o['dp'] is not None for o in ob0['ops'].values()) \
            or case.get('auto_voa') or any(e['k'] in 'FR' and e['att_in'] for ln in ob0['after'] for e in ln['els'])
        ctx.case(sc, bool(nontrivial))
        ctx.count('rounds', len(res['json']) - 1)
        ctx.count('amplifiers', amps_total)
        ctx.count('propagated_pairs', 1 if pair else 0)
        if d:
            ctx.count('cases_with_drift')
            only_prop = all(u == '<propagation>' for _, u, _, _, _ in d)
            causes = attribute(case, pair if only_prop else None)
            k, u, p, x, y = d[0]
            desc = f'round {k}->{k + 1}: {len(d)} differences, first {u}{p}: {x} -> {y}'
            if causes is None:
                ctx.violation('redesign_drift', desc + ' (not explained by any recorded finding)', sc,
                              detail={'cause': None, 'vanishes_with_fix': False, 'fields': sorted({q for _, _, q, _, _ in d})[:8]})
            else:
                for cz in causes:
                    ctx.violation('redesign_drift', desc + f' (vanishes with the proposed fix of {"+".join(causes)})', sc,
                                  detail={'cause': cz, 'causes': causes, 'vanishes_with_fix': True,
                                          'fields': sorted({q for _, _, q, _, _ in d})[:8]})
        # ---- correspondence: amplifier settings, rounds 1 and 2
        cfg = c08.cfg_of(case['span'])
        if c08.near_threshold(case, ob0['before']):
            ctx.count('skipped_threshold_tie')
            continue
        for k, ob in enumerate(res['obs'][:2]):
            if ob.get('problems'):
                continue
            if any(e['lc'] is None for ln in ob['before'] for e in ln['els'] if e['k'] in 'FR'):
                continue
            cfgk = dict(cfg)
            for ln in ob['before']:
                if not any(e['k'] == 'A' for a in ob['after'] if a['src'] == ln['src'] and a['dst'] == ln['dst'] for e in a['els']):
                    continue
                try:
                    term, amps = line_amp_term(case, ob, ln, cfgk)
                except StopIteration:
                    continue
                if term == 'tie':
                    ctx.count('skipped_padding_tie_lines')
                    continue
                if term is None:
                    continue
                exported = {e['uid']: e for e in res['json'][k]['elements'] if e['type'] == 'Edfa'}
                terms.append(term)
                ctx.count('amp_lines_to_model_round%d' % (k + 1))
                meta.append((sc, k, ln, [amp_s(a) for a in amps], exported))
    ctx.extra['t_drive'] = round(time.time() - t0, 1)
    t0 = time.time()
    out = common.coq_eval(PROP, 'Prelude Model.Chain Model.Redesign Run.C08 Run.C17', terms, per_file=20, tag='amps', prelude=QPRE)
    ctx.extra['t_model'] = round(time.time() - t0, 1)
    t0 = time.time()
    for (sc, k, ln, amps, exported), line in zip(meta, out):
        if line == 'TIE':
            ctx.count('skipped_rounding_tie_lines')
            continue
        dm, em = parse_amps(line)
        if isinstance(dm, tuple):
            ctx.corr_break('corr:Redesign.design_line_amps', f'round {k + 1} line {ln["src"]}->{ln["dst"]}: model raises {dm[1]}', sc,
                           impl='designed', model=dm[1])
            continue
        diff = cmp_amps(dm, amps)
        if diff:
            ctx.corr_break('corr:Redesign.design_line_amps', f'round {k + 1} line {ln["src"]}->{ln["dst"]}: {diff}', sc,
                           impl=[list(a) for a in amps], model=line[:400])
            continue
        ex_impl = []
        for a in amps:
            j = exported.get(a[0])
            o = j['operational']
            ex_impl.append((a[0], j['type_variety'], o['gain_target'], o['delta_p'], o['tilt_target'], o['out_voa'], o['in_voa']))
        ties = {a[0] for a in amps if rounding_tie(a[2], 6) or rounding_tie(a[4], 5)}
        if ties:
            ctx.count('skipped_rounding_tie_amps', len(ties))
            keep = [i for i, a in enumerate(amps) if a[0] not in ties]
            em = [em[i] for i in keep]
            ex_impl = [ex_impl[i] for i in keep]
        diff = cmp_amps(em, ex_impl, tol=1e-12)
        if diff:
            ctx.corr_break('corr:Redesign.export_amp', f'round {k + 1} line {ln["src"]}->{ln["dst"]}: {diff}', sc,
                           impl=[list(a) for a in ex_impl], model=line[:400])
    # ---- multiband example (node-level design bands, Multiband_amplifier.to_json); Raman flag on in the thorough tier
    if not ctx.replay:
        run_multiband(ctx, False)
        if ctx.thorough or os.environ.get('VERIF_C17_MB_RAMAN'):
            run_multiband(ctx, True)
    # ---- SimParams walk: model vs implementation
    sims = replay_sims if ctx.replay else [None] + [gen_simparams(rng) for _ in range(ctx.scale(5, 40))]
    sterms, smeta = [], []
    for sp in sims:
        start, during, after = simparams_trace(sp)
        ctx.count('simparams_walks')
        if after != start:
            ctx.violation('simparams_not_restored', f'estimate_raman_gain: {start} -> {after}', {'simparams': sp})
        nli = 'None' if not sp or 'nli_params' not in sp else f'(Some {sim_kw(sp["nli_params"])})'
        ram = 'None' if not sp or 'raman_params' not in sp else f'(Some {sim_kw(sp["raman_params"])})'
        sterms.append(f'run_simparams {nli} {ram}')
        smeta.append((sp, '#'.join(sim_render(*x) for x in (start, during, after))))
    sout = common.coq_eval(PROP, 'Prelude Model.Chain Model.Redesign Run.C08 Run.C17', sterms, per_file=50, tag='sim',
                           prelude=QPRE + '\nOpen Scope string_scope.')
    def sim_canon(t):
        out = []
        for part in t.replace('#', ';').split(';'):
            for kv in part.split(','):
                k, _, v = kv.partition('=')
                if '/' in v and not v.startswith('['):
                    a, b = v.split('/')
                    v = repr(round(int(a) / int(b), 12))
                out.append((k, v))
        return out
    for (sp, impl), model in zip(smeta, sout):
        if sim_canon(impl) != sim_canon(model):
            ctx.corr_break('corr:Redesign.estimate_raman_gain_params', 'SimParams start#during#after differ', {'simparams': sp},
                           impl=impl, model=model)
    ctx.extra['t_simparams'] = round(time.time() - t0, 1)
    ctx.assumptions += [
        'translator tie: harness/pygen_c17.py (fail-closed Python-ast -> Gallina, on harness/pygen.py; translated: Edfa.to_json (five operational values), Fiber.to_json (length, loss_coef, lumped-loss test), Roadm.to_json (design-band test), FiberParams property list, RamanParams / NLIParams defaults and to_json keys, sim_params of estimate_raman_gain; templates only for Multiband_amplifier / RamanFiber / Fused.to_json, Parameters.asdict, FiberParams.asdict, pmd_coef_defined, SimParams.set_params and the statement order of estimate_raman_gain (save, set, restore, cache only with a span power))',
        'span contexts (loss of the previous / next span) are computed by the model from the observed chain; the ROADM '
        'egress target, the selected amplifier variety (C10) and the estimated Raman gain are taken from the implementation',
        'multiband amplifiers and per-degree design bands are covered by the oracle only',
        'propagation is compared for one ROADM pair on a quarter of the cases',
    ]
    return common.finish(ctx, MATCHERS)


def multiband_equipment():
    from pathlib import Path
    from gnpy.tools.json_io import load_equipments_and_configs
    if 'mb' not in _EQ:
        _EQ['mb'] = load_equipments_and_configs(Path(c08.example_dir()) / 'eqpt_config_multiband.json', [], [])
    return _EQ['mb']


def gen_multiband_case(rng, raman=None):
    """a small C+L line system: ROADMs in a row, every span between Multiband_amplifier sites with per-band operator
    settings (gain, delta_p, VOAs, zero / negative / absent tilt_target); Raman flag of the SimParams on or off"""
    n = rng.choice([2, 2, 2, 3])
    names = [chr(65 + i) for i in range(n)]
    cband = {'f_min': 191.3e12, 'f_max': 195.1e12, 'spacing': 50e9}
    lband = {'f_min': 186.3e12, 'f_max': 190.1e12, 'spacing': 50e9}
    els, cx = [], []
    for x in names:
        els.append({'uid': f'trx {x}', 'type': 'Transceiver'})
        els.append({'uid': f'roadm {x}', 'type': 'Roadm', 'params': {
            'target_pch_out_db': -20, 'restrictions': {'preamp_variety_list': [], 'booster_variety_list': []},
            'design_bands': rng.choice([[cband], [cband, lband], [cband, lband]])}})
        cx += [(f'trx {x}', f'roadm {x}'), (f'roadm {x}', f'trx {x}')]

    def band_amp(variety):
        op = {'gain_target': rng.choice([22.55, 21, 18.5, 20]), 'delta_p': rng.choice([0.9, 3.0, 0, 1.5]),
              'out_voa': rng.choice([3.0, 0, 1.0]), 'tilt_target': rng.choice([0.0, -0.5, -1.25, -2.0, None])}
        if rng.random() < 0.12:
            op['in_voa'] = rng.choice([0, 0.5, 1.0])
        return {'type_variety': variety, 'operational': op}

    def mamp(uid):
        return {'uid': uid, 'type': 'Multiband_amplifier', 'type_variety': 'std_medium_gain_multiband',
                'amplifiers': [band_amp('std_medium_gain_C'), band_amp('std_medium_gain_L')]}
    for a, b in zip(names, names[1:]):
        for s, t in ((a, b), (b, a)):
            chain = [mamp(f'booster {s}{t}')]
            for k in range(rng.choice([1, 1, 1, 2])):
                chain.append({'uid': f'fiber {s}{t}_{k}', 'type': 'Fiber', 'type_variety': 'SSMF',
                              'params': {'length': round(rng.uniform(40, 100), 3), 'length_units': 'km', 'loss_coef': 0.2,
                                         'att_in': 0, 'con_in': None, 'con_out': None}})
                chain.append(mamp(f'amp {s}{t}_{k}'))
            prev = f'roadm {s}'
            for e in chain:
                els.append(e)
                cx.append((prev, e['uid']))
                prev = e['uid']
            cx.append((prev, f'roadm {t}'))
    for e in els:
        e['metadata'] = {'location': {'latitude': 0, 'longitude': 0, 'city': None, 'region': ''}}
    return {'kind': 'multiband', 'equipment': 'multiband', 'raman_flag': (rng.random() < 0.5) if raman is None else raman, 'rounds': 1,
            'topology': {'elements': els, 'connections': [{'from_node': a, 'to_node': b} for a, b in cx]}}


def run_multiband_case(ctx, case):
    """design / save / reload / redesign of a generated multiband line system"""
    from pathlib import Path
    from gnpy.tools.json_io import load_json
    from gnpy.core.parameters import SimParams
    sp = load_json(Path(c08.example_dir()) / 'sim_params.json') if case.get('raman_flag') else None
    set_simparams(sp)
    before = simparams_vars()
    try:
        res = roundtrip(case)
        after = simparams_vars()
    finally:
        set_simparams(None)
    ctx.count('multiband_generated_raman_on' if case.get('raman_flag') else 'multiband_generated')
    sc = strip(case)
    if before != after:
        ctx.violation('simparams_changed', f'SimParams before {before} after design {after}', sc)
    if 'exc' in res:
        ctx.count('multiband_exception_' + res['exc_type'])
        ctx.case(sc, False)
        if res['exc_round'] > 0:
            ctx.violation('redesign_raises', f'the exported design cannot be reloaded / redesigned: {res["exc"][:200]}', sc,
                          detail={'exc_type': res['exc_type']})
        return
    ctx.case(sc, True)
    d = drift_of(res)
    if not res['unfaithful'] and not d:
        return
    det = {'cause': None, 'vanishes_with_fix': False}
    for x in res['unfaithful'][:1]:
        ctx.violation('export_unfaithful', f'{len(res["unfaithful"])} saved values differ from the designed network: {x}', sc,
                      detail=det)
    if d:
        k, u, p, x, y = d[0]
        ctx.violation('redesign_drift', f'multiband round {k}->{k + 1}: {len(d)} differences, first {u}{p}: {x} -> {y}', sc,
                      detail=det)


def multiband_roundtrip(fixes, raman):
    """the shipped multiband example (C+L amplifiers, design bands at node level), designed / exported / redesigned"""
    from pathlib import Path
    from gnpy.tools.json_io import network_from_json, network_to_json, load_json, load_equipments_and_configs
    from gnpy.tools.worker_utils import designed_network
    from gnpy.core.parameters import SimParams
    d = Path(c08.example_dir())
    if 'mb' not in _EQ:
        _EQ['mb'] = load_equipments_and_configs(d / 'eqpt_config_multiband.json', [], [])
    eq = _EQ['mb']
    tj = load_json(d / 'multiband_example_network.json')
    SimParams.set_params(load_json(d / 'sim_params.json') if raman else {})
    before = simparams_vars()
    try:
        with contextlib.ExitStack() as st:
            for f in fixes:
                st.enter_context(FIX_CTX[f]())
            net = network_from_json(copy.deepcopy(tj), eq)
            designed_network(eq, net)
            j1 = network_to_json(net)
            net2 = network_from_json(copy.deepcopy(j1), eq)
            designed_network(eq, net2)
            j2 = network_to_json(net2)
        after = simparams_vars()
    finally:
        SimParams.set_params({})
    return compare_exports(j1, j2), before == after


def run_multiband(ctx, raman):
    case = {'kind': 'multiband_example', 'topology': 'gnpy/example-data/multiband_example_network.json',
            'equipment': 'eqpt_config_multiband.json', 'sim_params': 'sim_params.json' if raman else None}
    d, same = multiband_roundtrip((), raman)
    ctx.count('multiband_example_raman' if raman else 'multiband_example')
    ctx.case(case, True)
    if not same:
        ctx.violation('simparams_changed', 'SimParams differ after designing the multiband example', case)
    if d:
        u, p, x, y = d[0]
        desc = f'multiband example: {len(d)} differences between export and re-export, first {u}{p}: {x} -> {y}'
        ctx.violation('redesign_drift', desc, case, detail={'cause': None, 'vanishes_with_fix': False})
