"""C20 — spreadsheet inputs convert to the network and services they describe.

Tie.  Random workbooks (Nodes / Links / Eqpt / Roadms / Service sheets) are written as real .xlsx files with openpyxl,
or served as in-memory xlrd look-alikes for the .xls branch (xlwt is not available), and converted by the real
`xls_to_json_data` / `convert_file` / `read_service_sheet`; the same parsed rows are converted by the Gallina model
`Verif.Model.Sheet.convert` / `read_service_sheet` (vm_compute) and the two results are compared element by element
(uids as byte strings, types, parameters, connections in order; which rule rejects a malformed workbook).
`Request_element` is additionally compared row by row on directly constructed `Request` objects, and the header
recognition (`parse_headers`: which column is read as which field) on disturbed sheets.

Oracle (the property evaluated on what gnpy produced, from the workbook description only): one ROADM + transceiver
per ROADM site, fused / amplifier pair per line site, one fibre per direction per link with the values of its side
(west defaulting to east), end points exist, uids unique, every line element has exactly one predecessor and one
successor, Eqpt settings sit on the amplifier facing the named neighbour, `network_from_json` + `designed_network`
succeed; every malformed workbook (exactly one of the ten sanity rules violated, or a mandatory header missing)
raises NetworkTopologyError naming that rule; every service row becomes
one request with converted units, route list, strictness and synchronisation vector.
The for-all part is Props/C20.v.
"""
import contextlib
import copy
import glob
import io
import json
import logging
import math
import os
import tempfile
import time
from fractions import Fraction
from pathlib import Path

from . import common
from .common import qlit, strlit, listlit

ARROW = '→'
AMPS = ['std_low_gain', 'std_medium_gain', 'std_high_gain', 'std_fixed_gain', 'high_power']
FIBERS = ['SSMF', 'NZDF', 'LOF']
SIDE_KEYS = ['distance', 'fiber', 'lineic', 'con_in', 'con_out', 'pmd', 'cable']
SIDE_HDR = {'distance': 'Distance (km)', 'fiber': 'Fiber type', 'lineic': 'lineic att', 'con_in': 'Con_in',
            'con_out': 'Con_out', 'pmd': 'PMD', 'cable': 'Cable id'}
AMP_KEYS = ['amp_type', 'att_in', 'amp_gain', 'amp_dp', 'tilt', 'att_out']
AMP_HDR = {'amp_type': 'amp type', 'att_in': 'att_in', 'amp_gain': 'amp gain', 'amp_dp': 'delta p', 'tilt': 'tilt',
           'att_out': 'att_out'}
NODE_KEYS = ['city', 'state', 'country', 'region', 'latitude', 'longitude', 'type', 'booster', 'preamp']
NODE_HDR = ['City', 'State', 'Country', 'Region', 'Latitude', 'Longitude', 'Type', 'Booster_restriction',
            'Preamp_restriction']
ROADM_HDR = ['Node A', 'Node Z', 'per degree target power (dBm)', 'type_variety', 'from degrees',
             'from degree to degree impairment id']
SVC_KEYS = ['id', 'src', 'dst', 'trx', 'mode', 'spacing', 'power', 'nbch', 'disj', 'path', 'loose', 'bw']
SVC_HDR = ['route id', 'Source', 'Destination', 'TRX type', 'Mode', 'System: spacing', 'System: input power (dBm)',
           'System: nb of channels', 'routing: disjoint from', 'routing: path', 'routing: is loose?', 'path bandwidth']
RULES = ['duplicate_city', 'link_unknown_node', 'self_loop_link', 'fused_degree', 'duplicate_link', 'unreferenced_node', 'eqpt_unknown_node',
         'eqpt_unknown_link', 'duplicate_eqpt', 'duplicate_ila']
MSG2RULE = [('connect a node to itself', 'self_loop_link'), ('FUSED nodes must have exactly two links', 'fused_degree'),
            ('per degree impairment id do not match', 'impairment_mismatch'), ('Duplicate city', 'duplicate_city'), ('The Links sheet references nodes', 'link_unknown_node'),
            ('are duplicate', 'duplicate_link'), ('not referenced from the Links sheet', 'unreferenced_node'),
            ('The Eqpt sheet refers to nodes', 'eqpt_unknown_node'),
            ('The Eqpt sheet references links', 'eqpt_unknown_link'),
            ('Duplicate lines in Eqpt sheet', 'duplicate_eqpt'), ('Duplicate ILA eqpt definition', 'duplicate_ila'),
            ('missing header', 'missing_header')]

_EQ = {}


def equipment():
    if 'eq' not in _EQ:
        import gnpy
        from gnpy.tools.json_io import load_equipment
        _EQ['eq'] = load_equipment(Path(gnpy.__file__).parent / 'example-data' / 'eqpt_config.json')
        _EQ['modes'] = [(k, [m['format'] for m in v.mode]) for k, v in _EQ['eq']['Transceiver'].items()]
    return _EQ['eq']


# ------------------------------------------------------------------ generators
NAME_POOL = ['Lannion_CAS', 'Corlay', 'Loudeac', 'Lorient_KMA', 'Vannes_KBE', 'Stbrieuc', 'Rennes_STA', 'Brest_KLA',
             'Morlaix', 'Quimper', 'Ploermel', 'a', 'b', 'c', 'node1', 'node2', 'siteE', 'siteF', 'Site#3', 'N-7',
             'X.12', 'Zürich', 'K_0', 'AA', 'Ab', 'aB', 'roadm', 'trx', 'to', 'in', 'east', 'fiber', 'x(y', 'A1', 'A10',
             'A', 'B', 'C', 'D', 'E', 'F', 'G', 'H']
SPACED = ['New York', 'Santa Fe', 'a b', 'Aix en Provence']


def gen_names(rng, n, spaced):
    pool = list(NAME_POOL) + (SPACED if spaced else [])
    rng.shuffle(pool)
    return pool[:n]


def gen_num(rng, lo, hi, nd=None):
    k = rng.random()
    if k < 0.35:
        return rng.randint(math.ceil(lo), math.floor(hi)) if math.floor(hi) >= math.ceil(lo) else lo
    x = rng.uniform(lo, hi)
    return round(x, rng.choice([1, 2, 3, 4, 6]) if nd is None else nd)


def gen_side(rng, full):
    """cells of one direction of a Links row; `full` = probability that a cell is filled"""
    s = {}
    s['distance'] = rng.choice([gen_num(rng, 1, 140), gen_num(rng, 1, 140), rng.choice([0.0625, 12.3455, 80.0005, 160, 200.5, 1e-3])]) \
        if rng.random() < full else None
    s['fiber'] = rng.choice(FIBERS) if rng.random() < full * 0.7 else None
    s['lineic'] = rng.choice([0.2, 0.22, 0.25, 0.18, gen_num(rng, 0.15, 0.3)]) if rng.random() < full * 0.7 else None
    s['con_in'] = rng.choice([0, 0.5, 1, gen_num(rng, 0, 1.5)]) if rng.random() < full * 0.5 else None
    s['con_out'] = rng.choice([0, 0.5, 1, gen_num(rng, 0, 1.5)]) if rng.random() < full * 0.5 else None
    s['pmd'] = rng.choice([0, 0.5, 1.265, gen_num(rng, 0.01, 3)]) if rng.random() < full * 0.4 else None
    s['cable'] = rng.choice(['F001', 'CABLES#19', 'c-1', 'x)-y', 'F 2', '7']) if rng.random() < full * 0.6 else None
    return s


def gen_amp(rng, full, allow_fused=True):
    a = {}
    k = rng.random()
    a['amp_type'] = None if k > full else rng.choice(AMPS + (['fused', 'Fused', 'FUSED'] if allow_fused else []) + AMPS)
    a['amp_gain'] = gen_num(rng, 8, 30) if rng.random() < full * 0.7 else None
    a['amp_dp'] = gen_num(rng, -3, 3) if rng.random() < full * 0.4 else None
    a['tilt'] = rng.choice([0, -1, gen_num(rng, -2, 2)]) if rng.random() < full * 0.5 else None
    a['att_out'] = rng.choice([0, 0.5, gen_num(rng, 0, 3)]) if rng.random() < full * 0.5 else None
    a['att_in'] = rng.choice([0, 0.5, gen_num(rng, 0, 3)]) if rng.random() < full * 0.5 else None
    return a


def adjacency(case):
    adj = {}
    for l in case['links']:
        adj.setdefault(l['a'], []).append(l['z'])
        adj.setdefault(l['z'], []).append(l['a'])
    return adj


def norm_type(t):
    return t if t in ('ROADM', 'ILA', 'FUSED') else 'ILA'


def final_types(case):
    """site -> ROADM / ILA / FUSED after the documented correction (ILA of degree != 2 becomes ROADM)"""
    adj = adjacency(case)
    out = {}
    for n in case['nodes']:
        t = norm_type(n['type'])
        if t == 'ILA' and len(adj.get(n['city'], [])) != 2:
            t = 'ROADM'
        out[n['city']] = t
    return out


def gen_topology(rng, big=False):
    spaced = rng.random() < 0.15
    nbase = rng.choice([2, 2, 3, 3, 4, 5] if not big else [6, 8, 10])
    # base graph: random tree + extra edges (parallel edges allowed, they get subdivided)
    edges = []
    for i in range(1, nbase):
        edges.append((rng.randrange(i), i))
    for _ in range(rng.choice([0, 0, 1, 1, 2, 3] if not big else [3, 5, 8])):
        a, b = rng.sample(range(nbase), 2)
        edges.append((a, b))
    seen = set()
    chains = []
    for (a, b) in edges:
        key = frozenset((a, b))
        k = rng.choice([0, 0, 1, 1, 2, 2, 3])
        if key in seen and k == 0:
            k = 1
        seen.add(key)
        chains.append((a, b, k))
    nline = sum(k for _, _, k in chains)
    names = gen_names(rng, nbase + nline, spaced)
    if len(names) < nbase + nline:
        names += [f'S{i}' for i in range(nbase + nline - len(names))]
    base, line = names[:nbase], names[nbase:]
    links, li = [], 0
    line_sites = []
    forced = {}
    for (a, b, k) in chains:
        seq = [base[a]] + line[li:li + k] + [base[b]]
        line_sites += line[li:li + k]
        if k >= 2 and rng.random() < 0.4:
            # a run of consecutive FUSED sites (the whole chain, or two neighbours of it)
            j = rng.randrange(0, k - 1)
            for c in (line[li:li + k] if rng.random() < 0.5 else line[li + j:li + j + 2]):
                forced[c] = 'FUSED'
        li += k
        for x, y in zip(seq, seq[1:]):
            links.append((x, y) if rng.random() < 0.5 else (y, x))
    rng.shuffle(links)
    deg = {}
    for x, y in links:
        deg[x] = deg.get(x, 0) + 1
        deg[y] = deg.get(y, 0) + 1
    nodes = []
    for c in base:
        if deg[c] == 2:
            t = 'ROADM'
        else:
            t = rng.choice(['ROADM', 'ROADM', 'ROADM', 'ILA', None, 'roadm', 'Ila', 'x'])
        nodes.append((c, t))
    for c in line_sites:
        nodes.append((c, forced.get(c) or rng.choice(['ILA', 'ILA', 'ILA', 'FUSED', 'FUSED', None, 'ila', 'fused', 'ROADM', 'abc'])))
    rng.shuffle(nodes)
    return nodes, links


def gen_case(rng, big=False):
    nodes, links = gen_topology(rng, big)
    case = {'fmt': 'xlsx' if rng.random() < 0.6 else 'xls', 'nodes': [], 'links': [], 'eqpts': None, 'roadms': None,
            'services': None, 'layout': {'side': rng.sample(SIDE_KEYS, len(SIDE_KEYS)) if rng.random() < 0.3 else SIDE_KEYS,
                                         'amp': rng.sample(AMP_KEYS, len(AMP_KEYS)) if rng.random() < 0.3 else AMP_KEYS,
                                         'no_dp': rng.random() < 0.3, 'pad': rng.random() < 0.3}}
    restr = ' | '.join(rng.sample(['std_medium_gain', 'std_low_gain', 'std_high_gain'], 3))
    for c, t in nodes:
        geo = rng.random()
        case['nodes'].append({
            'city': c, 'state': rng.choice([None, 'Bretagne']), 'country': rng.choice([None, 'France']),
            'region': rng.choice([None, 'RLD', 'West']),
            'latitude': None if geo < 0.3 else gen_num(rng, -60, 60), 'longitude': None if geo < 0.3 else gen_num(rng, -170, 170),
            'type': t,
            'booster': rng.choice([restr, restr + ' | ', 'std_medium_gain | std_low_gain | std_high_gain | high_power'])
            if rng.random() < 0.12 else None,
            'preamp': rng.choice([restr, ' | ' + restr]) if rng.random() < 0.12 else None})
    one_sided = rng.random() < 0.4
    for a, z in links:
        east = gen_side(rng, rng.choice([0.3, 0.9, 1.0]))
        west = gen_side(rng, 0.0 if one_sided or rng.random() < 0.4 else rng.choice([0.3, 0.9]))
        # a PMD on a zero-length fibre is an arithmetic error, not a conversion: kept out of the valid stream
        case['links'].append({'a': a, 'z': z, 'east': east, 'west': west})
    types = {n['city']: norm_type(n['type']) for n in case['nodes']}
    ftypes = final_types(case)
    adj = adjacency(case)
    if rng.random() < 0.75:
        eq = []
        for c in [n['city'] for n in case['nodes']]:
            if types[c] == 'FUSED':
                continue
            if types[c] == 'ILA':
                if rng.random() < 0.5:
                    z = rng.choice(adj[c])
                    eq.append({'a': c, 'z': z, 'east': gen_amp(rng, rng.choice([0.5, 1])), 'west': gen_amp(rng, rng.choice([0, 0.5, 1]))})
            else:
                for z in adj[c]:
                    if rng.random() < 0.6:
                        eq.append({'a': c, 'z': z, 'east': gen_amp(rng, rng.choice([0.5, 1])),
                                   'west': gen_amp(rng, rng.choice([0, 0.5, 1]))})
        rng.shuffle(eq)
        case['eqpts'] = eq
        if rng.random() < 0.45:
            rd = []
            # library ids exist only for type_variety 'detailed_impairments' (0 = express); workbooks with other ids
            # are converted and compared but not designed
            free_ids = rng.random() < 0.3
            city_variety = {}
            for e in eq:
                if ftypes[e['a']] == 'ROADM' and (e['east']['amp_type'] or '').lower() != 'fused' and rng.random() < 0.6:
                    row = {'a': e['a'], 'z': e['z'], 'target': rng.choice([None, gen_num(rng, -25, -15)]),
                           'variety': None, 'fd': None, 'imp': None}
                    # express paths from other degrees of the same ROADM whose ingress amplifier is declared
                    fds = [x['z'] for x in eq if x['a'] == e['a'] and x['z'] != e['z']
                           and (x['west']['amp_type'] or '').lower() != 'fused']
                    if fds and rng.random() < 0.6:
                        fds = rng.sample(fds, rng.randint(1, min(3, len(fds))))
                        ids = [rng.choice([0, 1, 7, 12]) if free_ids else 0 for _ in fds]
                        row['fd'] = ' | '.join(fds)
                        if len(ids) == 1 and case['fmt'] == 'xls' and rng.random() < 0.6:
                            row['imp'] = ids[0]          # a numeric cell (xlrd: float); see the report for .xlsx
                        else:
                            row['imp'] = ' | '.join(rng.choice([str(i), f' {i}', f'+{i}' if i else '0']) for i in ids)
                        city_variety[e['a']] = 'detailed_impairments'
                    elif rng.random() < 0.1:
                        row[rng.choice(['fd', 'imp'])] = '3'     # only one of the two cells: ignored
                    rd.append(row)
            for row in rd:
                cv = city_variety.setdefault(row['a'], rng.choice([None, 'default', 'roadm_type_1']))
                row['variety'] = rng.choice([cv, cv, None]) if not (free_ids and rng.random() < 0.3) else \
                    rng.choice([None, 'default', 'roadm_type_1', 'detailed_impairments'])
            for a_, cv in city_variety.items():
                rows_a = [r for r in rd if r['a'] == a_]
                if cv == 'detailed_impairments' and not free_ids and rows_a[-1]['variety'] is None and \
                        not any(r['variety'] for r in rows_a):
                    rows_a[0]['variety'] = cv
            if free_ids and any(r['imp'] is not None and r['fd'] is not None for r in rd):
                case['no_design'] = True
            case['roadms'] = rd
    return case


def line_hops(rng, case, ftypes):
    """a line site given by its sheet name, usually followed by the sites downstream of it (which is what lets
    correct_xls_route_list choose between the site's two amplifiers)"""
    adj = adjacency(case)
    lines = [c for c, t in ftypes.items() if t != 'ROADM']
    c = rng.choice(lines)
    out = [c]
    prev, cur = c, rng.choice(adj[c])
    listed = rng.choice([1.0, 1.0, 0.6, 0.4])       # some routes list only some of the sites passed
    for _ in range(rng.choice([0, 1, 1, 2, 3, 4])):
        if rng.random() < listed:
            out.append(cur)
        if ftypes[cur] == 'ROADM' or len(adj[cur]) != 2:
            break
        nxt = [x for x in adj[cur] if x != prev] or adj[cur]
        prev, cur = cur, nxt[0]
    if rng.random() < 0.1:
        out.append(c)
    return out


def amp_names(case, ftypes):
    """uids of amplifiers / fused elements as the converter names them"""
    out = []
    rows = {e['a'] for e in case['eqpts'] or []}
    for c, t in ftypes.items():
        if t == 'FUSED':
            out += [f'west fused spans in {c}', f'east fused spans in {c}']
        elif t == 'ILA' and c not in rows:
            out += [f'west edfa in {c}', f'east edfa in {c}']
    for e in case['eqpts'] or []:
        out += [f"east edfa in {e['a']} to {e['z']}", f"west edfa in {e['a']} to {e['z']}"]
    return out


def gen_services(rng, case, modelled=True):
    """service rows for a valid topology"""
    ftypes = final_types(case)
    types = {n['city']: norm_type(n['type']) for n in case['nodes']}
    roadms = [c for c, t in ftypes.items() if t == 'ROADM']
    declared = [c for c, t in types.items() if t == 'ROADM']
    lines = [c for c, t in ftypes.items() if t != 'ROADM']
    rows = []
    n = rng.randint(1, 6)
    for i in range(n):
        src, dst = (rng.sample(roadms, 2) if len(roadms) >= 2 else (roadms[0], roadms[0]))
        trx = rng.choice(['Voyager', 'vendorA_trx-type1'])
        modes = dict(_EQ['modes'])[trx]
        route = None
        if rng.random() < 0.6:
            ent = []
            for _ in range(rng.randint(1, 4)):
                k = rng.random()
                if k < 0.25 and declared:
                    ent.append(rng.choice(declared))
                elif k < 0.42:
                    ent.append('roadm ' + rng.choice(roadms))
                elif k < 0.49:
                    ent.append('trx ' + rng.choice(roadms))
                elif k < 0.55:
                    l = rng.choice(case['links'])
                    ent.append(f"fiber ({l['a']} {ARROW} {l['z']})-{l['east']['cable'] or ''}")
                elif k < 0.63:
                    ent.append(rng.choice(['nowhere', 'Paris', 'roadm nowhere', 'zz9']))
                elif k < 0.9 and lines:
                    ent += line_hops(rng, case, ftypes)
                else:
                    ent.append(rng.choice(amp_names(case, ftypes) or ['roadm ' + rng.choice(roadms)]))
            if rng.random() < 0.3:
                ent.insert(0, 'trx ' + src)
            if rng.random() < 0.3:
                ent.append('trx ' + dst)
            route = ' | '.join(ent)
        rid = rng.choice([i, float(i), str(i), f'req{i}', i + 0.0])
        others = [r['id'] for r in rows]
        disj = None
        if others and rng.random() < 0.4:
            ds = rng.sample(others, rng.randint(1, min(2, len(others))))
            disj = ds[0] if len(ds) == 1 and not isinstance(ds[0], str) and rng.random() < 0.5 else \
                ' | '.join(str(int(d)) if not isinstance(d, str) else d for d in ds)
        rows.append({'id': rid, 'src': src, 'dst': dst, 'trx': trx,
                     'mode': rng.choice([None, None] + modes),
                     'spacing': rng.choice([50, 75, 37.5, 62.5, 100, 50.0]),
                     'power': rng.choice([None, 0, 0.0, 1, -1.5, 2.25, 3]),
                     'nbch': rng.choice([None, 80, 40.0, 96, 10.9, 0, 0.0]),
                     'disj': disj, 'path': route,
                     'loose': rng.choice([None, None, 'yes', 'Yes', 'YES', 'yes', 'no', 'No', 'y']),
                     'bw': rng.choice([None, 100, 150.5, 400, 0, 0.0])})
    # one service-level error in some sheets
    k = rng.random()
    r = rng.choice(rows)
    if k < 0.03:
        r['trx'] = rng.choice(['NoSuchTrx', None, 7])
    elif k < 0.06:
        r['mode'] = rng.choice(['mode 9', 5])
    elif k < 0.09:
        r['spacing'] = rng.choice([None, 0])
    elif k < 0.13:
        r[rng.choice(['src', 'dst'])] = rng.choice((lines or ['nowhere']) + ['nowhere', None])
    return rows


# ------------------------------------------------------------------ malformed stream: exactly one violated rule
def mutate(rng, base, rule):
    """returns a copy of the valid case violating exactly `rule`, or None when the case offers no place for it"""
    c = copy.deepcopy(base)
    c['services'] = None
    cities = [n['city'] for n in c['nodes']]
    adj = adjacency(c)
    types = {n['city']: norm_type(n['type']) for n in c['nodes']}
    fresh = next(x for x in ['Nowhere', 'Atlantis', 'Qq'] if x not in cities)
    blank_amp = {k: None for k in AMP_KEYS}
    if rule == 'duplicate_city':
        n = copy.deepcopy(rng.choice(c['nodes']))
        n['type'] = rng.choice([n['type'], 'ROADM'])
        c['nodes'].insert(rng.randint(0, len(c['nodes'])), n)
    elif rule == 'link_unknown_node':
        c['links'].insert(rng.randint(0, len(c['links'])),
                          {'a': rng.choice(cities), 'z': fresh, 'east': gen_side(rng, 0.5), 'west': gen_side(rng, 0)}
                          if rng.random() < 0.5 else
                          {'a': fresh, 'z': rng.choice(cities), 'east': gen_side(rng, 0.5), 'west': gen_side(rng, 0)})
    elif rule == 'duplicate_link':
        l = copy.deepcopy(rng.choice(c['links']))
        if rng.random() < 0.5:
            l['a'], l['z'] = l['z'], l['a']
        l['east'] = gen_side(rng, 0.5)
        c['links'].insert(rng.randint(0, len(c['links'])), l)
    elif rule == 'unreferenced_node':
        c['nodes'].insert(rng.randint(0, len(c['nodes'])),
                          {'city': fresh, 'state': None, 'country': None, 'region': None, 'latitude': 1, 'longitude': 2,
                           'type': rng.choice(['ROADM', 'ILA', None, 'FUSED']), 'booster': None, 'preamp': None})
    elif rule == 'eqpt_unknown_node':
        c['eqpts'] = c['eqpts'] or []
        a = rng.choice(cities)
        row = {'a': a, 'z': fresh} if rng.random() < 0.5 else {'a': fresh, 'z': a}
        c['eqpts'].insert(rng.randint(0, len(c['eqpts'])), dict(row, east=gen_amp(rng, 0.5, False), west=dict(blank_amp)))
    elif rule == 'eqpt_unknown_link':
        pairs = [(a, z) for a in cities for z in cities if a != z and z not in adj[a] and types[a] != 'FUSED'
                 and not (types[a] == 'ILA' and any(e['a'] == a for e in (c['eqpts'] or [])))]
        if not pairs:
            return None
        a, z = rng.choice(pairs)
        c['eqpts'] = c['eqpts'] or []
        c['eqpts'].insert(rng.randint(0, len(c['eqpts'])), {'a': a, 'z': z, 'east': gen_amp(rng, 0.5, False), 'west': dict(blank_amp)})
    elif rule == 'duplicate_eqpt':
        cand = [e for e in (c['eqpts'] or []) if types[e['a']] == 'ROADM']
        if not cand:
            cand_sites = [(a, z) for a in cities if types[a] == 'ROADM' for z in adj[a]]
            if not cand_sites:
                return None
            a, z = rng.choice(cand_sites)
            c['eqpts'] = (c['eqpts'] or []) + [{'a': a, 'z': z, 'east': gen_amp(rng, 0.5, False), 'west': dict(blank_amp)}]
            cand = [c['eqpts'][-1]]
        e = copy.deepcopy(rng.choice(cand))
        e['east'] = gen_amp(rng, 0.5, False)
        c['eqpts'].insert(rng.randint(0, len(c['eqpts'])), e)
    elif rule == 'duplicate_ila':
        sites = [a for a in cities if types[a] == 'ILA' and len(set(adj[a])) >= 2]
        if not sites:
            return None
        a = rng.choice(sites)
        c['eqpts'] = [e for e in (c['eqpts'] or []) if e['a'] != a]
        for z in rng.sample(sorted(set(adj[a])), 2):
            c['eqpts'].insert(rng.randint(0, len(c['eqpts'])), {'a': a, 'z': z, 'east': gen_amp(rng, 0.5, False), 'west': dict(blank_amp)})
    elif rule == 'impairment_mismatch':
        # a Roadms row whose 'from degrees' and impairment ids differ in number (documented error of create_roadm_element)
        sites = [n['city'] for n in c['nodes'] if final_types(c)[n['city']] == 'ROADM']
        a = rng.choice(sites)
        fds = rng.sample(cities, min(len(cities), rng.choice([1, 2, 3])))
        ids = list(range(len(fds) + rng.choice([1, 2]))) if rng.random() < 0.5 or len(fds) == 1 else [5]
        c['roadms'] = (c['roadms'] or []) + [{'a': a, 'z': rng.choice(adj[a]), 'target': None, 'variety': None,
                                              'fd': ' | '.join(fds), 'imp': ' | '.join(map(str, ids))}]
    elif rule == 'missing_header':
        sheet, h = rng.choice([('Nodes', 'City'), ('Links', 'Node A'), ('Links', 'Node Z'), ('Links', 'east')])
        # the header search of convert.py scans ten lines for a cell *containing* the label: a site called 'east'
        # would be taken for the missing header
        if any(isinstance(v, str) and h in v for rows in sheet_grids(c).values() for r in rows[5:] for v in r):
            return None
        c['layout']['drop_header'] = (sheet, h)
    elif rule == 'self_loop_link':
        a = rng.choice(cities)
        c['links'].insert(rng.randint(0, len(c['links'])), {'a': a, 'z': a, 'east': gen_side(rng, 0.5), 'west': gen_side(rng, 0)})
    elif rule == 'fused_degree':
        # a FUSED site of degree 1 or 3
        sites = [a for a in cities if types[a] == 'FUSED']
        if sites and rng.random() < 0.5:
            a = rng.choice(sites)
            others = [z for z in cities if z != a and z not in adj[a]]
            if not others:
                return None
            c['links'].append({'a': a, 'z': rng.choice(others), 'east': gen_side(rng, 0.5), 'west': gen_side(rng, 0)})
        else:
            c['nodes'].append({'city': fresh, 'state': None, 'country': None, 'region': None, 'latitude': 1, 'longitude': 2,
                               'type': 'FUSED', 'booster': None, 'preamp': None})
            c['links'].append({'a': fresh, 'z': rng.choice(cities), 'east': gen_side(rng, 0.5), 'west': gen_side(rng, 0)})
    # ---- inconsistent rows that no rule names (open finding C20-eqpt-on-fused)
    elif rule == 'eqpt_on_fused':
        sites = [a for a in cities if types[a] == 'FUSED' and len(adj[a]) == 2]
        if not sites:
            return None
        a = rng.choice(sites)
        c['eqpts'] = (c['eqpts'] or []) + [{'a': a, 'z': rng.choice(adj[a]), 'east': gen_amp(rng, 1, False), 'west': dict(blank_amp)}]
    else:
        raise ValueError(rule)
    c['rule'] = rule
    return c


# ------------------------------------------------------------------ workbooks: .xlsx files and xlrd look-alikes
def sheet_grids(case):
    """sheet name -> list of rows (lists of cell values, None = empty) in the layout of the shipped examples"""
    lay = case['layout']
    drop = lay.get('drop_header')
    side_keys = lay['side']
    amp_keys = [k for k in lay['amp'] if not (lay['no_dp'] and k == 'amp_dp')]
    pad = [['comment', None, 'free text']] if lay['pad'] else [[None]]

    def hdr(sheet, h):
        return None if drop == (sheet, h) else h
    g = {}
    rows = [[None]] * 3 + pad + [[hdr('Nodes', h) for h in NODE_HDR]]
    for n in case['nodes']:
        rows.append([n[k] for k in NODE_KEYS])
    g['Nodes'] = rows
    ns = len(side_keys)
    top = [None, None, hdr('Links', 'east') and 'east cable (from a to z)'] + [None] * (ns - 1) + ['west (from z to a']
    sub = [hdr('Links', 'Node A'), hdr('Links', 'Node Z')] + [SIDE_HDR[k] for k in side_keys] * 2
    rows = [[None]] * 2 + pad + [top, sub]
    for l in case['links']:
        rows.append([l['a'], l['z']] + [l['east'][k] for k in side_keys] + [l['west'][k] for k in side_keys])
    g['Links'] = rows
    if case['eqpts'] is not None:
        na = len(amp_keys)
        top = [None, None, 'east Node a egress amp (from a to z)'] + [None] * (na - 1) + ['west Node a ingress amp (from z to a)']
        sub = ['Node A', 'Node Z'] + [AMP_HDR[k] for k in amp_keys] * 2
        rows = [['OPTIONAL']] + [[None]] * 2 + [top, sub]
        for e in case['eqpts']:
            rows.append([e['a'], e['z']] + [e['east'][k] for k in amp_keys] + [e['west'][k] for k in amp_keys])
        g['Eqpt'] = rows
    if case['roadms'] is not None:
        rows = [[None]] * 4 + [ROADM_HDR]
        for r in case['roadms']:
            rows.append([r['a'], r['z'], r['target'], r['variety'], r.get('fd'), r.get('imp')])
        g['Roadms'] = rows
    if case.get('services') is not None:
        rows = [[None]] * 4 + [SVC_HDR]
        for s in case['services']:
            rows.append([s[k] for k in SVC_KEYS])
        g['Service'] = rows
    return g


def write_xlsx(case, path):
    import openpyxl
    wb = openpyxl.Workbook()
    first = True
    for name, rows in sheet_grids(case).items():
        ws = wb.active if first else wb.create_sheet(name)
        ws.title = name
        first = False
        for r in rows:
            ws.append(list(r))
    wb.save(path)


class FakeCell:
    def __init__(self, v):
        if v is None or v == '':
            self.ctype, self.value = 0, ''
        elif isinstance(v, str):
            self.ctype, self.value = 1, v
        else:
            self.ctype, self.value = 2, float(v)


class FakeSheet:
    """what convert.py / service_sheet.py use of an xlrd sheet: name, nrows, row, row_slice, cell"""
    def __init__(self, name, rows):
        self.name = name
        ncols = max(len(r) for r in rows)
        self._rows = [[FakeCell(v) for v in list(r) + [None] * (ncols - len(r))] for r in rows]
        self.nrows, self.ncols = len(rows), ncols

    def row(self, i):
        return list(self._rows[i])

    def row_slice(self, i, a, b=None):
        return self._rows[i][a:b]

    def cell(self, r, c):
        return self._rows[r][c]


class FakeBook:
    def __init__(self, case):
        self._sheets = [FakeSheet(n, rows) for n, rows in sheet_grids(case).items()]
        self.nsheets = len(self._sheets)

    def sheet_by_name(self, name):
        from xlrd.biffh import XLRDError
        for s in self._sheets:
            if s.name == name:
                return s
        raise XLRDError(f'No sheet named <{name!r}>')

    def sheet_by_index(self, i):
        return self._sheets[i]

    def sheet_names(self):
        return [s.name for s in self._sheets]

    def sheets(self):
        return list(self._sheets)


class Books:
    """serves in-memory .xls workbooks through gnpy.tools.xls_utils.open_workbook (restored on exit)"""
    def __init__(self):
        self.reg = {}

    def __enter__(self):
        import gnpy.tools.xls_utils as xu
        self.xu, self.orig = xu, xu.open_workbook

        def fake(path, *a, **k):
            key = str(path)
            if key in self.reg:
                return FakeBook(self.reg[key])
            return self.orig(path, *a, **k)
        xu.open_workbook = fake
        return self

    def __exit__(self, *a):
        self.xu.open_workbook = self.orig

    def materialise(self, case, tmpdir, k):
        if case.get('fixture'):
            return Path(case['fixture'])
        if case['fmt'] == 'xlsx':
            p = Path(tmpdir) / f'wb{k}.xlsx'
            write_xlsx(case, p)
        else:
            p = Path(tmpdir) / f'wb{k}.xls'
            self.reg[str(p)] = case
        return p


# ------------------------------------------------------------------ shipped fixtures -> case rows (independent reader)
def read_fixture(path):
    """reads a shipped workbook into the case format with a reader of its own (labels of the header rows, east/west
    groups by position); None when the layout is not the standard one"""
    path = Path(path)
    grids = {}
    if path.suffix == '.xlsx':
        import openpyxl
        wb = openpyxl.load_workbook(path, read_only=True, data_only=True)
        for ws in wb.worksheets:
            grids[ws.title] = [[c.value for c in r] for r in ws.rows]
    else:
        import xlrd
        wb = xlrd.open_workbook(path)
        for sh in wb.sheets():
            grids[sh.name] = [[None if c.ctype == 0 else c.value for c in sh.row(i)] for i in range(sh.nrows)]
    if 'Nodes' not in grids or 'Links' not in grids:
        return None

    def clean(v):
        return None if v == '' else v

    def cut(row, n):
        row = list(row)[:n]
        return [clean(v) for v in row + [None] * (n - len(row))]

    def find_hdr(rows, label, start, ncol):
        for i in range(start, min(start + 10, len(rows))):
            r = cut(rows[i], ncol)
            if any(isinstance(v, str) and v.strip() == label for v in r):
                return i, [v.strip() if isinstance(v, str) else None for v in r]
        return None, None
    case = {'fmt': path.suffix[1:], 'fixture': str(path), 'nodes': [], 'links': [], 'eqpts': None, 'roadms': None,
            'services': None, 'layout': {}}
    i, h = find_hdr(grids['Nodes'], 'City', 4, 10)
    if i != 4:
        return None
    col = {lab: h.index(lab) for lab in NODE_HDR if lab in h}
    for r in grids['Nodes'][5:]:
        r = cut(r, 10)
        if r[0] is None:
            continue
        case['nodes'].append({k: (r[col[lab]] if lab in col else None) for k, lab in zip(NODE_KEYS, NODE_HDR)})

    def two_sided(rows, hdrs, keys, line, ncol):
        i, h = find_hdr(rows, 'Node A', line, ncol)
        if i != line + 1:
            return None
        top = cut(rows[line], ncol)
        e0 = next((j for j, v in enumerate(top) if isinstance(v, str) and 'east' in v), None)
        w0 = next((j for j, v in enumerate(top) if isinstance(v, str) and 'west' in v), None)
        if e0 is None or w0 is None or not e0 < w0:
            return None
        out = []
        for r in rows[line + 2:]:
            r = cut(r, ncol)
            if r[0] is None:
                continue
            rec = {'a': r[h.index('Node A')], 'z': r[h.index('Node Z')], 'east': {}, 'west': {}}
            for k in keys:
                je = next((j for j in range(e0, w0) if h[j] == hdrs[k]), None)
                jw = next((j for j in range(w0, ncol) if h[j] == hdrs[k]), None)
                rec['east'][k] = r[je] if je is not None else None
                rec['west'][k] = r[jw] if jw is not None else None
            out.append(rec)
        return out
    case['links'] = two_sided(grids['Links'], SIDE_HDR, SIDE_KEYS, 3, 16)
    if case['links'] is None:
        return None
    if 'Eqpt' in grids:
        case['eqpts'] = two_sided(grids['Eqpt'], AMP_HDR, AMP_KEYS, 3, 14)
        if case['eqpts'] is None:
            return None
    if 'Roadms' in grids:
        i, h = find_hdr(grids['Roadms'], 'Node A', 3, 6)
        if i is None:
            return None
        rd = []
        for r in grids['Roadms'][i + 1:]:
            r = cut(r, 6)
            if r[0] is None:
                continue
            rec = dict(zip(['a', 'z', 'target', 'variety', 'fd', 'imp'], [r[h.index(l)] if l in h else None for l in ROADM_HDR]))
            rd.append(rec)
        case['roadms'] = rd
    # only typed rows are modelled
    for n in case['nodes']:
        if not isinstance(n['city'], str):
            return None
    for l in case['links'] + (case['eqpts'] or []):
        if not isinstance(l['a'], str) or not (l['z'] is None or isinstance(l['z'], str)):
            return None
    return case


# ------------------------------------------------------------------ implementation driver
def classify_exc(e):
    name = type(e).__name__
    if name == 'NetworkTopologyError':
        for frag, rule in MSG2RULE:
            if frag in str(e):
                return f'NetworkTopologyError:{rule}'
        return 'NetworkTopologyError:?'
    if name == 'IndexError':
        return 'IndexError:site_degree'
    if name == 'StopIteration':
        return 'StopIteration:successors'
    if name == 'ValueError' and 'invalid literal for int' in str(e):
        return 'ValueError:impairment_id'
    if name in ('ZeroDivisionError', 'ValueError'):
        return f'{name}:pmd'
    if name == 'ServiceError':
        m = str(e)
        if 'could not find tsp' in m:
            return 'ServiceError:unknown_mode' if "with mode: 'None'" not in m and _known_trx(m) else 'ServiceError:unknown_trx'
        if 'missing spacing' in m:
            return 'ServiceError:missing_spacing'
        if 'transponder source' in m:
            return 'ServiceError:source'
        if 'transponder destination' in m:
            return 'ServiceError:destination'
        if 'Strict constraint can not be applied' in m:
            return 'ServiceError:trx_or_fiber_in_strict_route' if 'type is not supported' in m else \
                'ServiceError:unknown_node_in_strict_route'
        return 'ServiceError:?'
    return f'{name}:?'


def _known_trx(msg):
    return any(f"could not find tsp : '{t}'" in msg for t, _ in _EQ['modes'])


def drive_convert(path):
    from gnpy.tools.convert import xls_to_json_data
    try:
        return xls_to_json_data(path), None
    except Exception as e:      # every exception out of the converter is an observation
        return None, e


def try_design(data):
    from gnpy.tools.json_io import network_from_json
    from gnpy.tools.worker_utils import designed_network
    eq = equipment()
    net = network_from_json(copy.deepcopy(data), eq)
    raw = copy.deepcopy(net)
    designed_network(eq, net)
    return raw, net


# ------------------------------------------------------------------ canonical forms and comparison
def fq(v):
    """[num, den] -> Fraction (None stays None)"""
    return None if v is None else Fraction(v[0], v[1])


def same(m, i, path=''):
    """None when equal (numbers within 1e-9 relative), else a description of the first difference"""
    if isinstance(m, Fraction) or (isinstance(m, int) and not isinstance(m, bool)):
        if isinstance(i, bool) or not isinstance(i, (int, float, Fraction)):
            return f'{path}: model {m} impl {i!r}'
        mi = Fraction(i)
        if abs(mi - m) > Fraction(1, 10 ** 9) * max(1, abs(m)):
            return f'{path}: model {float(m)!r} impl {i!r}'
        return None
    if isinstance(m, dict):
        if not isinstance(i, dict) or set(m) != set(i):
            return f'{path}: keys model {sorted(m)} impl {sorted(i) if isinstance(i, dict) else i!r}'
        for k in m:
            d = same(m[k], i[k], f'{path}.{k}')
            if d:
                return d
        return None
    if isinstance(m, list):
        if not isinstance(i, (list, tuple)) or len(m) != len(i):
            return f'{path}: length model {len(m)} impl {len(i) if isinstance(i, (list, tuple)) else i!r}'
        for k, (a, b) in enumerate(zip(m, i)):
            d = same(a, b, f'{path}[{k}]')
            if d:
                return d
        return None
    if m != i or type(m) != type(i):
        return f'{path}: model {m!r} impl {i!r}'
    return None


def canon_net_impl(data):
    els = []
    for e in data['elements']:
        e = copy.deepcopy(e)
        if e.get('type') == 'Fiber' and 'pmd_coef' in e['params']:
            e['params']['pmd_coef_sq'] = Fraction(e['params'].pop('pmd_coef')) ** 2
        els.append(e)
    return {'elements': els, 'connections': [[c['from_node'], c['to_node']] for c in data['connections']]}


def canon_net_model(txt):
    """positional rendering of Run/C20.v -> the shape of gnpy's JSON"""
    locs, els, conns = json.loads(txt)
    out = []
    for e in els:
        uid, li, kind, rest = e[0], e[1], e[2], e[3:]
        c, r, la, lo = locs[li]
        loc = {'latitude': fq(la), 'longitude': fq(lo)}
        if c is not None:
            loc['city'] = c
        if r is not None:
            loc['region'] = r
        d = {'uid': uid, 'metadata': {'location': loc}}
        if kind == 'T':
            d['type'] = 'Transceiver'
        elif kind == 'R':
            d['type'] = 'Roadm'
            v, restr, pdeg, pimp = rest
            if v is not None:
                d['type_variety'] = v
            if restr is not None or pdeg is not None:
                d['params'] = {}
                if restr is not None:
                    d['params']['restrictions'] = {'preamp_variety_list': restr[0], 'booster_variety_list': restr[1]}
                if pdeg is not None:
                    d['params']['per_degree_pch_out_db'] = {k: fq(v) for k, v in pdeg}
                if pimp is not None:
                    d['params']['per_degree_impairments'] = [{'from_degree': a, 'to_degree': b, 'impairment_id': i}
                                                             for a, b, i in pimp]
        elif kind == 'F':
            d['type'] = 'Fused'
            if rest[0]:
                d['params'] = {'loss': 0}
        elif kind == 'B':
            v, ln, lc, ci, co, p2 = rest
            d['type'], d['type_variety'] = 'Fiber', v
            d['params'] = {'length': fq(ln), 'length_units': 'km', 'loss_coef': fq(lc), 'con_in': fq(ci), 'con_out': fq(co)}
            if p2 is not None:
                d['params']['pmd_coef_sq'] = fq(p2)
        elif kind == 'A':
            d['type'] = 'Edfa'
            d['operational'] = {'gain_target': None, 'tilt_target': None}
        elif kind == 'E':
            v, op = rest
            d['type'] = 'Edfa'
            if v is not None:
                d['type_variety'] = v
            d['operational'] = dict(zip(['gain_target', 'delta_p', 'tilt_target', 'out_voa', 'in_voa'], [fq(x) for x in op]))
        else:
            raise ValueError(kind)
        out.append(d)
    cx = [[els[a][0] if isinstance(a, int) else a, els[b][0] if isinstance(b, int) else b] for a, b in conns]
    return {'elements': out, 'connections': cx}


def decode_req(m):
    m = dict(m)
    for k in ('spacing', 'power_dbm', 'path_bandwidth'):
        m[k] = fq(m[k])
    return m


def canon_req_impl(pr, loose_attr=None):
    te = pr['path-constraints']['te-bandwidth']
    route = [[o['index'], o['num-unnum-hop']['node-id']]
             for o in pr.get('explicit-route-objects', {}).get('route-object-include-exclude', [])]
    hops = {o['num-unnum-hop']['hop-type'] for o in pr.get('explicit-route-objects', {}).get('route-object-include-exclude', [])}
    loose = loose_attr
    if loose is None and hops:
        loose = hops.pop() if len(hops) == 1 else 'mixed'
    return {'request-id': pr['request-id'], 'source': pr['source'], 'destination': pr['destination'],
            'bidirectional': pr['bidirectional'], 'trx_type': te['trx_type'], 'trx_mode': te['trx_mode'],
            'spacing': te['spacing'], 'power_w': te['output-power'], 'max-nb-of-channel': te['max-nb-of-channel'],
            'path_bandwidth': te.get('path_bandwidth'), 'route': route,
            'loose': None if loose is None else loose == 'LOOSE'}


def canon_req_model(m, keep_loose):
    m = dict(m)
    p = m.pop('power_dbm')
    m['power_w'] = None if p is None else Fraction(math.pow(10.0, float(p) / 10.0) * 1e-3)
    sync = m.pop('sync')
    if not keep_loose and not m['route']:
        m['loose'] = None
    return m, sync


def req_shape_fail(pr):
    """fixed parts of a path-request"""
    te = pr['path-constraints']['te-bandwidth']
    if pr['src-tp-id'] != pr['source'] or pr['dst-tp-id'] != pr['destination']:
        return 'tp-id differs from the transceiver uid'
    if te['technology'] != 'flexi-grid' or te['effective-freq-slot'] != [{'N': None, 'M': None}]:
        return 'technology / effective-freq-slot'
    for o in pr.get('explicit-route-objects', {}).get('route-object-include-exclude', []):
        if o['explicit-route-usage'] != 'route-include-ero':
            return 'explicit-route-usage'
    return None


# ------------------------------------------------------------------ Gallina literals
def oq(v):
    return 'None' if v is None else f'(Some {qlit(v)})'


def os_(v):
    return 'None' if v is None else f'(Some {strlit(v)})'


def cell(v):
    if v is None or v == '':
        return 'CEmpty'
    if isinstance(v, str):
        return f'(CStr {strlit(v)})'
    return f'(CNum {qlit(v)})'


def typed_ok(case):
    """the model's rows are typed: names/labels are strings, quantities are numbers"""
    def s(v):
        return v is None or isinstance(v, str)

    def q(v):
        return v is None or (isinstance(v, (int, float)) and not isinstance(v, bool))
    for n in case['nodes']:
        if not (isinstance(n['city'], str) and s(n['region']) and q(n['latitude']) and q(n['longitude'])
                and s(n['type']) and s(n['booster']) and s(n['preamp'])):
            return False
    for l in case['links']:
        if not (isinstance(l['a'], str) and s(l['z'])):
            return False
        for sd in (l['east'], l['west']):
            if not (q(sd['distance']) and s(sd['fiber']) and q(sd['lineic']) and q(sd['con_in']) and q(sd['con_out'])
                    and q(sd['pmd']) and s(sd['cable'])):
                return False
    for e in case['eqpts'] or []:
        if not (isinstance(e['a'], str) and s(e['z'])):
            return False
        for sd in (e['east'], e['west']):
            if not (s(sd['amp_type']) and all(q(sd[k]) for k in AMP_KEYS if k != 'amp_type')):
                return False
    for r in case['roadms'] or []:
        if not (isinstance(r['a'], str) and s(r['z']) and q(r['target']) and s(r['variety']) and s(r.get('fd'))):
            return False
        if case['fmt'] == 'xlsx' and r.get('imp') is not None and not isinstance(r['imp'], str):
            return False       # openpyxl hands integers over as int: transform_data returns None (TypeError), see report
    return True


def rows_term(case):
    no_dp = case['layout'].get('no_dp')
    ns = [f"NR {strlit(n['city'])} {os_(n['region'])} {oq(n['latitude'])} {oq(n['longitude'])} {os_(n['type'])} "
          f"{os_(n['booster'])} {os_(n['preamp'])}" for n in case['nodes']]

    def side(s):
        return (f"(SR {oq(s['distance'])} {os_(s['fiber'])} {oq(s['lineic'])} {oq(s['con_in'])} {oq(s['con_out'])} "
                f"{oq(s['pmd'])} {os_(s['cable'])})")

    def amp(a):
        return (f"(AR {os_(a['amp_type'])} {oq(a['amp_gain'])} {oq(None if no_dp else a['amp_dp'])} {oq(a['tilt'])} "
                f"{oq(a['att_out'])} {oq(a['att_in'])})")
    ls = [f"LR {strlit(l['a'])} {strlit(l['z'] or '')} {side(l['east'])} {side(l['west'])}" for l in case['links']]
    es = [f"ER {strlit(e['a'])} {strlit(e['z'] or '')} {amp(e['east'])} {amp(e['west'])}" for e in case['eqpts'] or []]
    rs = [f"RR {strlit(r['a'])} {strlit(r['z'] or '')} {oq(r['target'])} {os_(r['variety'])} {os_(r.get('fd'))} {cell(r.get('imp'))}"
          for r in case['roadms'] or []]
    return f'(W {listlit(ns)} {listlit(ls)} {listlit(es)} {listlit(rs)})'


def req_row_term(s):
    return (f"QR {cell(s['id'])} {os_(s['src'])} {os_(s['dst'])} {cell(s['trx'])} {cell(s['mode'])} {oq(s['spacing'])} "
            f"{oq(s['power'])} {oq(s['nbch'])} {cell(s['disj'])} {os_(s['path'])} {os_(s['loose'])} {oq(s['bw'])}")


def equip_term():
    return listlit([f'({strlit(t)}, {listlit([strlit(m) for m in ms])})' for t, ms in _EQ['modes']])


# ------------------------------------------------------------------ property oracle on the converted JSON
def expected_side(l, which):
    """(length, type, loss, con_in, con_out) of one direction of a Links row: west falls back to east, east to
    the documented defaults"""
    dflt = {'distance': 80, 'fiber': 'SSMF', 'lineic': 0.2, 'con_in': None, 'con_out': None, 'cable': ''}
    out = {}
    for k in dflt:
        v = l['east'][k] if l['east'][k] is not None else dflt[k]
        if which == 'west' and l['west'][k] is not None:
            v = l['west'][k]
        out[k] = v
    return out


def is_num(x):
    return isinstance(x, (int, float, Fraction)) and not isinstance(x, bool) and x == x


def close(a, b):
    """both absent, or two numbers equal within 1e-9 relative; anything else (None for a number, a string, NaN) is a
    difference, never an exception"""
    if a is None or b is None:
        return a is None and b is None
    if not is_num(a) or not is_num(b):
        return False
    return abs(a - b) <= 1e-9 * max(1.0, abs(a), abs(b))


def safely(ctx, where, case, fn, *args):
    """run one oracle; an exception inside it is a violation naming the workbook, never a crash of the check"""
    try:
        return fn(*args)
    except Exception as e:      # the oracle met a shape of output it cannot even read: the output is wrong
        import traceback
        tb = traceback.extract_tb(e.__traceback__)[-1]
        ctx.violation(f'oracle_exception:{where}', f'{type(e).__name__}: {str(e)[:160]} (harness/c20.py:{tb.lineno})', strip(case))
        return []


def oracle_topology(case, data):
    """list of (key, description) failures of the property on gnpy's own output for an accepted workbook"""
    fails = []
    els = data['elements']
    uids = [e['uid'] for e in els]
    by = {}
    for e in els:
        by.setdefault(e['uid'], e)
    if len(set(uids)) != len(uids):
        dup = sorted({u for u in uids if uids.count(u) > 1})
        fails.append(('uid_not_unique', f'duplicate uids {dup[:3]}'))
    conns = [(c['from_node'], c['to_node']) for c in data['connections']]
    for a, b in conns:
        if a not in by or b not in by:
            fails.append(('dangling_connection', f'{a} -> {b}'))
    ftypes = final_types(case)
    adj = adjacency(case)
    # Eqpt rows naming a FUSED site: no amplifier exists there; the converter emits unconnected elements for them
    orphans = set()
    for r in case['eqpts'] or []:
        if ftypes.get(r['a']) == 'FUSED':
            us = [f"{w} edfa in {r['a']} to {r['z']}" for w in ('east', 'west')]
            if any(u in by and not any(u in c for c in conns) for u in us):
                fails.append(('eqpt_on_fused_orphan', f"Eqpt row {r['a']} -> {r['z']} on a FUSED site yields unconnected "
                              f"elements {us}"))
                orphans.update(us)
    els = [e for e in els if e['uid'] not in orphans]
    succ, pred = {}, {}
    for a, b in set(conns):
        succ.setdefault(a, set()).add(b)
        pred.setdefault(b, set()).add(a)
    # sites
    for c, t in ftypes.items():
        here = [e for e in els if e.get('metadata', {}).get('location', {}).get('city') == c]
        kinds = sorted(e['type'] for e in here)
        if t == 'ROADM':
            if [e['uid'] for e in here if e['type'] == 'Roadm'] != [f'roadm {c}'] or \
                    [e['uid'] for e in here if e['type'] == 'Transceiver'] != [f'trx {c}']:
                fails.append(('roadm_site', f'{c}: {kinds}'))
            if (f'trx {c}', f'roadm {c}') not in conns or (f'roadm {c}', f'trx {c}') not in conns:
                fails.append(('roadm_site', f'{c}: transceiver not wired'))
            # a ROADM talks to every neighbour
            if len(succ.get(f'roadm {c}', ())) != len(adj[c]) + 1 or len(pred.get(f'roadm {c}', ())) != len(adj[c]) + 1:
                fails.append(('roadm_degree', f'{c}: {len(succ.get(f"roadm {c}", ()))} egress for {len(adj[c])} links'))
        elif t == 'FUSED':
            if kinds != ['Fused', 'Fused']:
                fails.append(('fused_site', f'{c}: {kinds}'))
        else:
            if len(here) != 2 or any(k not in ('Edfa', 'Fused') for k in kinds):
                fails.append(('ila_site', f'{c}: {kinds}'))
    if sum(1 for e in els if e['type'] in ('Roadm',)) != sum(1 for t in ftypes.values() if t == 'ROADM'):
        fails.append(('roadm_site', 'number of ROADM elements'))
    # links: one fibre per direction with the values of its side
    nfib = 0
    for l in case['links']:
        for which, (a, z) in (('east', (l['a'], l['z'])), ('west', (l['z'], l['a']))):
            x = expected_side(l, which)
            uid = f"fiber ({a} {ARROW} {z})-{x['cable']}"
            e = by.get(uid)
            if e is None or e['type'] != 'Fiber':
                fails.append(('fiber_missing', uid))
                continue
            nfib += 1
            p = e['params']
            if not (close(p['length'], round(x['distance'], 3)) and p['length_units'] == 'km'
                    and e['type_variety'] == x['fiber'] and close(p['loss_coef'], x['lineic'])
                    and close(p['con_in'], x['con_in']) and close(p['con_out'], x['con_out'])):
                fails.append(('fiber_params', f'{uid}: {e.get("type_variety")} {p} expected {x}'))
            # the fibre runs from a's equipment to z's equipment
            for nb, city in ((pred.get(uid, set()), a), (succ.get(uid, set()), z)):
                for u in nb:
                    if by.get(u, {}).get('metadata', {}).get('location', {}).get('city') != city:
                        fails.append(('fiber_wiring', f'{uid}: neighbour {u} is not in {city}'))
    if nfib != sum(1 for e in els if e['type'] == 'Fiber'):
        fails.append(('fiber_extra', f'{sum(1 for e in els if e["type"] == "Fiber")} fibres for {len(case["links"])} links'))
    # line elements: exactly one predecessor and one successor
    for e in els:
        if e['type'] in ('Fiber', 'Edfa', 'Fused'):
            if len(succ.get(e['uid'], ())) != 1 or len(pred.get(e['uid'], ())) != 1:
                fails.append(('line_degree', f"{e['uid']}: {len(pred.get(e['uid'], ()))} predecessors, "
                              f"{len(succ.get(e['uid'], ()))} successors"))
    # Roadms rows: per-degree targets and impairments on the ROADM of Node A, between the named degrees
    for r in case['roadms'] or []:
        e = by.get(f"roadm {r['a']}")
        if e is None:
            fails.append(('roadm_row_without_roadm', r['a']))
            continue
        prm = e.get('params', {})
        to = f"east edfa in {r['a']} to {r['z']}"
        if r['target'] is not None and to not in prm.get('per_degree_pch_out_db', {}):
            fails.append(('roadm_row_target', f"{r['a']} -> {r['z']}: no per-degree target"))
        if r.get('fd') is not None and r.get('imp') is not None:
            ids = [int(r['imp'])] if not isinstance(r['imp'], str) else [int(x) for x in r['imp'].split(' | ')]
            for fd, i in zip(r['fd'].split(' | '), ids):
                want = {'from_degree': f"west edfa in {r['a']} to {fd}", 'to_degree': to, 'impairment_id': i}
                if want not in prm.get('per_degree_impairments', []):
                    fails.append(('roadm_row_impairment', f'{want} not on roadm {r["a"]}'))
                elif want['from_degree'] not in by or to not in by:
                    fails.append(('roadm_row_impairment', f'{want}: degree is no element'))
    nimp = sum(len(r['fd'].split(' | ')) for r in case['roadms'] or [] if r.get('fd') is not None and r.get('imp') is not None)
    if nimp != sum(len(e.get('params', {}).get('per_degree_impairments', [])) for e in els if e['type'] == 'Roadm'):
        fails.append(('roadm_row_impairment', 'number of per-degree impairments'))
    # Eqpt rows: settings on the amplifier facing the named neighbour
    no_dp = case['layout'].get('no_dp')
    for r in case['eqpts'] or []:
        a, z = r['a'], r['z']
        for which in ('east', 'west'):
            uid = f'{which} edfa in {a} to {z}'
            if uid in orphans:
                continue
            e = by.get(uid)
            if e is None:
                fails.append(('eqpt_missing', uid))
                continue
            typ = r[which]['amp_type'] or ''
            if typ.lower() == 'fused':
                if e['type'] != 'Fused':
                    fails.append(('eqpt_settings', f'{uid}: fused expected'))
            else:
                op = e.get('operational', {})
                exp = {'gain_target': r[which]['amp_gain'], 'delta_p': None if no_dp else r[which]['amp_dp'],
                       'tilt_target': r[which]['tilt'], 'out_voa': r[which]['att_out'],
                       'in_voa': r[which]['att_in'] if r[which]['att_in'] is not None else 0}
                if e['type'] != 'Edfa' or e.get('type_variety', '') != typ or set(op) != set(exp) or \
                        not all(close(op[k], exp[k]) for k in exp):
                    fails.append(('eqpt_settings', f'{uid}: {e.get("type_variety")} {op} expected {typ} {exp}'))
            if which == 'east':
                nxt = succ.get(uid, set())
                if not (len(nxt) == 1 and next(iter(nxt)).startswith(f'fiber ({a} {ARROW} {z})-')):
                    fails.append(('eqpt_facing', f'{uid} feeds {sorted(nxt)}'))
            else:
                prv = pred.get(uid, set())
                if not (len(prv) == 1 and next(iter(prv)).startswith(f'fiber ({z} {ARROW} {a})-')):
                    fails.append(('eqpt_facing', f'{uid} is fed by {sorted(prv)}'))
    return fails


def oracle_services(case, rows, out, designed_names):
    """units, route, strictness and synchronisation vectors of the requests gnpy built (`out` = its dict)"""
    fails = []
    prs = out['path-request']
    if len(prs) != len(rows):
        return [('service_count', f'{len(prs)} requests for {len(rows)} rows')]
    syn = list(out.get('synchronization', []))
    for s, pr in zip(rows, prs):
        te = pr['path-constraints']['te-bandwidth']
        f = req_shape_fail(pr)
        if f:
            fails.append(('service_shape', f))
        if pr['source'] != f"trx {s['src']}" or pr['destination'] != f"trx {s['dst']}":
            fails.append(('service_endpoints', f"{pr['source']} {pr['destination']}"))
        if not close(te.get('spacing'), s['spacing'] * 1e9):
            fails.append(('service_units', f"spacing {te.get('spacing')!r} for {s['spacing']} GHz"))
        expw = None if s['power'] is None else math.pow(10, s['power'] / 10) * 1e-3
        got = te.get('output-power')
        if not (close(got, expw) or (is_num(got) and is_num(expw) and abs(got - expw) <= 1e-9 * abs(expw))):
            fails.append(('service_units', f"power {got!r} W for {s['power']!r} dBm (expected {expw!r})"))
        expn = None if s['nbch'] is None else int(s['nbch'])
        gotn = te.get('max-nb-of-channel')
        if gotn != expn or type(gotn) is not type(expn):
            fails.append(('service_units', f"channels {gotn!r} for {s['nbch']!r}"))
        if not close(te.get('path_bandwidth'), 0 if s['bw'] is None else s['bw'] * 1e9):
            fails.append(('service_units', f"bandwidth {te.get('path_bandwidth')!r} for {s['bw']!r} Gbit/s"))
        strict = s['loose'] not in (None, '', 'yes', 'Yes', 'YES')
        for o in pr.get('explicit-route-objects', {}).get('route-object-include-exclude', []):
            if o['num-unnum-hop']['hop-type'] != ('STRICT' if strict else 'LOOSE'):
                fails.append(('service_strictness', f"{o['num-unnum-hop']['hop-type']} for cell {s['loose']!r}"))
            if o['num-unnum-hop']['node-id'] not in designed_names:
                fails.append(('service_route_name', f"{o['num-unnum-hop']['node-id']} is no element of the network"))
        ids = [] if s['disj'] is None else \
            ([str(int(s['disj']))] if not isinstance(s['disj'], str) else s['disj'].split(' | '))
        if ids:
            if not syn:
                fails.append(('service_sync', f"no synchronisation vector for request {pr['request-id']}"))
                continue
            v = syn.pop(0)
            if v['synchronization-id'] != pr['request-id'] or v['svec']['request-id-number'] != [pr['request-id']] + ids \
                    or v['svec']['relaxable'] is not False or v['svec']['disjointness'] != 'node link':
                fails.append(('service_sync', f"{v} for 'disjoint from' {s['disj']!r}"))
    if syn:
        fails.append(('service_sync', f'{len(syn)} synchronisation vectors without a row'))
    return fails


# ------------------------------------------------------------------ header recognition stream
SIDE_FIELDS = {'Distance (km)': '_distance', 'Fiber type': '_fiber', 'lineic att': '_lineic', 'Con_in': '_con_in',
               'Con_out': '_con_out', 'PMD': '_pmd', 'Cable id': '_cable'}
AMP_FIELDS = {'amp type': '_amp_type', 'amp gain': '_amp_gain', 'delta p': '_amp_dp', 'tilt': '_tilt_vs_wavelength',
              'att_out': '_att_out', 'att_in': '_att_in'}
HDR_SPECS = {
    'Nodes': (0, {'City': 'city', 'State': 'state', 'Country': 'country', 'Region': 'region', 'Latitude': 'latitude',
                  'Longitude': 'longitude', 'Type': 'node_type', 'Booster_restriction': 'booster_restriction',
                  'Preamp_restriction': 'preamp_restriction'}, 4, 10),
    'Links': (1, {'Node A': 'from_city', 'Node Z': 'to_city', 'east': {k: 'east' + v for k, v in SIDE_FIELDS.items()},
                  'west': {k: 'west' + v for k, v in SIDE_FIELDS.items()}}, 3, 16),
    'Eqpt': (2, {'Node A': 'from_city', 'Node Z': 'to_city', 'east': {k: 'east' + v for k, v in AMP_FIELDS.items()},
                 'west': {k: 'west' + v for k, v in AMP_FIELDS.items()}}, 3, 14),
    'Roadms': (3, dict(zip(ROADM_HDR, ['from_node', 'to_node', 'target_pch_out_db', 'type_variety', 'from_degrees',
                                      'impairment_ids'])), 3, 6),
    'Service': (4, dict(zip(SVC_HDR, ['request_id', 'source', 'destination', 'trx_type', 'mode', 'spacing', 'power',
                                      'nb_channel', 'disjoint_from', 'nodes_list', 'is_loose', 'path_bandwidth'])), 4, 12),
}


def all_labels(d):
    out = []
    for k, v in d.items():
        out.append(k)
        if isinstance(v, dict):
            out += list(v)
    return out


def gen_header_grid(rng, base):
    """a sheet of a valid workbook, disturbed: optional columns removed, labels padded / duplicated / embedded in
    other cells (a site called 'east', a state called 'Type A'), numbers in header lines, header lines moved"""
    name = rng.choice([k for k in sheet_grids(base)] * 1)
    rows = [list(r) for r in sheet_grids(base)[name]][:14]
    kid, d, line, ncol = HDR_SPECS[name]
    width = max(len(r) for r in rows)
    rows = [r + [None] * (width - len(r)) for r in rows]
    labels = all_labels(d)
    for _ in range(rng.choice([0, 0, 1, 1, 2, 3])):
        k = rng.random()
        if k < 0.3 and width > 2:
            # remove a column (an optional header disappears with its data)
            c = rng.randrange(1 if name == 'Nodes' else 2, width)
            rows = [r[:c] + r[c + 1:] for r in rows]
            width -= 1
        elif k < 0.55:
            # a cell containing a label somewhere in the first lines
            lab = rng.choice(labels)
            r, c = rng.randrange(0, len(rows)), rng.randrange(0, width)
            rows[r][c] = rng.choice([lab, lab + ' x', 'North' + lab, f' {lab} ', lab.lower()])
        elif k < 0.7:
            r, c = rng.randrange(2, min(len(rows), 7)), rng.randrange(0, width)
            rows[r][c] = rng.choice([0, 1, 2.5])
        elif k < 0.85:
            rows.insert(rng.randrange(0, 5), [None] * width)
            rows = rows[:14]
        else:
            r = rng.randrange(3, min(len(rows), 6))
            rows[r] = [None if rng.random() < 0.5 else v for v in rows[r]]
    return {'sheet': name, 'grid': rows, 'fmt': rng.choice(['xls', 'xlsx'])}


def drive_headers(hc, tmpdir, k):
    """gnpy's parse_headers on the grid: ordered [[column, field], ...] or the error"""
    from gnpy.tools.convert import parse_headers
    kid, d, line, ncol = HDR_SPECS[hc['sheet']]
    if hc['fmt'] == 'xlsx':
        import openpyxl
        from gnpy.tools.xls_utils import generic_open_workbook, get_sheet
        wb = openpyxl.Workbook()
        ws = wb.active
        ws.title = hc['sheet']
        for r in hc['grid']:
            ws.append(list(r))
        p = Path(tmpdir) / f'h{k}.xlsx'
        wb.save(p)
        wbk, is_xlsx = generic_open_workbook(p)
        sh = get_sheet(wbk, hc['sheet'], is_xlsx)
    else:
        sh, is_xlsx = FakeSheet(hc['sheet'], hc['grid']), False
    try:
        hd = parse_headers(sh, is_xlsx, d, {}, line, (0, ncol))
        return [[c, f] for c, f in hd.items()]
    except Exception as e:
        if type(e).__name__ == 'NetworkTopologyError':
            return 'E:NetworkTopologyError:' + ('missing_header' if 'missing header' in str(e) else 'no_header')
        return f'E:{type(e).__name__}'


def grid_term(hc):
    def c(v):
        if v is None or v == '':
            return 'xE'
        if isinstance(v, str):
            return f'(xT {strlit(v)})'
        return f'(xN {qlit(v)})'
    return f"hdr_case {HDR_SPECS[hc['sheet']][0]} {listlit([listlit([c(v) for v in r]) for r in hc['grid']])}"


# ------------------------------------------------------------------ the run
def coq_eval(*a, **k):
    """common.coq_eval, retried when a coqc shard dies without any message (killed on a loaded machine);
    a real Coq error carries a message and is raised at once"""
    for attempt in range(3):
        try:
            return common.coq_eval(*a, **k)
        except RuntimeError as e:
            body = str(e).split('\n', 1)[1].strip() if '\n' in str(e) else ''
            if attempt == 2 or 'coqc failed' not in str(e) or body:
                raise
            time.sleep(5 + 10 * attempt)


def shard(terms, least):
    """cases per generated file: 16 files (one per core), coqc start-up dominates small files"""
    return max(least, -(-len(terms) // 16))


class Timer:
    def __init__(self):
        self.t = {}

    def add(self, key, t0):
        import time
        self.t[key] = round(self.t.get(key, 0.0) + time.time() - t0, 3)


TM = Timer()


def strip(case):
    return {k: v for k, v in case.items() if not k.startswith('_')}


def run(ctx):
    rng = ctx.rng
    logging.disable(logging.CRITICAL)
    t0 = time.time()
    # translator tie: regenerate Gen/SheetGen.v from the source tree before the proofs are re-checked
    from . import pygen_c20
    gen_ok, gen_msg = pygen_c20.regenerate()
    ctx.proof = common.check_props('C20')
    if not gen_ok:
        ctx.proof['ok'] = False
        ctx.proof['log'] = 'harness/pygen_c20.py: ' + gen_msg + '\n' + ctx.proof.get('log', '')
        ctx.proof['failed_file'] = 'theories/Gen/SheetGen.v (translation of the source of convert.py / service_sheet.py failed)'
    TM.add('proofs', t0)
    equipment()
    ctx.rule = ('random workbooks: 2-5 (thorough: up to 10) junction sites joined by chains of 0-3 line sites, types '
                'ROADM/ILA/FUSED/blank/unknown strings incl. ILA declared on degree != 2, random row orientation and '
                'order, one- and two-sided Links rows (defaults, rounding ties, PMD, cable ids), Eqpt rows for a random '
                'subset of directions (typed / untyped / fused amplifiers), Roadms rows, column permutations, .xlsx files '
                'and in-memory xlrd look-alikes, the shipped fixtures; 0-6 service rows; a malformed stream violating '
                'exactly one sanity rule; a case is non-trivial when it has a line site and an Eqpt or two-sided row; '
                'distinct by content hash')
    valid, malformed = [], []
    corpus, corpus_hdr = [], []
    for f in sorted(glob.glob(os.path.join(common.VERIF, 'corpus', 'C20', '*.json'))):
        c = json.load(open(f))
        c['_corpus'] = os.path.basename(f)
        if 'grid' in c:
            corpus_hdr.append(c)
        else:
            corpus.append(c)
    replay_rows = []
    replay_hdr = None
    if ctx.replay:
        rc = json.load(open(ctx.replay))['case']
        if 'grid' in rc:
            corpus, replay_hdr = [], rc
        elif 'service_row' in rc:
            corpus, replay_rows = [], [rc['service_row']]
        else:
            corpus = [rc]
    else:
        nvalid = ctx.scale(130, 1000)
        nbig = ctx.scale(3, 15)
        nmal = ctx.scale(96, 480)
        valid = [gen_case(rng) for _ in range(nvalid)] + [gen_case(rng, big=True) for _ in range(nbig)]
        for c in valid:
            if rng.random() < 0.9:
                c['services'] = gen_services(rng, c)
                c['svc_modelled'] = True
        kinds = RULES + ['missing_header', 'impairment_mismatch', 'eqpt_on_fused']
        k = 0
        while len(malformed) < nmal and k < 20 * nmal:
            k += 1
            m = mutate(rng, rng.choice(valid[:nvalid]), kinds[len(malformed) % len(kinds)] if k < 10 * nmal else rng.choice(kinds))
            if m is not None:
                malformed.append(m)
        # shipped workbooks
        import gnpy
        roots = [Path(common.REPO) / 'tests' / 'data', Path(gnpy.__file__).parent / 'example-data']
        for root in roots:
            for p in sorted(list(root.glob('*.xls')) + list(root.glob('*.xlsx'))):
                if p.stat().st_size > 400000 and not ctx.thorough:
                    ctx.count('fixture_skipped_large')
                    continue
                try:
                    fx = read_fixture(p)
                except Exception:
                    fx = None
                if fx is None or not typed_ok(fx):
                    ctx.count('fixture_not_in_model_scope')
                    continue
                ctx.count('fixture')
                valid.append(fx)
    cases = corpus + valid + malformed
    terms, meta = [], []
    svc_terms, svc_meta = [], []
    with tempfile.TemporaryDirectory(prefix='c20_') as tmp, Books() as books, \
            contextlib.redirect_stdout(io.StringIO()):
        for k, c in enumerate(cases):
            t0 = time.time()
            path = books.materialise(c, tmp, k)
            TM.add('write', t0)
            rule = c.get('rule')
            t0 = time.time()
            data, exc = drive_convert(path)
            TM.add('convert', t0)
            ctx.count('fmt_' + c['fmt'])
            ctx.count('stream_' + ('malformed_' + rule if rule else 'valid'))
            ftypes = final_types(c) if exc is None else {}
            nontriv = any(t != 'ROADM' for t in ftypes.values()) and \
                (bool(c['eqpts']) or any(any(v is not None for v in l['west'].values()) for l in c['links']))
            ctx.case(strip(c), nontriv)
            impl = classify_exc(exc) if exc is not None else None
            # ---- oracle
            if rule is None:
                if exc is not None:
                    if c.get('fixture'):
                        ctx.count('fixture_rejected')
                    else:
                        ctx.violation('valid_workbook_rejected', f'{type(exc).__name__}: {str(exc)[:200]}', strip(c))
                else:
                    for t in ftypes.values():
                        ctx.count('site_' + t)
                    ctx.count('links', len(c['links']))
                    ctx.count('links_two_sided', sum(1 for l in c['links'] if any(v is not None for v in l['west'].values())))
                    ctx.count('eqpt_rows', len(c['eqpts'] or []))
                    ctx.count('ila_declared_on_other_degree',
                              sum(1 for n in c['nodes'] if norm_type(n['type']) == 'ILA' and ftypes[n['city']] == 'ROADM'))
                    for key, desc in safely(ctx, 'topology', c, oracle_topology, c, data):
                        ctx.violation(key, desc, strip(c))
                    t0 = time.time()
                    try:
                        if c.get('no_design'):
                            from gnpy.tools.json_io import network_from_json
                            raw, net = network_from_json(copy.deepcopy(data), equipment()), None
                            ctx.count('design_not_judged_free_impairment_ids')
                        else:
                            raw, net = try_design(data)
                            ctx.count('designed_ok')
                    except Exception as e:
                        raw = net = None
                        if c.get('fixture'):
                            # shipped workbooks may use amplifier types of another library
                            ctx.count('fixture_not_designed')
                        else:
                            ctx.violation('design_fails_on_converted', f'{type(e).__name__}: {str(e)[:200]}', strip(c))
                    TM.add('design', t0)
                    if c['fmt'] == 'xlsx' and not c.get('fixture') and k % 5 == 0:
                        from gnpy.tools.convert import convert_file
                        out = convert_file(Path(path))
                        if json.load(open(out, encoding='utf-8')) != json.loads(json.dumps(data)):
                            ctx.violation('convert_file_differs', 'file written by convert_file != xls_to_json_data', strip(c))
                        ctx.count('convert_file')
                    if c.get('services') is not None and raw is not None:
                        t0 = time.time()
                        safely(ctx, 'services_driver', c, run_services, ctx, c, path, raw, net, svc_terms, svc_meta)
                        TM.add('services', t0)
            elif rule is not None:
                if exc is None:
                    ctx.violation('malformed_converted:' + rule,
                                  f'workbook violating {rule} was converted ({len(data["elements"])} elements)', strip(c))
                elif type(exc).__name__ != 'NetworkTopologyError':
                    ctx.violation('malformed_wrong_error:' + rule, f'{type(exc).__name__}: {str(exc)[:200]}', strip(c))
                else:
                    ctx.count('rejected_' + rule)
                    if rule in RULES + ['missing_header', 'impairment_mismatch'] and impl != f'NetworkTopologyError:{rule}':
                        ctx.violation('malformed_other_rule:' + rule, f'rejected by {impl}', strip(c))
            # ---- model
            if rule == 'missing_header':
                continue
            if not typed_ok(c):
                ctx.count('not_typed')
                continue
            terms.append(f'conv_case {rows_term(c)}')
            meta.append((c, data, impl, exc))
        # header recognition on disturbed sheets
        hdr_cases, hdr_impl = [], []
        if not ctx.replay:
            hdr_cases += corpus_hdr
            src = [c for c in valid if not c.get('fixture')]
            for k in range(ctx.scale(120, 1500) if src else 0):
                hc = gen_header_grid(rng, rng.choice(src))
                hdr_cases.append(hc)
        elif replay_hdr is not None:
            hdr_cases = [replay_hdr]
        t0 = time.time()
        for k, hc in enumerate(hdr_cases):
            hdr_impl.append(drive_headers(hc, tmp, k))
        TM.add('headers', t0)
        # Request_element alone, on directly built Request objects (row by row)
        req_rows = list(replay_rows)
        if not ctx.replay:
            base = [c for c in valid if c.get('services')]
            for c in base[:ctx.scale(50, 500)]:
                for s in c['services']:
                    s = dict(s)
                    k = rng.random()
                    if k < 0.1:
                        s['trx'] = rng.choice(['NoSuchTrx', None, 7, 7.0])
                    elif k < 0.2:
                        s['mode'] = rng.choice(['mode 9', 5, 'mode 1'])
                    elif k < 0.3:
                        s['spacing'] = rng.choice([None, 0, 0.0])
                    if rng.random() < 0.1:
                        s['src'] = None
                    req_rows.append(s)
        req_results = [drive_request(s, k % 2 == 0) for k, s in enumerate(req_rows)]
    # ---------------- model evaluation and comparison
    t0 = time.time()
    lines = coq_eval('C20', 'Prelude Model.Sheet Run.C20', terms, per_file=shard(terms, 8), prelude='From Coq Require Import QArith.')
    for (c, data, impl, exc), line in zip(meta, lines):
        if line.startswith('E:'):
            if impl is None:
                ctx.corr_break('corr:Sheet.convert', 'model rejects, gnpy converts', strip(c), impl='converted', model=line)
                if line.startswith('E:NetworkTopologyError:'):
                    # C20_sanity_rejects: a broken rule must give a topology error, never a network
                    ctx.violation('invalid_workbook_converted:' + line.split(':')[-1],
                                  f'the workbook breaks rule {line.split(":")[-1]} (proved model) but gnpy converted it '
                                  f'({len(data["elements"])} elements)', strip(c))
            elif impl != line[2:]:
                ctx.corr_break('corr:Sheet.convert', 'different rejection', strip(c), impl=f'{impl} ({str(exc)[:120]})', model=line)
            else:
                ctx.count('corr_rejections_agree')
        else:
            if impl is not None:
                ctx.corr_break('corr:Sheet.convert', 'model converts, gnpy rejects', strip(c), impl=f'{impl} ({str(exc)[:120]})',
                               model='converted')
                # validity judged by the proved model (C20_accepted_is_sane / C20_convert_errors: it converts exactly when
                # every sanity rule holds): a workbook satisfying all rules must be converted
                ctx.violation('valid_workbook_rejected',
                              f'every sanity rule holds (the proved model converts the workbook) but gnpy raises '
                              f'{type(exc).__name__}: {str(exc)[:160]}', strip(c))
                continue
            d = same(canon_net_model(line), canon_net_impl(data))
            if d:
                ctx.corr_break('corr:Sheet.convert', d, strip(c))
                # the model's network is the one the theorems of Props/C20.v are about: elements, parameters and wiring
                # of an accepted workbook must be exactly these
                ctx.violation('converted_network_differs',
                              f'every sanity rule holds and both convert, but gnpy\'s network differs from the proved one at '
                              f'{d[:200]}', strip(c))
            else:
                ctx.count('corr_networks_agree')
    TM.add('coq_convert', t0)
    # services through read_service_sheet
    t0 = time.time()
    lines = coq_eval('C20', 'Prelude Model.Sheet Run.C20', svc_terms, per_file=shard(svc_terms, 8), tag='svc',
                            prelude='From Coq Require Import QArith.')
    for (c, out, impl), line in zip(svc_meta, lines):
        if line.startswith('E:'):
            if impl != line[2:]:
                ctx.corr_break('corr:Sheet.read_service_sheet', 'different outcome', strip(c),
                               impl=impl or 'converted', model=line)
                if impl is None and line.startswith('E:ServiceError:'):
                    ctx.violation('invalid_service_accepted:' + line.split(':')[-1],
                                  f'the Service sheet must be refused ({line[2:]}, model) but read_service_sheet built '
                                  f'{len(out["path-request"])} requests', strip(c))
            else:
                ctx.count('corr_service_errors_agree')
            continue
        if impl is not None:
            ctx.corr_break('corr:Sheet.read_service_sheet', 'model converts, gnpy raises', strip(c), impl=impl, model='converted')
            # validity judged by the model: known transceiver / mode, spacing given, end points are transceivers of the
            # network, every STRICT hop can be named -> each row must become one request
            ctx.violation('valid_service_rejected',
                          f'the Service sheet satisfies every rule (the model builds {len(json.loads(line))} requests) '
                          f'but read_service_sheet raises {impl}', strip(c))
            continue
        ms = [canon_req_model(decode_req(m), False) for m in json.loads(line)]
        try:
            d = same([m for m, _ in ms], [canon_req_impl(pr) for pr in out['path-request']])
            if not d:
                d = same([[s[0], s[1]] for _, s in ms if s is not None],
                         [[v['synchronization-id'], v['svec']['request-id-number']] for v in out.get('synchronization', [])])
        except Exception as e:      # gnpy's document has not even the shape of a request list
            d = f'unreadable output: {type(e).__name__}: {str(e)[:120]}'
        if d:
            ctx.corr_break('corr:Sheet.read_service_sheet', d, strip(c))
            # both build the requests but not the same ones: the row's request is not the one the sheet describes
            import re as _re
            mrow = _re.match(r'\[(\d+)\]\.?(\w[\w-]*)?', d)
            k = int(mrow.group(1)) if mrow else None
            field = (mrow.group(2) if mrow else None) or 'request'
            key = 'service_route_differs' if field in ('route', 'loose') else 'service_request_differs'
            row = c['services'][k] if k is not None and k < len(c['services']) else None
            ctx.violation(key, f'Service row {k} ({row}): gnpy\'s request differs from the proved model\'s at {d[:200]}',
                          dict(strip(c), failing_row=k))
        else:
            ctx.count('corr_service_sheets_agree')
    TM.add('coq_services', t0)
    # header recognition
    t0 = time.time()
    lines = coq_eval('C20', 'Prelude Model.Sheet Run.C20', [grid_term(hc) for hc in hdr_cases], per_file=shard(hdr_cases, 10),
                     tag='hdr', prelude='From Coq Require Import QArith.')
    for hc, impl, line in zip(hdr_cases, hdr_impl, lines):
        model = line if line.startswith('E:') else json.loads(line)
        ctx.count('header_grids')
        if model != impl:
            ctx.corr_break('corr:Sheet.parse_headers', f"sheet {hc['sheet']}", hc, impl=impl, model=model)
        else:
            ctx.count('header_' + ('rejected' if isinstance(impl, str) else 'mapped'))
            if not isinstance(impl, str):
                kid, d, _, _ = HDR_SPECS[hc['sheet']]
                nf = len(all_labels(d)) - sum(1 for v in d.values() if isinstance(v, dict))
                if len({f for _, f in impl}) < nf:
                    ctx.count('header_some_fields_unmapped')
    TM.add('coq_headers', t0)
    # Request_element rows
    t0 = time.time()
    rterms = [f'req_case {equip_term()} {"true" if k % 2 == 0 else "false"} {listlit([req_row_term(s)])}'
              for k, s in enumerate(req_rows)]
    lines = coq_eval('C20', 'Prelude Model.Sheet Run.C20', rterms, per_file=shard(rterms, 20), tag='req',
                            prelude='From Coq Require Import QArith.')
    for s, res, line in zip(req_rows, req_results, lines):
        m = json.loads(line)[0]
        ctx.count('request_rows')
        if isinstance(m, str):
            if res.get('exc') != m[2:]:
                ctx.corr_break('corr:Sheet.request_element', 'different outcome', {'service_row': s},
                               impl=res.get('exc') or 'built', model=m)
            else:
                ctx.count('request_rows_rejected_' + m.split(':')[-1])
            continue
        if 'exc' in res:
            ctx.corr_break('corr:Sheet.request_element', 'model builds, gnpy raises', {'service_row': s}, impl=res['exc'], model='built')
            ctx.violation('valid_service_row_rejected',
                          f'the row names a known transceiver / mode and a spacing (C20_service_spec: the model builds the '
                          f'request) but Request_element raises {res["exc"]}', {'service_row': s})
            continue
        mm, sync = canon_req_model(decode_req(m), True)
        try:
            d = same(mm, canon_req_impl(res['pr'], res['loose']))
            if not d:
                isync = None if res['sync'] is None else [res['sync']['synchronization-id'], res['sync']['svec']['request-id-number']]
                d = same(sync, isync, 'sync')
        except Exception as e:
            d = f'unreadable output: {type(e).__name__}: {str(e)[:120]}'
        if d:
            ctx.corr_break('corr:Sheet.request_element', d, {'service_row': s})
            ctx.violation('service_row_differs', f'Request_element builds a request that differs from the model\'s '
                          f'(C20_service_spec) at {d[:200]}', {'service_row': s})
    TM.add('coq_requests', t0)
    ctx.extra['timing_s'] = TM.t
    ctx.assumptions += [
        'cell reading is done by openpyxl (real .xlsx files) and, for the .xls branch, by in-memory look-alikes of '
        'xlrd sheets served through gnpy.tools.xls_utils.open_workbook (xlwt is unavailable); real .xls parsing is '
        'exercised only by the shipped fixtures',
        'the workbook-level model takes parsed, typed rows; header recognition (read_header / read_slice / parse_headers) '
        'is modelled separately and compared on disturbed sheets (columns removed, labels embedded in other cells, numbers '
        'in header lines, lines shifted); region filtering and wrongly typed cells are outside the model; in .xlsx files '
        'impairment ids are written as text (openpyxl hands integers over as int, which transform_data does not accept)',
        'route-name correction (corresp_names, corresp_next_node, find_node_sugestion, correct_xls_route_list) is modelled '
        'in full on the network before auto-design; on the designed network (auto-design amplifier names, split fibres) '
        'the result is judged by the oracle only',
        'translator tie: harness/pygen_c20.py (fail-closed template matching + translation of the field mappings, '
        'defaults, rule conditions and unit conversions of convert.py / service_sheet.py into Gen/SheetGen.v, proved equal '
        'to the model in Proofs/SheetGen.v)',
        'dBm -> W and pmd_coef use transcendental functions: compared against math.pow / as squares',
    ]
    return common.finish(ctx, MATCHERS)


def drive_request(s, bidir):
    from gnpy.tools.service_sheet import Request, Request_element
    params = {'request_id': s['id'], 'source': s['src'], 'destination': s['dst'], 'trx_type': s['trx'], 'mode': s['mode'],
              'spacing': s['spacing'], 'power': s['power'], 'nb_channel': s['nbch'], 'disjoint_from': s['disj'],
              'nodes_list': s['path'], 'is_loose': s['loose'], 'path_bandwidth': s['bw']}
    try:
        r = Request_element(Request(**params), equipment(), bidir)
        pr, sync = r.json
        return {'pr': pr, 'sync': sync, 'loose': r.loose}
    except Exception as e:
        return {'exc': classify_exc(e)}


def run_services(ctx, c, path, raw, net, svc_terms, svc_meta):
    """read_service_sheet on the undesigned network (compared with the model) and on the designed one (oracle)"""
    from gnpy.tools.service_sheet import read_service_sheet
    eq = equipment()
    bidir = len(c['services']) % 2 == 0
    ctx.count('service_sheets')
    ctx.count('service_rows', len(c['services']))
    if c.get('svc_modelled'):
        try:
            out, impl = read_service_sheet(path, eq, raw, network_filename=path, bidir=bidir), None
        except Exception as e:
            out, impl = None, classify_exc(e)
        ftypes = final_types(c)
        for srow in c['services']:
            for h in (srow['path'] or '').split(' | ') if srow['path'] else []:
                ctx.count('route_hop_' + ('line_site_name' if ftypes.get(h) in ('ILA', 'FUSED') else
                                          'roadm_site_name' if ftypes.get(h) == 'ROADM' else
                                          'uid' if any(h.startswith(x) for x in ('roadm ', 'trx ', 'fiber ', 'east ', 'west ')) else 'unknown'))
        if out is not None:
            for pr in out['path-request']:
                for o in pr.get('explicit-route-objects', {}).get('route-object-include-exclude', []):
                    nid = o['num-unnum-hop']['node-id']
                    ctx.count('route_result_' + ('amplifier_or_fused' if nid.startswith(('east ', 'west ')) else 'roadm'))
        svc_terms.append(f'svc_case {rows_term(c)} {equip_term()} {"true" if bidir else "false"} '
                         f'{listlit([req_row_term(s) for s in c["services"]])}')
        svc_meta.append((c, out, impl))
    if net is None:
        return
    try:
        out = read_service_sheet(path, eq, net, network_filename=path, bidir=bidir)
    except Exception as e:
        if type(e).__name__ != 'ServiceError':
            ctx.violation('service_sheet_crash', f'{type(e).__name__}: {str(e)[:200]}', strip(c))
        else:
            ctx.count('service_sheet_rejected')
        return
    names = {n.uid for n in net.nodes()}
    for key, desc in safely(ctx, 'services', c, oracle_services, c, c['services'], out, names):
        ctx.violation(key, desc, strip(c))


# ------------------------------------------------------------------ open known findings (see known_findings.json)
def _is(rule, keys):
    return lambda v: v.get('case', {}).get('rule') == rule and v['key'].split(':')[0] in keys


MATCHERS = {
    'C20-eqpt-on-fused': lambda v: v['key'] == 'eqpt_on_fused_orphan' or _is('eqpt_on_fused', ('malformed_converted',))(v),
}
