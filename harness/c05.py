"""C05 — Fibre spans apply exactly their loss budget and accumulate CD, PMD, PDL, latency.

Tie (Raman off, exact): random fibres (1 m - 300 km, scalar / per-frequency loss, lumped losses, connectors,
padding, three dispersion models) x random spectra are driven through the real `Fiber.__call__` and through the
Gallina model `Verif.Model.Fiber` (exact rationals, dB domain); per-channel output power, CD, PMD, PDL, latency
and `Fiber.loss` are compared.  Designed random line systems (ROADM / Edfa / Fiber / Fused) are propagated
element by element and compared with `propagate_path`; every permutation of <= 5 span units is re-propagated
on the real elements.  `RamanSolver._create_lumped_losses` and the Euler ('numerical') Raman scheme are compared
exactly with `merge_grid` / `euler`.  Independently the property itself is evaluated on the implementation's own
observations (oracle).  The for-all part is Props/C05.v.

Raman on (PARTIAL by design): the low-power limit of the numerical method is compared with the proved
zero-power closed form and discretisation bound; everything else about the Raman solver (perturbative orders 1-4 vs numerical,
iterative co/counter algorithm, counter-pump gain) is a NUMERICAL TEST with measured tolerances — labelled
as such in ctx.notes / the evidence.
"""
import copy
import glob
import re
import itertools
import json
import logging
import math
import os
import sys
import time
from fractions import Fraction as Fr

import numpy as np

from . import common
from .common import qlit, listlit

sys.set_int_max_str_digits(0)        # exact rationals coming back from Coq can have thousands of digits

C_LIGHT = 299792458.0
N1 = 1.468
LOG10E10 = 10 * math.log10(math.e)


# ------------------------------------------------------------------ small helpers
def loguni(rng, a, b):
    return math.exp(rng.uniform(math.log(a), math.log(b)))


def lin_interp(pts, x):
    """independent piecewise-linear interpolation (floats); None outside the table"""
    pts = sorted(pts)
    if x < pts[0][0] or x > pts[-1][0]:
        return None
    for (x0, y0), (x1, y1) in zip(pts, pts[1:]):
        if x0 <= x <= x1:
            return y0 + (y1 - y0) * (x - x0) / (x1 - x0)
    return None


def positions_dup(lumped):
    pos = [l['position'] for l in lumped]
    return len(set(pos)) != len(pos)


def first_occurrence_sum(lumped):
    seen, s = set(), 0.0
    for l in lumped:
        if l['position'] not in seen:
            seen.add(l['position'])
            s += l['loss']
    return s


def strip(case):
    return {k: v for k, v in case.items() if not k.startswith('_')}


# ------------------------------------------------------------------ generators
def gen_spectrum(rng, fmin, fmax, nmax=10):
    n = rng.choice([1, 2, 3, 4, 6, 8, nmax])
    base = rng.choice([(32e9, 50e9), (32e9, 37.5e9), (64e9, 75e9), (42e9, 50e9)])
    f = [fmin + rng.uniform(0, (fmax - fmin) * 0.15)]
    baud, slot = [base[0]], [base[1]]
    for _ in range(n - 1):
        b, s = base if rng.random() < 0.7 else rng.choice([(32e9, 50e9), (64e9, 75e9), (42e9, 50e9)])
        nxt = f[-1] + slot[-1] / 2 + s / 2 + rng.choice([0.0, 12.5e9, rng.uniform(0, 6e11)])
        if nxt + s / 2 > fmax:
            break
        f.append(nxt)
        baud.append(b)
        slot.append(s)
    n = len(f)
    zero = rng.random() < 0.4
    perm = list(range(n))
    rng.shuffle(perm)       # order in which the channels are handed to SpectralInformation (it sorts by frequency)
    return {'f': f, 'baud': baud, 'slot': slot, 'perm': perm,
            'p': [loguni(rng, 1e-6, 1e-2) for _ in range(n)],
            'cd': [0.0 if zero else rng.uniform(0, 2e-3) for _ in range(n)],
            'pmd': [0.0 if zero else rng.uniform(0, 3e-12) for _ in range(n)],
            'pdl': [0.0 if zero else rng.uniform(0, 1.5) for _ in range(n)],
            'lat': [0.0 if zero else rng.uniform(0, 5e-3) for _ in range(n)]}


def gen_table(rng, fmin, fmax, lo, hi, nmin, cover=True):
    n = rng.randint(nmin, 6)
    if cover:
        a, b = fmin - rng.uniform(1e9, 5e11), fmax + rng.uniform(1e9, 5e11)
    else:   # the table stops inside the spectrum
        a, b = (fmin + 0.3 * (fmax - fmin), fmax + 1e11) if rng.random() < 0.5 else (fmin - 1e11, fmin + 0.6 * (fmax - fmin))
    fr = [a, b] + [rng.uniform(a, b) for _ in range(n - 2)]
    fr = sorted(set(fr))
    if rng.random() < 0.3:
        rng.shuffle(fr)
    return {'value': [rng.uniform(lo, hi) for _ in fr], 'frequency': fr}


def gen_fiber_params(rng, fmin, fmax, lmin=1e-3, lmax=300.0, stream='valid', p_dup=0.04, p_disp_table=0.2):
    """params dict as accepted by Fiber(params=...) / a topology JSON; all values plain floats"""
    if rng.random() < 0.15:
        L = rng.choice([80.0, 100.0, 50.0, max(lmin, 0.001), lmax])
    else:
        L = loguni(rng, lmin, lmax)
    L = min(max(L, lmin), lmax)
    km = rng.random() < 0.7
    p = {'length': L if km else L * 1e3, 'length_units': 'km' if km else 'm',
         'con_in': 0.0 if rng.random() < 0.1 else rng.uniform(0, 2),
         'con_out': 0.0 if rng.random() < 0.1 else rng.uniform(0, 2),
         'att_in': 0.0 if rng.random() < 0.5 else rng.uniform(0, 6),
         'pmd_coef': rng.uniform(1e-16, 3e-15)}
    if rng.random() < 0.6:
        p['loss_coef'] = rng.uniform(0.15, 0.4)
    else:
        p['loss_coef'] = gen_table(rng, fmin, fmax, 0.15, 0.4, 2, cover=stream != 'loss_table_short')
    if stream == 'loss_table_short' and not isinstance(p['loss_coef'], dict):
        p['loss_coef'] = gen_table(rng, fmin, fmax, 0.15, 0.4, 2, cover=False)
    r = rng.random()
    if r < 0.2:
        p['ref_frequency'] = rng.uniform(fmin, fmax)
    elif r < 0.3:
        p['ref_wavelength'] = rng.uniform(1530e-9, 1565e-9)
    dk = 'table' if rng.random() < p_disp_table else rng.choice(['default', 'scalar', 'scalar', 'slope'])
    if stream == 'disp_table_short':
        dk = 'table'
    if dk == 'scalar':
        p['dispersion'] = rng.uniform(1e-6, 2.2e-5)
    elif dk == 'slope':
        p['dispersion'] = rng.uniform(1e-6, 2.2e-5)
        p['dispersion_slope'] = rng.uniform(20.0, 90.0)
    elif dk == 'table':
        p['dispersion_per_frequency'] = gen_table(rng, fmin, fmax, 1e-6, 2.2e-5, 3, cover=stream != 'disp_table_short')
    else:
        p['dispersion'] = 1.67e-05      # what the library default supplies
    nl = rng.choice([0, 0, 0, 1, 1, 2, 3, 4])
    lumped = []
    for _ in range(nl):
        pos = rng.uniform(0.002, 0.998) * L if rng.random() < 0.8 else round(rng.uniform(0.05, 0.95) * L, 3)
        if not (0 < pos < L):
            pos = 0.5 * L
        lumped.append({'position': pos, 'loss': 0.0 if rng.random() < 0.05 else rng.uniform(0.05, 3.0)})
    if stream == 'valid' and nl >= 2 and rng.random() < p_dup:
        lumped[-1]['position'] = lumped[0]['position']          # legal input, same place (e.g. two splices in one box)
    if stream == 'lumped_oob':
        bad = rng.choice([-rng.uniform(0.1, 5), L + rng.uniform(0.01, 5), L * 1.5 + 1, -1e-3])
        lumped.insert(rng.randint(0, len(lumped)), {'position': bad, 'loss': rng.uniform(0.05, 3.0)})
    if lumped or rng.random() < 0.3:
        p['lumped_losses'] = lumped
    return p


def gen_fiber_case(rng):
    r = rng.random()
    stream = 'valid' if r < 0.9 else rng.choice(['lumped_oob', 'loss_table_short', 'disp_table_short'])
    fmin, fmax = rng.choice([(191.3e12, 196.1e12), (186.0e12, 190.5e12), (184.5e12, 196.1e12)])
    spec = gen_spectrum(rng, fmin, fmax)
    return {'kind': 'fiber', 'stream': stream, 'params': gen_fiber_params(rng, min(spec['f']), max(spec['f']), stream=stream),
            'spectrum': spec}


def gen_eqpt(rng, base):
    eq = copy.deepcopy(base)
    for a in eq['Edfa']:
        a['pmd'] = 0.0 if rng.random() < 0.2 else rng.uniform(0, 2e-12)
        a['pdl'] = 0.0 if rng.random() < 0.2 else rng.uniform(0, 0.6)
    plain = {'type_variety': 'r_plain', 'target_pch_out_db': -20, 'add_drop_osnr': 38,
             'pmd': rng.uniform(0, 4e-12), 'pdl': rng.uniform(0, 1.5),
             'restrictions': {'preamp_variety_list': [], 'booster_variety_list': []}, 'roadm-path-impairments': []}

    def bands():
        cut = rng.uniform(192.5e12, 195e12)
        rngs = [(191.0e12, cut), (cut + 1e6, 196.5e12)] if rng.random() < 0.6 else [(191.0e12, 196.5e12)]
        return [{'frequency-range': {'lower-frequency': lo, 'upper-frequency': hi},
                 'roadm-pmd': rng.uniform(0, 4e-12), 'roadm-cd': 0, 'roadm-pdl': rng.uniform(0, 1.5),
                 'roadm-inband-crosstalk': 0, 'roadm-maxloss': rng.uniform(3, 10), 'roadm-osnr': 41,
                 'roadm-pmax': 2.5, 'roadm-noise-figure': 15} for lo, hi in rngs]
    detailed = {'type_variety': 'r_detailed', 'target_pch_out_db': -20, 'add_drop_osnr': 38, 'pmd': 7e-12, 'pdl': 3.0,
                'restrictions': {'preamp_variety_list': [], 'booster_variety_list': []},
                'roadm-path-impairments': [
                    {'roadm-path-impairments-id': 0, 'roadm-express-path': bands()},
                    {'roadm-path-impairments-id': 1, 'roadm-add-path': bands()},
                    {'roadm-path-impairments-id': 2, 'roadm-drop-path': bands()}]}
    # several profiles per path type, ids in arbitrary order (0 included, often NOT the first of its type)
    ids = rng.sample(range(0, 12), 7)
    if 0 not in ids:
        ids[rng.randrange(7)] = 0
    kinds = ['roadm-express-path'] * 3 + ['roadm-add-path'] * 2 + ['roadm-drop-path'] * 2
    profs = [{'roadm-path-impairments-id': i, k: bands()} for i, k in zip(ids, kinds)]
    rng.shuffle(profs)
    multi = {'type_variety': 'r_multi', 'target_pch_out_db': -20, 'add_drop_osnr': 38, 'pmd': 9e-12, 'pdl': 2.5,
             'restrictions': {'preamp_variety_list': [], 'booster_variety_list': []}, 'roadm-path-impairments': profs}
    eq['Roadm'] = eq['Roadm'] + [plain, detailed, multi]
    return eq


ROADM_VARIETIES = ['r_plain', 'r_detailed', 'default', 'r_multi', 'r_multi']


def bind_degrees(rng, eq, els, conns):
    """per_degree_impairments for the crossing of every multi-profile ROADM of the line: the (from, to) degree pair of the path is
    bound to one of the profiles of the right path type (id 0 as often as any other); the degree names are those the
    auto-design will give to the inserted amplifiers"""
    by = {e['uid']: e for e in els}
    nxt = {a: b for a, b in conns}
    prv = {b: a for a, b in conns}

    def long(uid):
        e = by[uid]
        return e['type'] == 'Fiber' and (e['params']['length'] * (1 if e['params']['length_units'] == 'km' else 1e-3)) > 150
    for e in els:
        if e['type'] != 'Roadm' or e.get('type_variety') not in ('r_multi', 'r_detailed') or rng.random() < 0.25:
            continue
        a, b = prv[e['uid']], nxt[e['uid']]
        if by[a]['type'] == 'Transceiver' or by[b]['type'] == 'Transceiver':
            continue        # in a one-way line set_roadm_internal_paths accepts bindings of express crossings only
        if (by[a]['type'] != 'Transceiver' and long(a)) or (by[b]['type'] != 'Transceiver' and long(b)):
            continue        # the neighbour will be split by the design: the degree names are not known in advance
        frm = a if by[a]['type'] == 'Transceiver' else f"Edfa_preamp_{e['uid']}_from_{a}"
        to = b if by[b]['type'] == 'Transceiver' else f"Edfa_booster_{e['uid']}_to_{b}"
        pt = 'add' if by[a]['type'] == 'Transceiver' else ('drop' if by[b]['type'] == 'Transceiver' else 'express')
        rd = next(r for r in eq['Roadm'] if r.get('type_variety') == e['type_variety'])
        cands = [pf['roadm-path-impairments-id'] for pf in rd['roadm-path-impairments'] if f'roadm-{pt}-path' in pf]
        pick = 0 if 0 in cands and rng.random() < 0.5 else rng.choice(cands)
        e['params'] = {'per_degree_impairments': [{'from_degree': frm, 'to_degree': to, 'impairment_id': pick}]}


def gen_path_case(rng, base_eq, max_units=None):
    eq = gen_eqpt(rng, base_eq)
    spec = gen_spectrum(rng, 191.4e12, 196.0e12, nmax=4)
    spec['p'] = [1e-3 for _ in spec['f']]
    nseg = rng.choice([1, 2, 2, 3]) if max_units is None else 1
    els, conns = [], []

    def add(uid, typ, **kw):
        e = {'uid': uid, 'type': typ, 'metadata': {'location': {'city': uid, 'region': '', 'latitude': 0, 'longitude': 0}}}
        e.update(kw)
        els.append(e)
    add('trx0', 'Transceiver')
    prev = 'trx0'
    for k in range(nseg):
        r = f'roadm{k}'
        add(r, 'Roadm', type_variety=rng.choice(ROADM_VARIETIES))
        conns.append((prev, r))
        prev = r
        ns = rng.randint(1, 4) if max_units is None else rng.randint(2, max_units)
        for s in range(ns):
            f = f'fiber{k}_{s}'
            if max_units is None and rng.random() < 0.12:
                # longer than Span.max_length (150 km): the auto-design splits it into equal sub-spans
                add(f, 'Fiber', type_variety='SSMF', params={'length': rng.uniform(160.0, 420.0), 'length_units': 'km',
                                                             'loss_coef': rng.uniform(0.17, 0.25), 'con_in': rng.uniform(0, 1),
                                                             'con_out': rng.uniform(0, 1)})
            else:
                # the design evaluates every fibre over the whole SI band: tables must cover it
                add(f, 'Fiber', type_variety='SSMF', params=gen_fiber_params(rng, 191.2e12, 196.2e12, lmin=1.0, lmax=110.0, p_dup=0.0,
                                                                             p_disp_table=0.08))
                if rng.random() < 0.5:
                    els[-1]['params'].pop('pmd_coef')
            conns.append((prev, f))
            prev = f
            if rng.random() < 0.25 and s < ns - 1:
                fu = f'fused{k}_{s}'
                add(fu, 'Fused', params={'loss': rng.uniform(0, 2)})
                conns.append((prev, fu))
                prev = fu
    r = f'roadm{nseg}'
    add(r, 'Roadm', type_variety=rng.choice(ROADM_VARIETIES))
    conns.append((prev, r))
    add('trx1', 'Transceiver')
    conns.append((r, 'trx1'))
    bind_degrees(rng, eq, els, conns)
    topo = {'elements': els, 'connections': [{'from_node': a, 'to_node': b} for a, b in conns]}
    return {'kind': 'path' if max_units is None else 'perm', 'eqpt_overrides': {'Edfa': {a['type_variety']: [a['pmd'], a['pdl']] for a in eq['Edfa']},
                                                                              'Roadm': eq['Roadm'][-3:]},
            'topology': topo, 'spectrum': spec, 'perm_seed': rng.randint(0, 10 ** 9)}


def gen_rpath_case(rng, base_eq, small):
    """a line system with RamanFiber spans in arbitrary positions (first / middle / last, after fibres, ROADMs and amplifiers
    that carry PMD); designed with the user's Raman flag OFF, propagated with the flag ON"""
    c = gen_path_case(rng, base_eq, max_units=rng.choice([3, 4]) if small else None)
    fibers = [e for e in c['topology']['elements'] if e['type'] == 'Fiber']
    for e in rng.sample(fibers, min(len(fibers), rng.choice([1, 1, 2]))):
        pumps = [{'power': rng.uniform(0.05, 0.3), 'frequency': rng.uniform(203e12, 207e12),
                  'propagation_direction': 'counterprop'} for _ in range(rng.choice([1, 2]))]
        if rng.random() < 0.25:
            pumps.append({'power': rng.uniform(0.05, 0.15), 'frequency': rng.uniform(203e12, 207e12), 'propagation_direction': 'coprop'})
        e['type'] = 'RamanFiber'
        e['operational'] = {'temperature': 283, 'raman_pumps': pumps}
        lc = e['params']['loss_coef']
        e['params'] = {'length': rng.uniform(20.0, 120.0),
                       'length_units': 'km', 'loss_coef': lc if not isinstance(lc, dict) else 0.2, 'con_in': e['params']['con_in'],
                       'con_out': e['params']['con_out'], 'pmd_coef': rng.uniform(5e-16, 3e-15)}
    c['kind'] = 'rpath'
    c['perm'] = bool(small)
    c['raman'] = {'method': rng.choice(['perturbative', 'numerical']), 'order': rng.choice([1, 2]),
                  'step': rng.choice([500.0, 1000.0, 2000.0]), 'res': rng.choice([10e3, 20e3])}
    return c


MB_VARIETIES = {   # multi_band varieties of tests/data/eqpt_config_multiband.json whose stages cover the full C and L bands
    'std_medium_gain_multiband': ['std_medium_gain', 'std_medium_gain_L'],
    'std_low_gain_multiband': ['std_low_gain', 'std_low_gain_L'],
    'std_low_gain_multiband_bis': ['std_low_gain_bis', 'std_low_gain_L'],
    'std_low_gain_multiband_ter': ['std_low_gain', 'std_low_gain_L_ter'],
}


def gen_mb_case(rng):
    """two-band (C+L) line of explicit elements: Fiber / Fused / Multiband_amplifier whose per-band stages have different
    PMD and PDL; channels of both bands, handed over in arbitrary order"""
    def band_channels(lo, hi, n):
        f = [lo + rng.uniform(0, 2e11)]
        for _ in range(n - 1):
            nxt = f[-1] + 50e9 + rng.choice([0.0, 25e9, rng.uniform(0, 5e11)])
            if nxt > hi:
                break
            f.append(nxt)
        return f
    fl = band_channels(186.7e12, 189.9e12, rng.randint(1, 4)) + band_channels(191.4e12, 196.0e12, rng.randint(1, 5))
    n = len(fl)
    zero = rng.random() < 0.3
    perm = list(range(n))
    rng.shuffle(perm)
    spec = {'f': fl, 'baud': [32e9] * n, 'slot': [50e9] * n, 'perm': perm, 'p': [loguni(rng, 1e-4, 2e-3) for _ in range(n)],
            'cd': [0.0 if zero else rng.uniform(0, 2e-3) for _ in range(n)],
            'pmd': [0.0 if zero else rng.uniform(0, 3e-12) for _ in range(n)],
            'pdl': [0.0 if zero else rng.uniform(0, 1.5) for _ in range(n)],
            'lat': [0.0 if zero else rng.uniform(0, 5e-3) for _ in range(n)]}
    stages = sorted({st for v in MB_VARIETIES.values() for st in v})
    edfa = {st: [rng.uniform(0, 2e-12), rng.uniform(0.05, 0.8)] for st in stages}
    els = []
    for k in range(rng.randint(1, 4)):
        if rng.random() < 0.6:
            els.append({'uid': f'fiber{k}', 'type': 'Fiber', 'type_variety': 'SSMF',
                        'params': {'length': rng.uniform(20, 100), 'length_units': 'km', 'loss_coef': rng.uniform(0.18, 0.25),
                                   'con_in': rng.uniform(0, 1), 'con_out': rng.uniform(0, 1)}})
        else:
            els.append({'uid': f'fused{k}', 'type': 'Fused', 'params': {'loss': rng.uniform(10, 20)}})
        var = rng.choice(sorted(MB_VARIETIES))
        order = list(MB_VARIETIES[var])
        if rng.random() < 0.4:
            order.reverse()
        els.append({'uid': f'amp{k}', 'type': 'Multiband_amplifier', 'type_variety': var,
                    'amplifiers': [{'type_variety': st, 'operational': {'gain_target': rng.uniform(12, 22), 'delta_p': 0,
                                                                         'out_voa': 0, 'tilt_target': 0}} for st in order]})
    return {'kind': 'mb', 'edfa': edfa, 'elements': els, 'spectrum': spec}


def gen_merge_case(rng):
    n = rng.randint(2, 9)
    if rng.random() < 0.5:
        step = rng.choice([1000.0, 2500.0, 10e3, 333.3])
        z = [i * step for i in range(n)]
    else:
        z = sorted(rng.uniform(0, 1e5) for _ in range(n))
        z[0] = 0.0
    zl = []
    for _ in range(rng.choice([0, 1, 1, 2, 3, 4])):
        r = rng.random()
        if r < 0.3:
            pos = rng.choice(z)                                     # on a grid point
        elif r < 0.4 and zl:
            pos = rng.choice(zl)[0]                                 # duplicate position
        else:
            pos = rng.uniform(z[0], z[-1])
        zl.append([pos, rng.uniform(0.3, 1.0)])
    return {'kind': 'merge', 'z': z, 'zl': zl}


def gen_euler_case(rng):
    n = rng.randint(1, 3)
    m = rng.randint(2, 6)          # exact arithmetic: the size of the rationals doubles with every Euler step
    z = sorted(rng.uniform(0, 1e5) for _ in range(m))
    z[0] = 0.0
    lum = [1.0 if rng.random() < 0.7 else rng.uniform(0.4, 1.0) for _ in range(m)]
    alpha = [rng.uniform(3e-5, 8e-5) for _ in range(n)]
    cr = [[0.0 if i == j else rng.uniform(-5e-4, 5e-4) for j in range(n)] for i in range(n)]
    p = [loguni(rng, 1e-5, 5e-2) for _ in range(n)]
    return {'kind': 'euler', 'z': z, 'lumped': lum, 'alpha': alpha, 'cr': cr, 'p': p}


def gen_raman_fiber(rng, L=None):
    L = L if L is not None else rng.uniform(5, 150)
    lumped = []
    for _ in range(rng.choice([0, 1, 1, 2, 3])):
        lumped.append({'position': rng.uniform(0.03, 0.97) * L, 'loss': rng.uniform(0.1, 2.5)})
    return {'length': L, 'length_units': 'km', 'loss_coef': rng.uniform(0.17, 0.3), 'con_in': rng.uniform(0, 1),
            'con_out': rng.uniform(0, 1), 'att_in': rng.choice([0.0, 1.0]), 'dispersion': 1.67e-05,
            'effective_area': 83e-12, 'pmd_coef': 1.265e-15, 'lumped_losses': lumped}


def gen_raman_low_case(rng):
    p = gen_raman_fiber(rng)
    L = p['length']
    method = rng.choice(['perturbative', 'numerical', 'numerical'])
    step = rng.choice([L * 1e3 / k for k in (7, 13, 40) if L * 1e3 / k <= 5000.0] + [5000.0, 2000.0, 500.0, 50.0])
    if rng.random() < 0.4 and p['lumped_losses']:
        k = rng.randint(1, max(1, int(L * 1e3 / step) - 1))          # put one lumped loss exactly on a solver grid point
        p['lumped_losses'][0]['position'] = k * step * 1e-3 if 0 < k * step * 1e-3 < L else p['lumped_losses'][0]['position']
    n = rng.choice([1, 2, 4])
    return {'kind': 'raman_low', 'params': p, 'method': method, 'order': rng.choice([1, 2, 3, 4]), 'step': step,
            'res': rng.choice([10e3, step * 3, 5e3]), 'f': [191.6e12 + i * 4.2e12 / n for i in range(n)],
            'p': 10 ** rng.uniform(-13, -11)}


def gen_raman_low_pf_case(rng):
    """low-power limit on a plain fibre whose loss coefficient is a per-frequency table (every channel has its own
    budget); own PRNG stream so that the other streams of a seed stay what they were"""
    c = gen_raman_low_case(rng)
    c['params']['loss_coef'] = gen_table(rng, 191.6e12, 195.8e12, 0.17, 0.3, 2, cover=True)
    c['f'] = [191.6e12 + i * 4.2e12 / 4 for i in range(4)]
    return c


def gen_raman_cmp_case(rng):
    p = gen_raman_fiber(rng)
    n = rng.choice([4, 10, 20, 40])
    return {'kind': 'raman_cmp', 'params': p, 'step': rng.choice([200.0, 100.0, 50.0, 20.0]), 'n': n,
            'p': 10 ** rng.uniform(-4, -2.3), 'res': 10e3}


def gen_raman_pump_case(rng):
    """counter (and co+counter) pumped spans on NON-UNIFORM solver grids: random length (never a multiple of the step),
    coarse and fine steps, lumped losses off the grid"""
    p = gen_raman_fiber(rng, L=rng.uniform(20, 130))
    pumps = [{'power': rng.uniform(0.05, 0.4), 'frequency': rng.uniform(203e12, 207e12),
              'propagation_direction': 'counterprop'} for _ in range(rng.choice([1, 2, 3]))]
    if rng.random() < 0.4:
        pumps.append({'power': rng.uniform(0.05, 0.2), 'frequency': rng.uniform(203e12, 207e12),
                      'propagation_direction': 'coprop'})
    step = rng.choice([10e3, 10e3, 5e3, 3333.0, 2e3, 1e3, 700.0, 200.0, 100.0])
    return {'kind': 'raman_pump', 'params': p, 'pumps': pumps, 'step': step,
            'res': rng.choice([10e3, step, 3 * step]), 'n': rng.choice([2, 4, 8, 16]), 'p': 10 ** rng.uniform(-6, -2.7),
            'method': rng.choice(['perturbative', 'numerical']), 'order': rng.choice([1, 2, 4])}


def gen_grid(rng, m, L):
    """non-uniform solver grid with z[0] = 0 and lumped factors (1 = none) as RamanSolver hands them to the solvers"""
    if rng.random() < 0.3:
        step = L / (m - 1 + rng.random())
        z = [i * step for i in range(m - 1)] + [L]          # arange-like: uniform but for the last step
    else:
        z = sorted([0.0, L] + [rng.uniform(0, L) for _ in range(m - 2)])
    z = sorted(set(z))
    ll = [1.0 if rng.random() < 0.75 else rng.uniform(0.5, 0.99) for _ in z]
    if rng.random() < 0.9:
        ll[-1] = 1.0
    if rng.random() < 0.9:
        ll[0] = 1.0
    return z, ll


def gen_pert_case(rng):
    n = rng.randint(1, 6)
    z, ll = gen_grid(rng, rng.randint(2, 40), loguni(rng, 1e3, 1.5e5))
    return {'kind': 'pert', 'order': rng.choice([0, 1, 1, 2, 2, 3, 4]), 'z': z, 'lumped': ll,
            'alpha': [rng.uniform(3e-5, 8e-5) for _ in range(n)],
            'cr': [[0.0 if i == j else rng.uniform(-5e-4, 5e-4) for j in range(n)] for i in range(n)],
            'p': [loguni(rng, 1e-5, 5e-2) for _ in range(n)]}


def gen_iter_case(rng):
    nco, ncnt = rng.randint(1, 4), rng.randint(1, 3)
    n = nco + ncnt
    L = loguni(rng, 5e3, 1.2e5)
    z, ll = gen_grid(rng, rng.randint(3, 30), L)
    ll[-1] = 1.0
    alpha = [rng.uniform(3e-5, 8e-5) for _ in range(n)]
    cr = [[0.0 if i == j else rng.uniform(-2e-4, 2e-4) * (1.0 if (i < nco) == (j < nco) else 2.0) for j in range(n)] for i in range(n)]
    p_in = [loguni(rng, 1e-5, 5e-3) for _ in range(nco)] + [rng.uniform(0.02, 0.3) for _ in range(ncnt)]
    # initial guess: plain attenuation, perturbed
    cols = []
    for zi in z:
        col = [p_in[j] * math.exp(-alpha[j] * zi) * rng.uniform(0.8, 1.2) for j in range(nco)] + \
              [p_in[j] * math.exp(-alpha[j] * (L - zi)) * rng.uniform(0.8, 1.2) for j in range(nco, n)]
        cols.append(col)
    cols[0][:nco] = p_in[:nco]
    cols[-1][nco:] = p_in[nco:]
    return {'kind': 'iter', 'nco': nco, 'z': z, 'lumped': ll, 'alpha': alpha, 'cr': cr, 'cols': cols}


# ------------------------------------------------------------------ Gallina literals
def coef_lit(lc):
    if isinstance(lc, dict):
        return 'PerFreq ' + listlit([f'({qlit(f)}, {qlit(v)})' for f, v in zip(lc['frequency'], lc['value'])])
    return f'Scalar {qlit(lc)}'


def ref_frequency(p):
    if 'ref_wavelength' in p:
        return C_LIGHT / p['ref_wavelength']
    if 'ref_frequency' in p:
        return p['ref_frequency']
    return C_LIGHT / 1550e-9


def fiber_lit(p, lib=None):
    lib = lib or {}
    if 'dispersion_per_frequency' in p:
        d = p['dispersion_per_frequency']
        disp = 'DispPerFreq ' + listlit([f'({qlit(f)}, {qlit(v)})' for f, v in zip(d['frequency'], d['value'])])
    else:
        s = p.get('dispersion_slope')
        disp = f"DispScalar {qlit(p.get('dispersion', lib.get('dispersion', 1.67e-05)))} " + ('None' if s is None else f'(Some {qlit(s)})')
    lum = listlit([f"({qlit(l['position'])}, {qlit(l['loss'])})" for l in p.get('lumped_losses', [])])
    return (f"(mkFiber {qlit(p['length'])} {'true' if p['length_units'] == 'km' else 'false'} {qlit(p.get('att_in', 0))} "
            f"{qlit(p['con_in'])} {qlit(p['con_out'])} ({coef_lit(p['loss_coef'])}) {lum} {qlit(ref_frequency(p))} ({disp}) "
            f"{qlit(p.get('pmd_coef', lib.get('pmd_coef')))} {qlit(N1)})")


def hexf(x):
    x = float(x)
    if x != x or x in (math.inf, -math.inf):
        raise ValueError('non-finite literal')
    return f'({x.hex()})' if x >= 0 else f'(-{(-x).hex()})'


def flist(xs):
    return listlit([hexf(x) for x in xs])


def parse_f(s):
    """NumRun.fstr: 'm:e' = m * 2^e, or nan / inf / -inf"""
    if s in ('nan', 'inf', '-inf'):
        return float(s)
    m, e = s.split(':')
    return math.ldexp(int(m), int(e))


def dbm(p_watt):
    return 10 * math.log10(p_watt) + 30


def chan_lits(spec, pin=None):
    pin = pin if pin is not None else spec['p']
    return listlit([f'ch {qlit(f)} {qlit(dbm(p))} {qlit(cd)} {qlit(pmd)} {qlit(pdl)} {qlit(lat)}'
                    for f, p, cd, pmd, pdl, lat in zip(spec['f'], pin, spec['cd'], spec['pmd'], spec['pdl'], spec['lat'])])


def bands_lit(bands, key):
    items = []
    for b in bands:
        fr = b['frequency-range']
        rg = 'None' if fr['lower-frequency'] is None else f"(Some ({qlit(fr['lower-frequency'])}, {qlit(fr['upper-frequency'])}))"
        items.append(f'({rg}, {qlit(b[key])})')
    return listlit(items)


# ------------------------------------------------------------------ gnpy drivers
class Sim:
    """SimParams switch with guaranteed restore"""
    def __enter__(self):
        from gnpy.core.parameters import SimParams
        self.cls = SimParams
        self.saved = dict(SimParams._shared_dict)
        return self

    def set(self, **raman):
        self.cls.set_params({'raman_params': raman} if raman else {})

    def __exit__(self, *a):
        self.cls._shared_dict.clear()
        self.cls._shared_dict.update(self.saved)


def make_si(spec):
    """the spec lists are sorted by frequency; the arrays are handed over in the (arbitrary) order spec['perm']"""
    from gnpy.core.info import create_arbitrary_spectral_information
    perm = spec.get('perm') or list(range(len(spec['f'])))
    a = {k: np.array([spec[k][i] for i in perm]) for k in ('f', 'slot', 'p', 'baud', 'cd', 'pmd', 'pdl', 'lat')}
    return create_arbitrary_spectral_information(
        a['f'], slot_width=a['slot'], pch=a['p'], baud_rate=a['baud'], tx_osnr=40.0, tx_power=a['p'], roll_off=0.1,
        chromatic_dispersion=a['cd'], pmd=a['pmd'], pdl=a['pdl'], latency=a['lat'])


def check_construction(ctx, case, si):
    """the spectral information must carry, per channel (sorted by frequency), exactly what it was built from"""
    spec = case['spectrum']
    got = snap(si)
    for k in ('p', 'cd', 'pmd', 'pdl', 'lat'):
        if list(got[k]) != list(spec[k]) or si.frequency.tolist() != list(spec['f']):
            ctx.violation('spectrum_construction', f"SpectralInformation built from per-channel arrays given in the order {spec.get('perm')}: "
                          f"field '{k}' per channel is {got[k]}, the channels (by frequency) were given {spec[k]}", strip(case))
            return False
    return True


def snap(si):
    return {'p': si.pch.tolist(), 'cd': np.array(si.chromatic_dispersion, dtype=float).tolist(),
            'pmd': np.array(si.pmd, dtype=float).tolist(), 'pdl': np.array(si.pdl, dtype=float).tolist(),
            'lat': np.array(si.latency, dtype=float).tolist()}


def probe_ref_loss(fib):
    """attenuation [dB] that the fibre object really applies to a single low-power channel at its reference frequency
    (Raman off); None when the fibre cannot propagate that frequency (tables not covering it)"""
    from gnpy.core.info import create_arbitrary_spectral_information
    saved = (fib.pch_out_db, fib.propagated_labels, fib.ref_pch_in_dbm)
    try:
        si = create_arbitrary_spectral_information(np.array([float(fib.params.ref_frequency)]), slot_width=50e9, pch=1e-4,
                                                   baud_rate=32e9, tx_osnr=40.0, tx_power=1e-4)
        if fib.ref_pch_in_dbm is None:
            fib.ref_pch_in_dbm = 0.0
        pin = float(si.pch[0])
        out = fib(si)
        return 10 * math.log10(pin / float(out.pch[0]))
    except Exception:
        return None
    finally:
        fib.pch_out_db, fib.propagated_labels, fib.ref_pch_in_dbm = saved


def drive_fiber(case):
    from gnpy.core.elements import Fiber
    obs = {}
    try:
        fib = Fiber(uid='f', type_variety='SSMF', params=copy.deepcopy(case['params']))
    except Exception as e:
        return {'exc': type(e).__name__, 'msg': str(e)[:200], 'stage': 'ctor'}
    fib.ref_pch_in_dbm = 0.0
    si = make_si(case['spectrum'])
    obs['before'] = snap(si)
    obs['si0'] = si
    try:
        obs['loss_prop'] = float(fib.loss)
    except Exception as e:
        obs['loss_prop'] = 'E:' + type(e).__name__
    obs['ref_loss_applied'] = probe_ref_loss(fib)
    try:
        obs['own_cd'] = np.broadcast_to(fib.chromatic_dispersion(si.frequency), si.frequency.shape).astype(float).tolist()
    except Exception as e:
        obs['own_cd'] = None
    try:
        out = fib(si)
    except Exception as e:
        obs.update(exc=type(e).__name__, msg=str(e)[:200], stage='call')
        return obs
    obs['after'] = snap(out)
    return obs


def fiber_budget_py(p, f):
    """independent float budget of one channel, None when the loss table does not cover f"""
    L_km = p['length'] if p['length_units'] == 'km' else p['length'] * 1e-3
    lc = p['loss_coef']
    a = lc if not isinstance(lc, dict) else (lc['value'][0] if len(lc['value']) == 1 else lin_interp(list(zip(lc['frequency'], lc['value'])), f))
    if a is None:
        return None
    return p.get('att_in', 0) + p['con_in'] + L_km * a + sum(l['loss'] for l in p.get('lumped_losses', [])) + p['con_out']


def close(a, b, rel=1e-9, ab=0.0):
    return abs(a - b) <= rel * max(abs(a), abs(b)) + ab


def oracle_fiber(ctx, case, obs):
    """the property on the implementation's own observations"""
    p, spec = case['params'], case['spectrum']
    cs = strip(case)
    if 'exc' in obs:
        if case.get('stream', 'valid') == 'valid':
            ctx.violation('exception', f"valid fibre raised {obs['exc']}: {obs.get('msg')}", cs)
        return
    if case.get('stream', 'valid') != 'valid':
        return          # accepted malformed input is a correspondence matter (model says Err)
    L_m = p['length'] * 1e3 if p['length_units'] == 'km' else p['length']
    b4, af = obs['before'], obs['after']
    lumped = p.get('lumped_losses', [])
    worst = None
    for i, f in enumerate(spec['f']):
        bud = fiber_budget_py(p, f)
        if bud is None:
            continue
        got = 10 * math.log10(b4['p'][i] / af['p'][i])
        if abs(got - bud) > 1e-9 * max(1.0, abs(bud)):
            if worst is None or abs(got - bud) > abs(worst[1] - worst[2]):
                worst = (i, got, bud)
    if worst:
        i, got, bud = worst
        dup = positions_dup(lumped)
        expl = dup and all(
            abs(10 * math.log10(b4['p'][j] / af['p'][j]) - (fiber_budget_py(p, f) - sum(l['loss'] for l in lumped) + first_occurrence_sum(lumped))) < 1e-9 * max(1.0, bud)
            for j, f in enumerate(spec['f']))
        ctx.violation('budget', f"channel {i} ({spec['f'][i]:.6e} Hz) attenuated by {got:.9f} dB, budget "
                      f"att_in+con_in+L*alpha+lumped+con_out = {bud:.9f} dB", cs, observed_db=got, expected_db=bud,
                      duplicate_positions=dup, f10_regression_signature=bool(expl))
    # Fiber.loss is the budget the design relies on: it must be the attenuation the span really applies at the reference frequency
    if isinstance(obs.get('loss_prop'), float) and obs.get('ref_loss_applied') is not None:
        if abs(obs['loss_prop'] - obs['ref_loss_applied']) > 1e-9 * max(1.0, abs(obs['ref_loss_applied'])):
            ctx.violation('loss_property_vs_applied', f"Fiber.loss = {obs['loss_prop']:.9f} dB but a channel at the reference frequency "
                          f"is attenuated by {obs['ref_loss_applied']:.9f} dB", cs, advertised_db=obs['loss_prop'],
                          applied_db=obs['ref_loss_applied'])
    for i in range(len(spec['f'])):
        if obs['own_cd'] is not None and not close(af['cd'][i], b4['cd'][i] + obs['own_cd'][i], 1e-12):
            ctx.violation('cd_add', f"channel {i}: CD after {af['cd'][i]} != before {b4['cd'][i]} + span {obs['own_cd'][i]}", cs)
            break
        if not close(af['lat'][i], b4['lat'][i] + L_m * N1 / C_LIGHT, 1e-12):
            ctx.violation('latency_add', f"channel {i}: latency after {af['lat'][i]} != before + L*n1/c", cs)
            break
        if not close(af['pmd'][i] ** 2, b4['pmd'][i] ** 2 + p['pmd_coef'] ** 2 * L_m, 1e-11):
            ctx.violation('pmd_quadrature', f"channel {i}: PMD^2 after {af['pmd'][i] ** 2} != before^2 + coef^2 L", cs)
            break
        if af['pdl'][i] != b4['pdl'][i]:
            ctx.violation('pdl_fiber', f"channel {i}: a fibre changed PDL {b4['pdl'][i]} -> {af['pdl'][i]}", cs)
            break


def impl_line_fiber(case, obs):
    if 'exc' in obs:
        return 'E:' + obs['exc']
    return obs


def parse_fr(s):
    return Fr(s)


def diff_fiber(ctx, case, obs, model):
    cs = strip(case)
    if model.startswith('E:') or 'exc' in obs:
        mt = model[2:].split(':')[0] if model.startswith('E:') else 'ok'
        it = obs.get('exc', 'ok')
        if mt != it:
            ctx.corr_break('corr:Fiber.__call__', f'outcome: implementation {it}, model {mt}', cs, impl=it, model=model[:200])
        return
    body, lossp = model.split('#')
    af = obs['after']
    for i, row in enumerate(body.split(';')):
        po, cd, pmd2, pdl2, lat = [float(Fr(x)) for x in row.split('|')]
        checks = [('pch_dbm', dbm(af['p'][i]), po, 0.0, 1e-9), ('chromatic_dispersion', af['cd'][i], cd, 1e-9, 1e-30),
                  ('pmd^2', af['pmd'][i] ** 2, pmd2, 1e-9, 1e-60), ('pdl^2', af['pdl'][i] ** 2, pdl2, 1e-9, 1e-30),
                  ('latency', af['lat'][i], lat, 1e-9, 1e-30)]
        for name, a, b, rel, ab in checks:
            if not close(a, b, rel, ab):
                ctx.corr_break('corr:Fiber.propagate', f'channel {i} {name}: implementation {a!r}, model {b!r}', cs, impl=a, model=b)
                return
    if lossp.startswith('E:') or isinstance(obs['loss_prop'], str):
        mt = lossp[2:].split(':')[0] if lossp.startswith('E:') else 'ok'
        it = obs['loss_prop'][2:] if isinstance(obs['loss_prop'], str) else 'ok'
        if mt != it:
            ctx.corr_break('corr:Fiber.loss', f'implementation {it}, model {mt}', cs, impl=it, model=lossp[:100])
    elif not close(obs['loss_prop'], float(Fr(lossp)), 1e-9, 1e-9):
        ctx.corr_break('corr:Fiber.loss', f"implementation {obs['loss_prop']!r}, model {float(Fr(lossp))!r}", cs,
                       impl=obs['loss_prop'], model=float(Fr(lossp)))


# ---- paths
_BASE_EQ = {}


def base_eq():
    if not _BASE_EQ:
        from gnpy.tools.json_io import load_json
        d = os.path.join(common.REPO, 'tests', 'data')
        _BASE_EQ['eq'] = load_json(os.path.join(d, 'eqpt_config.json'))
        _BASE_EQ['extra'] = {'std_medium_gain_advanced_config.json': load_json(os.path.join(d, 'std_medium_gain_advanced_config.json'))}
    return _BASE_EQ['eq'], _BASE_EQ['extra']


def build_path(case):
    from gnpy.tools.json_io import load_eqpt_topo_from_json
    from gnpy.core.network import build_network, add_missing_elements_in_network
    from gnpy.core.utils import dbm2watt
    from gnpy.topology.request import PathRequest
    from networkx import dijkstra_path
    eq0, extra = base_eq()
    eq = copy.deepcopy(eq0)
    for a in eq['Edfa']:
        a['pmd'], a['pdl'] = case['eqpt_overrides']['Edfa'][a['type_variety']]
    eq['Roadm'] = eq['Roadm'] + copy.deepcopy(case['eqpt_overrides']['Roadm'])
    eq.setdefault('RamanFiber', copy.deepcopy(eq['Fiber']))
    equipment, network = load_eqpt_topo_from_json(eq, copy.deepcopy(case['topology']), extra_configs=extra)
    add_missing_elements_in_network(network, equipment)
    build_network(network, equipment, PathRequest(power=dbm2watt(0), tx_power=dbm2watt(0), nb_channel=20), verbose=False)
    nodes = {n.uid: n for n in network.nodes()}
    return eq, dijkstra_path(network, nodes['trx0'], nodes['trx1'])


def roadm_bands(eq, case, variety, path_type, bound_id=None):
    """impairment table CONFIGURED for a crossing: the profile bound to the (from, to) degree pair by per_degree_impairments, else
    the first profile of the path type in the library, else the global pmd / pdl of the variety"""
    rd = next(r for r in eq['Roadm'] if r.get('type_variety', 'default') == variety)
    key = {'express': 'roadm-express-path', 'add': 'roadm-add-path', 'drop': 'roadm-drop-path'}[path_type]
    for prof in rd.get('roadm-path-impairments', []):
        if bound_id is not None and prof['roadm-path-impairments-id'] == bound_id:
            return next(v for k, v in prof.items() if k != 'roadm-path-impairments-id')
    for prof in rd.get('roadm-path-impairments', []):
        if bound_id is None and key in prof:
            return prof[key]
    return [{'frequency-range': {'lower-frequency': None, 'upper-frequency': None}, 'roadm-pmd': rd['pmd'], 'roadm-pdl': rd['pdl']}]


def describe_path(eq, case, path):
    """(python reference contributions, Gallina element literal) per element, from the GENERATED configuration"""
    from gnpy.core.elements import Fiber, Edfa, Roadm, Transceiver
    topo = {e['uid']: e for e in case['topology']['elements']}
    lib = {'dispersion': eq['Fiber'][0]['dispersion'], 'pmd_coef': eq['Fiber'][0]['pmd_coef']}
    out = []
    for i, el in enumerate(path):
        if isinstance(el, Fiber):
            m = re.match(r'^(.*)_\((\d+)/(\d+)\)$', el.uid)
            if el.uid in topo:
                p = dict(topo[el.uid]['params'])
            else:
                # a sub-span created by the auto-design (split_fiber): the parameters of the original fibre, its OWN length
                p = dict(topo[m.group(1)]['params'])
                p['length'], p['length_units'] = float(el.params.length), 'm'
                p['_split_of'], p['_split_n'] = m.group(1), int(m.group(3))
            p.setdefault('pmd_coef', lib['pmd_coef'])
            p.setdefault('dispersion', lib['dispersion'])
            out.append(('fiber', p, f'EFiber {fiber_lit(p, lib)}'))
        elif isinstance(el, Edfa):
            pmd, pdl = case['eqpt_overrides']['Edfa'][el.params.type_variety]
            out.append(('amp', (pmd, pdl), f'EAmp {qlit(pmd)} {qlit(pdl)}'))
        elif isinstance(el, Roadm):
            pt = 'add' if isinstance(path[i - 1], Transceiver) else ('drop' if isinstance(path[i + 1], Transceiver) else 'express')
            bound = [b['impairment_id'] for b in topo[el.uid].get('params', {}).get('per_degree_impairments', [])
                     if b['from_degree'] == path[i - 1].uid and b['to_degree'] == path[i + 1].uid]
            bands = roadm_bands(eq, case, topo[el.uid].get('type_variety', 'default'), pt, bound[0] if bound else None)
            out.append(('roadm', bands, f"ERoadm {bands_lit(bands, 'roadm-pmd')} {bands_lit(bands, 'roadm-pdl')}"))
        else:
            out.append(('other', None, 'EOther'))
    return out


def call_el(path, i, si):
    from gnpy.core.elements import Roadm
    el = path[i]
    if isinstance(el, Roadm):
        return el(si, degree=path[i + 1].uid, from_degree=path[i - 1].uid)
    return el(si)


def band_value(bands, key, f):
    for b in bands:
        fr = b['frequency-range']
        if fr['lower-frequency'] is None or fr['lower-frequency'] <= f <= fr['upper-frequency']:
            return b[key]
    return None


def drive_path(ctx, case, built, raman_on=False):
    """propagate the designed path element by element; oracle after every element; returns (term, final obs).
    With the Raman flag on (paths containing RamanFiber) the Raman-off budget clauses are not judged here."""
    from gnpy.core.elements import Fiber, Transceiver
    cs = strip(case)
    eq, path = built
    desc = describe_path(eq, case, path)
    for e in case['topology']['elements']:
        for bnd in e.get('params', {}).get('per_degree_impairments', []) if e['type'] == 'Roadm' else []:
            hit = any(path[i].uid == e['uid'] and path[i - 1].uid == bnd['from_degree'] and path[i + 1].uid == bnd['to_degree']
                      for i in range(1, len(path) - 1))
            ctx.count('roadm_crossing_bound_to_profile' if hit else 'roadm_binding_not_on_path')
            if hit and bnd['impairment_id'] == 0:
                ctx.count('roadm_crossing_bound_to_profile_id0')
    spec = case['spectrum']
    si = make_si(spec)
    check_construction(ctx, case, si)
    ref = {'cd': list(spec['cd']), 'lat': list(spec['lat'])}
    ref['pmd2'] = [x * x for x in spec['pmd']]
    ref['pdl2'] = [x * x for x in spec['pdl']]
    bad = False
    for i, el in enumerate(path):
        b4 = snap(si)
        own_cd = None
        if isinstance(el, Fiber):
            own_cd = np.broadcast_to(el.chromatic_dispersion(si.frequency), si.frequency.shape).astype(float).tolist()
            applied = None if raman_on else probe_ref_loss(el)
            try:
                adv = float(el.loss)
            except Exception:
                adv = None
            if adv is not None and applied is not None and abs(adv - applied) > 1e-9 * max(1.0, abs(applied)) and not bad:
                bad = True
                ctx.violation('loss_property_vs_applied', f"{el.uid}: Fiber.loss = {adv:.9f} dB (used by the design of the following "
                              f"amplifier) but a channel at the reference frequency is attenuated by {applied:.9f} dB", cs,
                              advertised_db=adv, applied_db=applied)
        si = call_el(path, i, si)
        af = snap(si)
        kind, par, _ = desc[i]
        ctx.count('path_el_' + kind)
        for j, f in enumerate(spec['f']):
            if kind == 'fiber':
                L_m = par['length'] * 1e3 if par['length_units'] == 'km' else par['length']
                ref['cd'][j] += own_cd[j]
                ref['lat'][j] += L_m * N1 / C_LIGHT
                ref['pmd2'][j] += par['pmd_coef'] ** 2 * L_m
                # the budget of the fibre as designed (padding and connector losses are set by the design)
                pp = dict(par, att_in=el.params.att_in, con_in=el.params.con_in, con_out=el.params.con_out)
                bud = fiber_budget_py(pp, f)
                got = 10 * math.log10(b4['p'][j] / af['p'][j])
                if not raman_on and bud is not None and abs(got - bud) > 1e-9 * max(1.0, abs(bud)) and not bad:
                    bad = True
                    ctx.violation('budget', f"{el.uid} channel {j}: attenuated by {got:.9f} dB, budget {bud:.9f} dB", cs,
                                  observed_db=got, expected_db=bud, duplicate_positions=positions_dup(par.get('lumped_losses', [])),
                                  f10_regression_signature=False)
            elif kind == 'amp':
                ref['pmd2'][j] += par[0] ** 2
                ref['pdl2'][j] += par[1] ** 2
            elif kind == 'roadm':
                ref['pmd2'][j] += band_value(par, 'roadm-pmd', f) ** 2
                ref['pdl2'][j] += band_value(par, 'roadm-pdl', f) ** 2
            ok = (close(af['cd'][j], ref['cd'][j], 1e-11, 1e-30) and close(af['lat'][j], ref['lat'][j], 1e-11, 1e-30)
                  and close(af['pmd'][j] ** 2, ref['pmd2'][j], 1e-10, 1e-60) and close(af['pdl'][j] ** 2, ref['pdl2'][j], 1e-10, 1e-30))
            if not ok and not bad:
                bad = True
                ctx.violation('path_accumulation', f"after {type(el).__name__} {el.uid}, channel {j}: (cd,lat,pmd^2,pdl^2) = "
                              f"({af['cd'][j]}, {af['lat'][j]}, {af['pmd'][j] ** 2}, {af['pdl'][j] ** 2}) expected linear/quadrature sums "
                              f"({ref['cd'][j]}, {ref['lat'][j]}, {ref['pmd2'][j]}, {ref['pdl2'][j]})", cs)
    final = snap(si)
    topo = {e['uid']: e for e in case['topology']['elements']}
    split = {}
    for kind, par, _ in desc:
        if kind == 'fiber' and '_split_of' in par:
            split.setdefault(par['_split_of'], []).append(par)
    for uid, parts in split.items():
        ctx.count('path_fibre_split_by_design')
        op = topo[uid]['params']
        orig = op['length'] * 1e3 if op['length_units'] == 'km' else op['length']
        if len(parts) != parts[0]['_split_n'] or not close(sum(q['length'] for q in parts), orig, 1e-9):
            ctx.violation('split_length', f"{uid} ({orig} m) was split by the design into {len(parts)} spans of total length "
                          f"{sum(q['length'] for q in parts)} m", cs)
    term = f"run_path {listlit([d[2] for d in desc])} {chan_lits(spec)}"
    return term, final, path, desc


def diff_path(ctx, case, final, model):
    cs = strip(case)
    if model.startswith('E:'):
        ctx.corr_break('corr:path accumulation', f'model {model[:120]}, implementation propagated', cs, impl='ok', model=model[:200])
        return
    for i, row in enumerate(model.split(';')):
        cd, pmd2, pdl2, lat = [float(Fr(x)) for x in row.split('|')]
        for name, a, b, ab in (('chromatic_dispersion', final['cd'][i], cd, 1e-30), ('pmd^2', final['pmd'][i] ** 2, pmd2, 1e-60),
                               ('pdl^2', final['pdl'][i] ** 2, pdl2, 1e-30), ('latency', final['lat'][i], lat, 1e-30)):
            if not close(a, b, 1e-9, ab):
                ctx.corr_break('corr:path accumulation', f'channel {i} {name} at the end of the path: implementation {a!r}, model {b!r}',
                               cs, impl=a, model=b)
                return


def units_of(path, desc):
    """span units: [booster], [fiber (+fused) + next amp], [roadm]"""
    units, cur = [], []
    for i in range(1, len(path) - 1):
        cur.append(i)
        k = desc[i][0]
        nxt = desc[i + 1][0] if i + 1 < len(path) - 1 else None
        if k in ('amp', 'roadm') or (k in ('fiber', 'other') and nxt not in ('amp', 'other')):
            units.append(cur)
            cur = []
    if cur:
        units.append(cur)
    return units


def run_perm(ctx, case, path, desc, final, rng):
    """re-propagate the real elements in permuted orders; the accumulated values must not depend on the order"""
    import random
    cs = strip(case)
    prng = random.Random(case['perm_seed'])
    units = units_of(path, desc)
    inner = [u for u in units if desc[u[0]][0] != 'roadm']
    fixed_head = [u for u in units[:1] if desc[u[0]][0] == 'roadm']
    fixed_tail = [u for u in units[-1:] if desc[u[0]][0] == 'roadm']
    if prng.random() < 0.3:
        inner, fixed_head, fixed_tail = units, [], []           # ROADMs take part as well
    if len(inner) <= 5:
        orders = list(itertools.permutations(inner))
        ctx.count('perm_exhaustive')
    else:
        orders = [prng.sample(inner, len(inner)) for _ in range(24)]
        ctx.count('perm_sampled')
    spec = case['spectrum']
    for order in orders:
        seq = [i for u in fixed_head + list(order) + fixed_tail for i in u]
        si = make_si(spec)
        try:
            for i in seq:
                si = call_el(path, i, si)
        except Exception as e:
            ctx.violation('perm_exception', f'order {seq}: {type(e).__name__}: {e}', cs)
            return
        got = snap(si)
        ctx.count('perm_orders')
        for j in range(len(spec['f'])):
            ok = (close(got['cd'][j], final['cd'][j], 1e-11, 1e-30) and close(got['lat'][j], final['lat'][j], 1e-11, 1e-30)
                  and close(got['pmd'][j], final['pmd'][j], 1e-11, 1e-30) and close(got['pdl'][j], final['pdl'][j], 1e-11, 1e-30))
            if not ok:
                ctx.violation('order_dependence', f"element order {[path[i].uid for i in seq]}: channel {j} (cd,lat,pmd,pdl) = "
                              f"({got['cd'][j]}, {got['lat'][j]}, {got['pmd'][j]}, {got['pdl'][j]}) vs designed order "
                              f"({final['cd'][j]}, {final['lat'][j]}, {final['pmd'][j]}, {final['pdl'][j]})", cs)
                return


# ---- designed paths that contain RamanFiber spans
def simparams_json():
    from gnpy.core.parameters import SimParams
    return {k: v.to_json() for k, v in SimParams._shared_dict.items()}


def drive_rpath(ctx, case, sim, rng):
    """(A) user's Raman flag OFF: design; the simulation parameters in force afterwards must be the user's, and every plain Fiber
    of the path must apply exactly its budget to a high-power comb.  (B) flag ON: element-by-element accumulation oracle
    (a RamanFiber accumulates CD / PMD / latency like a Fiber), order independence on permuted span orders."""
    from gnpy.core.elements import Fiber, RamanFiber
    from gnpy.core.info import create_input_spectral_information
    cs = strip(case)
    sim.set()
    before = simparams_json()
    built = build_path(case)
    eq, path = built
    after = simparams_json()
    changed = {k: (before[k], after[k]) for k in before if before[k] != after[k]}
    if changed:
        ctx.count('simparams_changed_by_design')
    ctx.count('rpath_ramanfibers', sum(isinstance(e, RamanFiber) for e in path))
    for pos, e in enumerate(x for x in path if isinstance(x, Fiber)):
        if isinstance(e, RamanFiber):
            ctx.count('rpath_ramanfiber_%s' % ('first' if pos == 0 else 'later'))
    topo = {e['uid']: e for e in case['topology']['elements']}
    bad = False
    for el in path:
        if isinstance(el, Fiber) and not isinstance(el, RamanFiber) and not bad:
            m = re.match(r'^(.*)_\((\d+)/(\d+)\)$', el.uid)
            par = dict(topo[el.uid if el.uid in topo else m.group(1)]['params'])
            par.update(length=float(el.params.length), length_units='m', att_in=el.params.att_in, con_in=el.params.con_in,
                       con_out=el.params.con_out)
            si = create_input_spectral_information(f_min=191.3e12, f_max=196.1e12, roll_off=0.15, baud_rate=32e9, spacing=50e9,
                                                   tx_osnr=40.0, tx_power=2e-3)       # 96 channels at +3 dBm
            pin = si.pch.copy()
            saved = (el.pch_out_db, el.propagated_labels, el.ref_pch_in_dbm)
            el.ref_pch_in_dbm = 3.0
            try:
                out = el(si)
            finally:
                el.pch_out_db, el.propagated_labels, el.ref_pch_in_dbm = saved
            ctx.count('rpath_plain_fibre_budget_probes')
            for j, f in enumerate(out.frequency.tolist()):
                bud = fiber_budget_py(par, f)
                got = 10 * math.log10(pin[j] / out.pch[j])
                if bud is not None and abs(got - bud) > 1e-9 * max(1.0, abs(bud)):
                    bad = True
                    why = (f'; the simulation parameters in force after the auto-design differ from the user\'s (Raman off): {changed}'
                           if changed else '')
                    ctx.violation('budget', f"Raman off, after the auto-design of a line containing a RamanFiber: {el.uid} channel {j} "
                                  f"({f:.4e} Hz) of a 96 x +3 dBm comb attenuated by {got:.6f} dB, budget {bud:.6f} dB{why}", cs,
                                  observed_db=got, expected_db=bud, simparams_changed=changed)
                    break
    # (B) Raman on
    r = case['raman']
    sim.set(flag=True, method=r['method'], order=r['order'], result_spatial_resolution=r['res'], solver_spatial_resolution=r['step'])
    try:
        term, final, path, desc = drive_path(ctx, case, built, raman_on=True)
        if case.get('perm'):
            run_perm(ctx, case, path, desc, final, rng)
    finally:
        sim.set()
    return term, final, path


# ---- multiband amplifiers (per-band stages with different PMD / PDL)
def drive_mb(ctx, case):
    from gnpy.tools.json_io import load_json, _equipment_from_json, network_from_json
    from gnpy.core.elements import Fiber, Multiband_amplifier
    cs = strip(case)
    if 'mb_eq' not in _BASE_EQ:
        _BASE_EQ['mb_eq'] = load_json(os.path.join(common.REPO, 'tests', 'data', 'eqpt_config_multiband.json'))
    eq = copy.deepcopy(_BASE_EQ['mb_eq'])
    stage_band = {}
    for a in eq['Edfa']:
        if a['type_variety'] in case['edfa']:
            a['pmd'], a['pdl'] = case['edfa'][a['type_variety']]
            stage_band[a['type_variety']] = (a['f_min'], a['f_max'])
    _, extra = base_eq()
    equipment = _equipment_from_json(eq, extra)
    meta = {'location': {'city': '', 'region': '', 'latitude': 0, 'longitude': 0}}
    network = network_from_json({'elements': [dict(copy.deepcopy(e), metadata=meta) for e in case['elements']], 'connections': []},
                                equipment)
    nodes = {n.uid: n for n in network.nodes()}
    lib = {'dispersion': eq['Fiber'][0]['dispersion'], 'pmd_coef': eq['Fiber'][0]['pmd_coef']}
    spec = case['spectrum']
    si = make_si(spec)
    check_construction(ctx, case, si)
    ref = {'cd': list(spec['cd']), 'lat': list(spec['lat']), 'pmd2': [x * x for x in spec['pmd']], 'pdl2': [x * x for x in spec['pdl']]}
    lits, bad = [], False
    for e in case['elements']:
        el = nodes[e['uid']]
        if isinstance(el, Fiber):
            el.ref_pch_in_dbm = 0.0
            p = dict(e['params'], pmd_coef=lib['pmd_coef'], dispersion=lib['dispersion'])
            L_m = p['length'] * 1e3
            own_cd = np.broadcast_to(el.chromatic_dispersion(si.frequency), si.frequency.shape).astype(float).tolist()
            for j in range(len(spec['f'])):
                ref['cd'][j] += own_cd[j]
                ref['lat'][j] += L_m * N1 / C_LIGHT
                ref['pmd2'][j] += p['pmd_coef'] ** 2 * L_m
            lits.append(f'EFiber {fiber_lit(p, lib)}')
        elif isinstance(el, Multiband_amplifier):
            bands_pmd, bands_pdl = [], []
            for st in e['amplifiers']:
                lo, hi = stage_band[st['type_variety']]
                pmd, pdl = case['edfa'][st['type_variety']]
                bands_pmd.append(f'(Some ({qlit(lo)}, {qlit(hi)}), {qlit(pmd)})')
                bands_pdl.append(f'(Some ({qlit(lo)}, {qlit(hi)}), {qlit(pdl)})')
                for j, f in enumerate(spec['f']):
                    if lo <= f - 25e9 and f + 25e9 <= hi:          # the stage that really amplifies channel j
                        ref['pmd2'][j] += pmd ** 2
                        ref['pdl2'][j] += pdl ** 2
            lits.append(f'ERoadm {listlit(bands_pmd)} {listlit(bands_pdl)}')
            ctx.count('mb_amplifiers')
        else:
            lits.append('EOther')
        si = el(si)
        af = snap(si)
        if si.frequency.tolist() != list(spec['f']):
            ctx.violation('mb_channels', f"{el.uid}: the channel set changed: {si.frequency.tolist()} vs {spec['f']}", cs)
            return None, None
        for j in range(len(spec['f'])):
            ok = (close(af['cd'][j], ref['cd'][j], 1e-11, 1e-30) and close(af['lat'][j], ref['lat'][j], 1e-11, 1e-30)
                  and close(af['pmd'][j] ** 2, ref['pmd2'][j], 1e-10, 1e-60) and close(af['pdl'][j] ** 2, ref['pdl2'][j], 1e-10, 1e-30))
            if not ok and not bad:
                bad = True
                ctx.violation('path_accumulation', f"after {type(el).__name__} {el.uid}, channel {j} ({spec['f'][j]:.4e} Hz): "
                              f"(cd,lat,pmd^2,pdl^2) = ({af['cd'][j]}, {af['lat'][j]}, {af['pmd'][j] ** 2}, {af['pdl'][j] ** 2}); the stages "
                              f"this channel crossed give ({ref['cd'][j]}, {ref['lat'][j]}, {ref['pmd2'][j]}, {ref['pdl2'][j]})", cs)
    return f"run_path {listlit(lits)} {chan_lits(spec)}", snap(si)


# ---- _create_lumped_losses / Euler scheme (exact)
def drive_merge(ctx, case):
    from gnpy.core.science_utils import RamanSolver
    z = np.array(case['z'])
    zl = case['zl']
    zz, ll = RamanSolver._create_lumped_losses(z, np.array([v for _, v in zl]), np.array([p for p, _ in zl]))
    impl = [(Fr(a), b) for a, b in zip(zz.tolist(), ll.tolist())]
    # oracle: every lumped loss is in the merged grid exactly once
    prod_in = math.prod(v for _, v in zl)
    prod_out = math.prod(ll.tolist())
    if not close(prod_in, prod_out, 1e-12):
        pos = [p for p, _ in zl]
        seen, first = set(), 1.0
        for p, v in zl:
            if p not in seen:
                seen.add(p)
                first *= v
        ctx.violation('lumped_once', f'merged grid carries a total lumped factor {prod_out}, the lumped losses multiply to {prod_in}',
                      strip(case), duplicate_positions=len(set(pos)) != len(pos), f10_regression_signature=close(first, prod_out, 1e-12))
    term = 'run_merge ' + listlit([f'({qlit(p)}, {qlit(v)})' for p, v in zl]) + ' ' + listlit([qlit(x) for x in case['z']])
    return term, impl


def drive_euler(ctx, case, sim):
    from gnpy.core.science_utils import RamanSolver
    sim.set(flag=True, method='numerical')
    power = RamanSolver.calculate_unidirectional_stimulated_raman_scattering(
        np.array(case['p']), np.array(case['alpha']), np.array(case['cr']), np.array(case['z']), np.array(case['lumped']))
    sim.set()
    grid = listlit([f'({qlit(a)}, {qlit(b)})' for a, b in zip(case['z'], case['lumped'])])
    term = (f"run_euler {listlit([qlit(a) for a in case['alpha']])} "
            f"{listlit([listlit([qlit(x) for x in row]) for row in case['cr']])} {grid} {listlit([qlit(x) for x in case['p']])}")
    return term, power[:, -1].tolist()


def drive_pert(ctx, case, sim):
    from gnpy.core.science_utils import RamanSolver
    sim.set(flag=True, method='perturbative', order=case['order'])
    try:
        power = RamanSolver.calculate_unidirectional_stimulated_raman_scattering(
            np.array(case['p']), np.array(case['alpha']), np.array(case['cr']), np.array(case['z']), np.array(case['lumped']))
    finally:
        sim.set()
    grid = listlit([f'({hexf(a)}, {hexf(b)})' for a, b in zip(case['z'], case['lumped'])])
    term = (f"run_pert {case['order']}%Z {flist(case['alpha'])} {listlit([flist(r) for r in case['cr']])} {grid} {flist(case['p'])}")
    return term, power.T.tolist()          # list of columns


class _FiberStub:
    def __init__(self, alpha, cr):
        self._alpha, self._cr = np.array(alpha), np.array(cr)

    def alpha(self, frequency):
        return self._alpha

    def cr(self, frequency):
        return self._cr


def drive_iter(ctx, case, sim):
    from gnpy.core.science_utils import RamanSolver
    nco = case['nco']
    cols = np.array(case['cols']).T           # waves x z
    n = cols.shape[0]
    co, cnt = RamanSolver.iterative_algorithm(cols[:nco].copy(), cols[nco:].copy(), np.zeros(nco), np.zeros(n - nco),
                                              np.array(case['z']), _FiberStub(case['alpha'], case['cr']), np.array(case['lumped']))
    out = np.concatenate((co, cnt), axis=0)
    term = (f"run_iter {nco}%nat {flist(case['alpha'])} {listlit([flist(r) for r in case['cr']])} {flist(case['z'])} "
            f"{flist(case['lumped'])} {listlit([flist(c) for c in case['cols']])}")
    return term, out.T.tolist()


# ---- Raman on: numerical tests
def raman_fiber(params, pumps=None):
    from gnpy.core.elements import Fiber, RamanFiber
    if pumps is None:
        return Fiber(uid='f', type_variety='SSMF', params=copy.deepcopy(params))
    return RamanFiber(uid='f', type_variety='SSMF', params=copy.deepcopy(params),
                      operational={'temperature': 283, 'raman_pumps': copy.deepcopy(pumps)})


def flat_si(freqs, p):
    from gnpy.core.info import create_arbitrary_spectral_information
    return create_arbitrary_spectral_information(np.array(freqs), slot_width=50e9, pch=p, baud_rate=32e9, tx_osnr=40.0, tx_power=p)


def solver_z(L, step):
    return np.append(np.arange(0, L, step), L)


def euler0_db(params, step, alpha_np):
    """zero-power attenuation of the Euler scheme on the grid the solver builds (float reference)"""
    L = params['length'] * 1e3
    zz = np.unique(np.concatenate((np.array([l['position'] * 1e3 for l in params['lumped_losses']]), solver_z(L, step))))
    return float(10 * np.log10(np.prod(1 - alpha_np * np.diff(zz))))


def drive_raman_low(ctx, case, sim):
    """low-power limit through Fiber.__call__: budget (perturbative: exact; numerical: within the Euler bound and
    equal to the proved zero-power closed form); each lumped loss once.  Returns a Coq term for numerical runs."""
    cs = strip(case)
    p = case['params']
    sim.set(flag=True, method=case['method'], order=case['order'], result_spatial_resolution=case['res'],
            solver_spatial_resolution=case['step'])
    try:
        fib = raman_fiber(p)
        fib.ref_pch_in_dbm = 0.0
        si = flat_si(case['f'], case['p'])
        pin = si.pch.copy()
        out = fib(si)
        loss = (10 * np.log10(pin / out.pch)).tolist()
    finally:
        sim.set()
    lumped = p['lumped_losses']
    if isinstance(p['loss_coef'], dict):      # per-frequency loss table: every channel against its own budget
        ctx.count('raman_low_per_frequency_' + case['method'])
        worst = None
        for f, x in zip(case['f'], loss):
            bud_f = fiber_budget_py(p, f)
            a_f = (bud_f - p['att_in'] - p['con_in'] - p['con_out'] - sum(l['loss'] for l in lumped)) / p['length'] * 1e-3 / LOG10E10
            zz = np.unique(np.concatenate((np.array([l['position'] * 1e3 for l in lumped]), solver_z(p['length'] * 1e3, case['step']))))
            if case['method'] == 'numerical' and float(np.max(a_f * np.diff(zz))) > 0.5:
                continue
            bnd = 2 * LOG10E10 * float(np.sum((a_f * np.diff(zz)) ** 2)) if case['method'] == 'numerical' else 0.0
            if abs(x - bud_f) > bnd + 1e-7 and (worst is None or abs(x - bud_f) > worst[0]):
                worst = (abs(x - bud_f), f, x, bud_f, bnd)
        if worst and not positions_dup(lumped):
            ctx.violation('raman_low_power', f"Raman on ({case['method']}, order {case['order']}, step {case['step']} m), plain fibre with a "
                          f"per-frequency loss table, {case['p']:.1e} W/channel: channel {worst[1]:.6e} Hz loses {worst[2]:.9f} dB, its budget "
                          f"(att_in + con_in + L*loss_coef(f) + lumped + con_out) is {worst[3]:.9f} dB, deviation {worst[0]:.3e} > Euler bound "
                          f"{worst[4]:.3e} + 1e-7", cs)
        return None, None
    bud = p['att_in'] + p['con_in'] + p['length'] * p['loss_coef'] + sum(l['loss'] for l in lumped) + p['con_out']
    a_np = p['loss_coef'] * 1e-3 / LOG10E10
    zz = np.unique(np.concatenate((np.array([l['position'] * 1e3 for l in lumped]), solver_z(p['length'] * 1e3, case['step']))))
    bound_db = 2 * LOG10E10 * float(np.sum((a_np * np.diff(zz)) ** 2)) if case['method'] == 'numerical' else 0.0
    dev = max(abs(x - bud) for x in loss)
    ctx.count('raman_low_' + case['method'])
    applicable = case['method'] != 'numerical' or float(np.max(a_np * np.diff(zz))) <= 0.5   # Props/C05 euler_discretisation_bound: |ln(1-x)+x| <= 2x^2 for x <= 1/2
    if not applicable:
        ctx.count('raman_low_bound_not_applicable')
    if applicable and dev > bound_db + 1e-7:
        dup = positions_dup(lumped)
        bud1 = bud - sum(l['loss'] for l in lumped) + first_occurrence_sum(lumped)
        expl = dup and max(abs(x - bud1) for x in loss) <= bound_db + 1e-7
        ctx.violation('raman_low_power', f"Raman on ({case['method']}, order {case['order']}, step {case['step']} m), "
                      f"{case['p']:.1e} W/channel: loss {loss} dB vs budget {bud:.9f} dB, deviation {dev:.3e} > "
                      f"Euler bound {bound_db:.3e} + 1e-7", cs, duplicate_positions=dup, f10_regression_signature=bool(expl))
    if case['method'] != 'numerical' or len(zz) > 60:      # exact rationals grow by ~100 bits per grid step
        return None, None
    # exact zero-power closed form on the same grid (the solver grid is recomputed here with the same numpy expression)
    zl = listlit([f"({qlit(l['position'] * 1e3)}, {qlit(10 ** (-l['loss'] / 10))})" for l in lumped])
    alpha_q = qlit(a_np)
    z = listlit([qlit(x) for x in solver_z(p['length'] * 1e3, case['step']).tolist()])
    term = f'join "," (map (fun a => qs (grid_factor a (merge_grid Qmult 1 {zl} {z}))) [{alpha_q}])'
    rest = p['att_in'] + p['con_in'] + p['con_out']
    return term, [x - rest for x in loss]


def drive_raman_cmp(ctx, case, sim):
    """TEST (not proved): SRS-induced gain of the perturbative method (orders 1-4) vs the numerical method, after
    removing each method's own zero-power attenuation"""
    from gnpy.core.science_utils import RamanSolver
    cs = strip(case)
    p, n, step = case['params'], case['n'], case['step']
    freqs = [191.5e12 + i * 4.8e12 / n for i in range(n)]
    res = {}
    try:
        for method, order in (('perturbative', 1), ('perturbative', 2), ('perturbative', 3), ('perturbative', 4), ('numerical', 2)):
            sim.set(flag=True, method=method, order=order, result_spatial_resolution=case['res'], solver_spatial_resolution=step)
            fib = raman_fiber(p)
            srs = RamanSolver.calculate_stimulated_raman_scattering(flat_si(freqs, case['p']), fib)
            res[(method, order)] = 10 * np.log10(srs.loss_profile[:, -1])
    finally:
        sim.set()
    lum = sum(l['loss'] for l in p['lumped_losses'])
    lin = -p['loss_coef'] * p['length'] - lum
    a_np = p['loss_coef'] * 1e-3 / LOG10E10
    g_num = res[('numerical', 2)] - (euler0_db(p, step, a_np) - lum)
    g = float(np.max(np.abs(g_num)))
    L = p['length'] * 1e3
    worst = {}
    for order in (1, 2, 3, 4):
        g_per = res[('perturbative', order)] - lin
        r = float(np.max(np.abs(g_per - g_num)))
        tol = 1e-5 + 3 * g * (a_np * step + step / L) + (LOG10E10 * (g / LOG10E10) ** 2 if order == 1 else 0.0)
        worst[order] = (r, tol)
        if r > tol:
            ctx.violation('raman_methods_disagree', f"SRS gain of perturbative order {order} and numerical differ by {r:.3e} dB "
                          f"(max |gain| {g:.3f} dB, step {step} m, L {L:.0f} m); tolerance {tol:.3e} dB", cs)
    ctx.count('raman_cmp')
    ctx.extra.setdefault('raman_cmp_worst_ratio', 0.0)
    ctx.extra['raman_cmp_worst_ratio'] = max(ctx.extra['raman_cmp_worst_ratio'], max(r / t for r, t in worst.values()))


def ref_bidirectional(alpha, cr, z, ll, p_co, p_cnt, iters=500):
    """independent reference for RamanSolver.iterative_algorithm: the fixed point of the explicit Euler scheme on the grid z
    with co-propagating waves integrated forward from z=0 and counter-propagating waves backward from z=L,
        P_c(i)   = P_c(i-1) (1 + (-a_c + sum_k cr_ck P_k(i-1)) (z_i - z_{i-1})) lumped_{i-1}
        P_n(i-1) = P_n(i)   (1 + (-a_n + sum_k cr_nk P_k(i))   (z_i - z_{i-1})) lumped_i
    iterated to convergence (1e-14 relative).  Returns (profile, last relative update): with strong pumping the alternating
    sweeps need not converge at all (they can settle in a 2-cycle), then the last update stays of order 1."""
    n, nco = z.size, len(p_co)
    dz = np.diff(z)
    P = np.zeros((alpha.size, n))
    P[:nco, 0] = p_co
    P[nco:, -1] = p_cnt
    for _ in range(iters):
        old = P.copy()
        for i in range(1, n):
            g = -alpha + cr @ P[:, i - 1]
            P[:nco, i] = P[:nco, i - 1] * (1 + g[:nco] * dz[i - 1]) * ll[i - 1]
        for m in range(n - 1, 0, -1):
            g = -alpha + cr @ P[:, m]
            P[nco:, m - 1] = P[nco:, m] * (1 + g[nco:] * dz[m - 1]) * ll[m]
        last = float(np.max(np.abs(P - old) / np.maximum(np.abs(P), 1e-300)))
        if not last >= 1e-14:
            break
    return P, last


RAMAN_ITER_TOL_DB = 5e-2     # measured on the unchanged code over 1000 cases: median 1e-10 dB, worst 1.4e-2 dB (the solver stops
                             # at accuracy 1e-3 or residue 1e-6); a wrong step/lumped index gives 0.04 - 13 dB


def drive_raman_pump(ctx, case, sim):
    """TEST (not proved): (i) the co/counter solution of RamanSolver (iterative algorithm) vs an independent Euler fixed point
    on the SAME non-uniform grid; (ii) counter-propagating pumps only add gain (all z)"""
    from gnpy.core.science_utils import RamanSolver
    cs = strip(case)
    p, n = case['params'], case['n']
    freqs = [191.5e12 + i * 4.8e12 / n for i in range(n)]
    co = [q for q in case['pumps'] if q['propagation_direction'] == 'coprop']
    try:
        sim.set(flag=True, method=case['method'], order=case['order'], result_spatial_resolution=case.get('res', 10e3),
                solver_spatial_resolution=case['step'])
        si = flat_si(freqs, case['p'])
        fib = raman_fiber(p, case['pumps'])
        # count the iterations of RamanSolver.iterative_algorithm (it logs one debug line per iteration; its loop stops when
        # residue <= 1e-6 or accuracy <= 1e-3 or after 1000 iterations - the cap means "did not converge")
        import gnpy.core.science_utils as _su
        iters, orig_debug = [0], _su.logger.debug

        def counting_debug(msg, *a, **k):
            if isinstance(msg, str) and 'Iteration:' in msg:
                iters[0] += 1
        _su.logger.debug = counting_debug
        try:
            srs = RamanSolver.calculate_stimulated_raman_scattering(si, fib)
        finally:
            _su.logger.debug = orig_debug
        with_p = srs.loss_profile[:n]
        # like for like: with counter-propagating pumps the signals are always integrated by the Euler sweeps of the
        # iterative algorithm, so the pump-free reference uses the Euler ('numerical') method on the same grid
        sim.set(flag=True, method='numerical', result_spatial_resolution=case.get('res', 10e3), solver_spatial_resolution=case['step'])
        if co:
            ref = RamanSolver.calculate_stimulated_raman_scattering(si, raman_fiber(p, co)).loss_profile[:n]
        else:
            ref = RamanSolver.calculate_stimulated_raman_scattering(si, raman_fiber(p)).loss_profile
    finally:
        sim.set()
    gain = 10 * np.log10(with_p / ref)
    ctx.count('raman_pump')
    ctx.count('raman_pump_co+counter' if co else 'raman_pump_counter_only')
    if float(gain.min()) < -1e-6:
        ctx.violation('counter_pump_loss', f"counter-propagating pumps reduce a channel by {-float(gain.min()):.3e} dB somewhere "
                      f"along the span ({case['method']}, order {case['order']})", cs)
    ctx.extra['raman_pump_min_gain_db'] = min(ctx.extra.get('raman_pump_min_gain_db', 1e9), float(gain[:, -1].min()))
    # independent reference on the same (generally non-uniform) grid
    co_p = [q for q in fib.raman_pumps if q.propagation_direction == 'coprop']
    cn_p = [q for q in fib.raman_pumps if q.propagation_direction == 'counterprop']
    f_all = np.array(freqs + [q.frequency for q in co_p] + [q.frequency for q in cn_p])
    L = fib.params.length
    zz = np.unique(np.concatenate((fib.z_lumped_losses, solver_z(L, case['step']))))
    ll = np.ones(zz.size)
    for zp, v in zip(fib.z_lumped_losses, fib.lumped_losses):
        ll[int(np.searchsorted(zz, zp))] *= v
    if float(np.max(np.abs(np.diff(np.diff(zz))))) > 1e-6:
        ctx.count('raman_pump_nonuniform_grid')
    P, ref_last = ref_bidirectional(fib.alpha(f_all), fib.cr(f_all), zz, ll, np.array([case['p']] * n + [q.power for q in co_p]),
                                    np.array([q.power for q in cn_p]))
    if iters[0] >= 1000 or not ref_last < 1e-12:
        # strong pumping: the alternating forward / backward sweeps do not converge (gnpy hits its iteration cap and / or the
        # reference iteration keeps a relative update of order 1): there is no converged solution to compare; the property does
        # not promise one.  The clause "counter pumps only add gain" was judged above on what gnpy returned.
        ctx.count('raman_pump_strong_pumping_not_judged')
        ctx.extra.setdefault('raman_pump_not_judged', []).append({'gnpy_iterations': iters[0], 'reference_last_update': ref_last})
        return
    ctx.count('raman_pump_solution_judged')
    refp = np.array([np.interp(srs.z, zz, P[j]) for j in range(P.shape[0])])
    if not (np.all(np.isfinite(srs.power_profile)) and np.all(srs.power_profile > 0) and np.all(refp > 0)):
        ctx.count('raman_pump_nonpositive_power_skipped')       # explicit Euler with a very coarse step can overshoot below zero
        return
    dev = float(np.max(np.abs(10 * np.log10(srs.power_profile / refp))))
    ctx.extra['raman_iter_worst_dev_db'] = max(ctx.extra.get('raman_iter_worst_dev_db', 0.0), dev)
    if not dev <= RAMAN_ITER_TOL_DB:
        k = np.unravel_index(int(np.nanargmax(np.abs(10 * np.log10(srs.power_profile / refp)))), refp.shape)
        ctx.violation('raman_counter_solution', f"power profile of the co/counter Raman solution differs from the Euler fixed point on the "
                      f"same grid ({zz.size} points, step {case['step']} m, L {L:.1f} m) by {dev:.3e} dB (wave {k[0]}, z = {srs.z[k[1]]:.0f} m); "
                      f"tolerance {RAMAN_ITER_TOL_DB} dB", cs)


def diff_float_profile(ctx, how, c, impl, model):
    """binary64 model (same operations, possibly another summation order / exp implementation) vs numpy: 1e-9 relative"""
    cs = strip(c)
    corr = 'corr:RamanSolver perturbative' if how == 'pert' else 'corr:RamanSolver.iterative_algorithm'
    parts = model.split('#')
    cols = [[parse_f(x) for x in col.split(',')] for col in parts[0].split(';')] if parts[0] else []
    ok = len(cols) == len(impl) and all(len(a) == len(b) for a, b in zip(cols, impl))
    if ok and not all(math.isfinite(x) for col in impl for x in col):
        # the explicit Euler / perturbative recurrence left the floating-point range in the implementation (huge steps x coupling):
        # nothing meaningful to judge; the model must have left it too (inf / nan somewhere), else that is a difference
        if all(math.isfinite(x) for col in cols for x in col):
            ctx.corr_break(corr, 'implementation overflows (inf/nan) where the model stays finite', cs)
        else:
            ctx.count(how + '_overflow_not_judged')
        return
    worst = None
    if ok:
        for i, (a, b) in enumerate(zip(impl, cols)):
            for j, (x, y) in enumerate(zip(a, b)):
                if not (math.isfinite(y) and close(x, y, 1e-9, 1e-300)):
                    worst = (i, j, x, y)
                    break
            if worst:
                break
    if how == 'iter' and len(parts) == 4:
        h = ctx.extra.setdefault('iterative_algorithm_iterations_histogram', {})
        h[parts[1]] = h.get(parts[1], 0) + 1
    if ok and not worst:
        return
    if how == 'iter' and len(parts) == 4:
        res, acc = parse_f(parts[2]), parse_f(parts[3])
        if abs(res - 1e-6) < 1e-9 * 1e-6 or abs(acc - 1e-3) < 1e-9 * 1e-3:
            ctx.count('iter_threshold_tie_skipped')
            return
    ctx.corr_break(corr, 'power profile differs' + (f' first at grid point {worst[0]}, wave {worst[1]}: implementation {worst[2]!r}, '
                   f'model {worst[3]!r}' if worst else ' in shape'), cs, impl=impl[worst[0]] if worst else None,
                   model=cols[worst[0]] if worst else None)


# ------------------------------------------------------------------ run
def run(ctx):
    logging.disable(logging.CRITICAL)
    np.seterr(all='ignore')
    rng = ctx.rng
    # second tie: re-translate the listed fragments of elements.py / parameters.py / science_utils.py from /repo's source; the
    # equivalence lemmas of Proofs/FiberGen.v are then re-checked by check_props against what the code says now
    from . import pygen_c05
    gen_ok, gen_msg = pygen_c05.regenerate()
    ctx.proof = common.check_props('C05')
    if not gen_ok:
        ctx.proof['ok'] = False
        ctx.proof['log'] = 'harness/pygen_c05.py: ' + gen_msg + '\n' + ctx.proof.get('log', '')
        ctx.proof['failed_file'] = 'theories/Gen/FiberGen.v (translation of /repo source failed)'
    ctx.rule = ('random fibres (1 m - 300 km, km/m units, scalar or per-frequency loss table, 0-4 lumped losses incl. on-grid and '
                'repeated positions, connectors, padding, default/scalar/slope/per-frequency dispersion, ref frequency/wavelength) x random '
                'spectra (1-10 channels, mixed baud rates, C/L band, non-zero initial CD/PMD/PDL/latency) through Fiber.__call__ vs the '
                'Gallina model; designed random line systems (1-3 OMS, 1-4 spans, Fused, three ROADM varieties incl. per-band impairments, '
                'library amplifiers with random PMD/PDL) element by element vs propagate_path; all permutations of <= 5 span units; '
                '_create_lumped_losses and the Euler scheme vs merge_grid/euler exactly; Raman-on numerical tests. A case is non-trivial '
                'when it has a lumped loss, a loss/dispersion table, or more than one element; distinct by content hash')
    cases = []
    for f in sorted(glob.glob(os.path.join(common.VERIF, 'corpus', 'C05', '*.json'))):
        c = json.load(open(f))
        c['_corpus'] = os.path.basename(f)
        cases.append(c)
    if ctx.replay:
        cases = [json.load(open(ctx.replay))['case']]
    else:
        eq0, _ = base_eq()
        cases += [gen_fiber_case(rng) for _ in range(ctx.scale(150, 2500))]
        cases += [gen_path_case(rng, eq0) for _ in range(ctx.scale(20, 300))]
        cases += [gen_path_case(rng, eq0, max_units=rng.choice([3, 4, 4])) for _ in range(ctx.scale(6, 60))]
        cases += [gen_rpath_case(rng, eq0, small=(k % 2 == 0)) for k in range(ctx.scale(5, 80))]
        cases += [gen_mb_case(rng) for _ in range(ctx.scale(10, 150))]
        cases += [gen_merge_case(rng) for _ in range(ctx.scale(60, 1500))]
        cases += [gen_euler_case(rng) for _ in range(ctx.scale(40, 500))]
        cases += [gen_pert_case(rng) for _ in range(ctx.scale(40, 800))]
        cases += [gen_iter_case(rng) for _ in range(ctx.scale(32, 500))]
        cases += [gen_raman_low_case(rng) for _ in range(ctx.scale(20, 300))]
        cases += [gen_raman_cmp_case(rng) for _ in range(ctx.scale(6, 60))]
        cases += [gen_raman_pump_case(rng) for _ in range(ctx.scale(16, 200))]
        rng_pf = __import__("random").Random(ctx.seed * 7919 + 5)
        cases += [gen_raman_low_pf_case(rng_pf) for _ in range(ctx.scale(12, 150))]
    terms, post = [], []
    fterms, fpost = [], []          # binary64 (NumF) terms
    with Sim() as sim:
        sim.set()                                   # Raman off, default NLI
        tkind = {}
        tlast = time.time()
        kind = 'setup'
        for c in cases:
            now = time.time()
            tkind[kind] = tkind.get(kind, 0.0) + now - tlast        # time spent on the previous case
            tlast = now
            kind = c['kind']
            ctx.count('kind_' + kind)
            cs = strip(c)
            if kind == 'fiber':
                obs = drive_fiber(c)
                if 'si0' in obs:
                    obs.pop('si0')
                if 'before' in obs and 'exc' not in obs:
                    sp = c['spectrum']
                    for k in ('p', 'cd', 'pmd', 'pdl', 'lat'):
                        if list(obs['before'][k]) != list(sp[k]):
                            ctx.violation('spectrum_construction', f"SpectralInformation built from per-channel arrays given in the order "
                                          f"{sp.get('perm')}: field '{k}' per channel is {obs['before'][k]}, given {sp[k]}", cs)
                            break
                p = c['params']
                ctx.count('stream_' + c.get('stream', 'valid'))
                ctx.count('loss_' + ('table' if isinstance(p['loss_coef'], dict) else 'scalar'))
                ctx.count('disp_' + ('table' if 'dispersion_per_frequency' in p else 'slope' if 'dispersion_slope' in p else 'scalar'))
                ctx.count('lumped_%d' % len(p.get('lumped_losses', [])))
                if positions_dup(p.get('lumped_losses', [])):
                    ctx.count('lumped_duplicate_position')
                ctx.count('outcome_' + obs.get('exc', 'ok'))
                ctx.case(cs, bool(p.get('lumped_losses')) or isinstance(p['loss_coef'], dict) or 'dispersion_per_frequency' in p)
                oracle_fiber(ctx, c, obs)
                terms.append(f"run_fiber {fiber_lit(p)} {chan_lits(c['spectrum'])}")
                post.append((diff_fiber, c, obs))
            elif kind in ('path', 'perm'):
                try:
                    built = build_path(c)
                except Exception as e:       # a design-time failure is not this property's business; counted, and bounded below
                    ctx.count('path_design_exception')
                    ctx.count('path_design_exception_' + type(e).__name__)
                    continue
                try:
                    term, final, path, desc = drive_path(ctx, c, built)
                except Exception as e:
                    ctx.violation('path_exception', f'{type(e).__name__}: {e}', cs)
                    continue
                ctx.case(cs, True)
                ctx.count('path_elements', len(path))
                terms.append(term)
                post.append((diff_path, c, final))
                if kind == 'perm':
                    run_perm(ctx, c, path, desc, final, rng)
            elif kind == 'rpath':
                try:
                    term, final, path = drive_rpath(ctx, c, sim, rng)
                except Exception as e:
                    ctx.violation('path_exception', f'{type(e).__name__}: {e}', cs)
                    sim.set()
                    continue
                ctx.case(cs, True)
                ctx.count('path_elements', len(path))
                terms.append(term)
                post.append((diff_path, c, final))
            elif kind == 'mb':
                term, final = drive_mb(ctx, c)
                ctx.case(cs, True)
                if term:
                    terms.append(term)
                    post.append((diff_path, c, final))
            elif kind == 'merge':
                term, impl = drive_merge(ctx, c)
                ctx.case(cs, bool(c['zl']))
                terms.append(term)
                post.append(('merge', c, impl))
            elif kind == 'euler':
                term, impl = drive_euler(ctx, c, sim)
                ctx.case(cs, True)
                terms.append(term)
                post.append(('euler', c, impl))
            elif kind == 'pert':
                term, impl = drive_pert(ctx, c, sim)
                ctx.case(cs, True)
                ctx.count('pert_order_%d' % c['order'])
                fterms.append(term)
                fpost.append(('pert', c, impl))
            elif kind == 'iter':
                term, impl = drive_iter(ctx, c, sim)
                ctx.case(cs, True)
                fterms.append(term)
                fpost.append(('iter', c, impl))
            elif kind == 'raman_low':
                term, impl = drive_raman_low(ctx, c, sim)
                ctx.case(cs, True)
                if term:
                    terms.append(term)
                    post.append(('euler0', c, impl))
            elif kind == 'raman_cmp':
                drive_raman_cmp(ctx, c, sim)
                ctx.case(cs, True)
            elif kind == 'raman_pump':
                drive_raman_pump(ctx, c, sim)
                ctx.case(cs, True)
            else:
                raise ValueError(f'unknown case kind {kind}')
    npath = ctx.counters.get('kind_path', 0) + ctx.counters.get('kind_perm', 0)
    if not ctx.replay and ctx.counters.get('path_design_exception', 0) > 0.2 * max(npath, 1):
        raise RuntimeError('more than 20% of the generated line systems could not be designed: generator broken')
    tkind[kind] = tkind.get(kind, 0.0) + time.time() - tlast
    ctx.extra['python_seconds_by_kind'] = {k: round(v, 2) for k, v in tkind.items()}
    t_coq = time.time()
    import random
    order = list(range(len(terms)))
    random.Random(0).shuffle(order)                 # spread the expensive (path) terms over the shards
    terms = [terms[i] for i in order]
    post = [post[i] for i in order]
    lines = common.coq_eval('C05', 'Prelude Model.Fiber Run.C05', terms, per_file=ctx.scale(10, 40), prelude='Open Scope Q_scope.',
                            timeout=ctx.scale(900, 3600))
    flines = common.coq_eval('C05', 'Prelude Num NumRun Model.Raman Run.C05F', fterms, per_file=ctx.scale(20, 60), tag='fcases',
                             prelude='Open Scope float_scope.', timeout=ctx.scale(900, 3600))
    ctx.extra['coq_eval_seconds'] = round(time.time() - t_coq, 2)
    for (how, c, impl), model in zip(fpost, flines):
        diff_float_profile(ctx, how, c, impl, model)
    for (how, c, impl), model in zip(post, lines):
        if callable(how):
            how(ctx, c, impl, model)
        elif how == 'merge':
            mg = [(Fr(item.split(':')[0]), float(Fr(item.split(':')[1]))) for item in model.split(',')] if model else []
            same = len(mg) == len(impl) and all(a[0] == b[0] and close(a[1], b[1], 1e-12) for a, b in zip(impl, mg))
            if not same:     # positions are selected, never computed: exact; accumulated values within float rounding
                ctx.corr_break('corr:RamanSolver._create_lumped_losses', 'merged (z, lumped) grid differs', strip(c),
                               impl=[(float(a), b) for a, b in impl], model=[(float(a), b) for a, b in mg])
        elif how == 'euler':
            mv = [float(Fr(x)) for x in model.split(',')]
            if len(mv) != len(impl) or any(not close(a, b, 1e-9, 1e-300) for a, b in zip(impl, mv)):
                ctx.corr_break('corr:RamanSolver numerical (Euler) scheme', 'final powers differ', strip(c), impl=impl, model=mv)
        elif how == 'euler0':
            mdb = -10 * math.log10(float(Fr(model)))
            if any(abs(x - mdb) > 1e-7 for x in impl):
                ctx.corr_break('corr:RamanSolver numerical, zero-power limit', f'fibre loss at {c["p"]:.1e} W/channel {impl} dB vs '
                               f'proved closed form prod(1-alpha dz) * prod(lumped) = {mdb:.9f} dB', strip(c), impl=impl, model=mdb)
    ctx.notes += [
        'PROVED (Props/C05.v): Raman-off budget for every lumped-loss list (repeated positions accumulate, fix d757514e); merged grid '
        'carries the total of all lumped losses and is sorted; path additivity / permutation invariance of CD, latency, PMD^2, PDL^2; '
        'PMD/PDL quadrature over R for fibres, amplifiers and ROADMs and its rational squared form; pi cancels in the span CD for scalar, '
        'slope and table dispersion; Euler scheme: zero-power closed form, its real limit as the input powers go to 0, each lumped loss '
        'once on the solver grid, discretisation bound |ln prod(1-alpha dz)+alpha L| <= 2 sum (alpha dz)^2; perturbative solver order 1: '
        'low-power bound |exponent + alpha z| <= max|cr| * P_tot * z, zero-coupling profile = p * lumped-so-far * exp(-alpha z) with each '
        'lumped loss once, agreement with the Euler scheme in the zero-power limit up to the discretisation factor; iterative algorithm: '
        'the backward sweep consumes the step lengths of the (uniform or non-uniform) grid in reverse order, each once, and at zero '
        'coupling gives every counter-propagating wave the product over the last i steps; first-order pump gain >= 0.',
        'MODELLED AND RUN AGAINST THE CODE (binary64 instance NumF of Model/Raman.v, same Gallina terms as the theorems, 1e-9 relative): '
        'RamanSolver.calculate_unidirectional_stimulated_raman_scattering method perturbative, orders 0-4, incl. lumped losses, on random '
        'non-uniform grids; RamanSolver.iterative_algorithm (forward + backward Euler sweeps and stopping rule) on random non-uniform grids '
        'with lumped losses.  That NumF approximates NumR is not proved (trusted base).',
        'TEST ONLY (not proved, numerical comparison on the real RamanSolver): (a) low-power limit of Fiber.__call__ vs budget — '
        'perturbative orders 1-4 within 1e-7 dB, numerical within the proved discretisation bound 2*4.343*sum((alpha dz_k)^2) dB + 1e-7 dB '
        '(when alpha dz <= 1/2) and within 1e-7 dB of the proved closed form (exact, grids <= 60 points); (b) perturbative orders 2-4 vs '
        'numerical SRS gain at non-zero power after removing each method\'s zero-power attenuation: tolerance 1e-5 + 3*g*(alpha*dz + dz/L) dB '
        '(+ 4.343*(g/4.343)^2 dB for order 1), g = max |SRS gain| in dB; measured on the unchanged code: worst residual/tolerance ~0.35; '
        '(c) counter-propagating pumps never lower any channel at any z by more than 1e-6 dB relative to the same fibre without them, both '
        'integrated by the Euler scheme on the same grid (measured minimum on the unchanged code: 0.0 dB); (d) the converged co/counter '
        'solution of calculate_stimulated_raman_scattering (signals and pumps, every result z) vs an independent fixed point of the '
        'bidirectional Euler scheme on the same NON-UNIFORM grid: tolerance 5e-2 dB; measured on the unchanged code over 1000 cases: median '
        '1e-10 dB, worst 1.4e-2 dB (the solver stops at accuracy 1e-3).',
        'The raw difference between the numerical and perturbative methods is dominated by the Euler bias (0.018 dB per 80 km at 50 m '
        'steps, 5.4 dB at the RamanParams default solver_spatial_resolution of 10 km): the methods agree only up to that bound.',
    ]
    ctx.assumptions += [
        'translator tie: harness/pygen_c05.py (fail-closed Python-ast -> Gallina: templates for Fiber.propagate, RamanFiber.propagate, '
        'Fiber.chromatic_dispersion / beta2 / beta3, Fiber.__init__ lumped losses, _create_lumped_losses, the numerical update and the two '
        'sweeps of iterative_algorithm; translation of their arithmetic and of Fiber.pmd, Fiber.loss, FiberParams latency) is trusted to '
        'read the source faithfully; the generated Gen/FiberGen.v is proved equal to the models (C05_source_* theorems)',
        'the Q model of interp1d/numpy.interp, numpy.unique + multiply.at and numpy.polyfit (least squares, normal equations) is exact '
        'arithmetic; float rounding inside numpy/scipy is absorbed by the 1e-9 relative (1e-9 dB) tolerance',
        'pi enters the dispersion formulas of the model as the rational 355/113; cd_scalar / cd_slope / cd_table_pi_indep prove that it cancels',
        'amplifier and ROADM PMD/PDL values fed to the model come from the generated equipment configuration (the auto-selected amplifier '
        'variety and the ROADM variety are read from the built elements)',
        'perturbative orders 2-4 at non-zero power and convergence of the iterative algorithm are modelled and executed (NumF) but only '
        'their order-1 / zero-coupling / structural properties are proved (see notes)',
    ]
    return common.finish(ctx)
