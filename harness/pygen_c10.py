"""Translator tie for C10 (second tie between /repo's source and Model/Select.v), built on harness/pygen.py.

On every run the functions below are re-read from <repo>/gnpy/core/network.py; their bookkeeping is matched against
templates (every statement must be the expected one) and the decision-carrying expressions (holes H_x) are translated
into Gallina over Q; the result is written to coq/theories/Gen/SelectGen.v and Proofs/SelectGen.v proves each
generated definition equal to the hand-written model.

  filter_edfa_list_based_on_targets   template FILTER; translated: pin, the power / gain_min expressions and the
                                      Raman tests of the EDFA list and of the Raman list, the three list filters
                                      (gain_min > 0, power > 0, power - power_max > -0.3)
  select_edfa                         template SELECT (incl. the call of the filter with its argument order and
                                      min(key=attrgetter('nf'))); translated: the power reduction
  get_node_restrictions               template RESTR (precedence chain, multiband branch untouched); translated: the
                                      condition of the single-band candidate comprehension
  preselect_multiband_amps            template PRESEL (incl. the call of the filter and the restriction of the union to
                                      the permitted models); translated: the band-cover condition of the candidates
  set_one_amplifier                   only its 2nd statement (raman_allowed), template RAMAN; translated: the elementwise
                                      comparison under .all()
  edfa_nf                             template NF, whole (no hole): builds a fresh Edfa from the entry and the required gain
                                      and returns its _calc_nf - the ranking key depends on the library entry at hand only
  the module                          check_stateless: network.py keeps no state between calls - its top-level statements are
                                      the docstring, imports, undecorated functions and the four assignments of MODULE_ASSIGNS;
                                      no global / nonlocal, no mutable or computed default argument, no attribute stored on a
                                      module-level function
Anything outside the subset raises Unsupported (fail closed).  Float constants are read as the decimal they are written as.
"""
import ast
import os
from fractions import Fraction

from . import common
from .pygen import Tr, Unsupported, dotted, find, match_template, strip_doc

SRC = 'gnpy/core/network.py'

ATTR = {
    'edfa.gain_flatmax': '(a_gmax a)', 'edfa.p_max': '(a_pmax a)', 'edfa.gain_min': '(a_gmin a)', 'edfa.raman': '(a_raman a)',
    'x.gain_min': '(r_gain_min x)', 'x.power': '(r_power x)', 'selected_edfa.power': '(r_power s)',
    'a.f_min': '(a_fmin a)', 'a.f_max': '(a_fmax a)', 'a.allowed_for_design': '(a_allowed a)',
    "band['f_min']": 'bmin', "band['f_max']": 'bmax',
    "equipment['Edfa'][t].f_min": '(a_fmin a)', "equipment['Edfa'][t].f_max": '(a_fmax a)',
    "_design_bands[band]['f_min']": 'bmin', "_design_bands[band]['f_max']": 'bmax',
    'prev_node.params.loss_coef': 'lc',
}
NAMES = {'target_extended_gain': 'ext', 'power_target': 'pt', 'gain_target': 'gain', 'pin': 'pin', 'power_max': 'power_max',
         'max_fiber_lineic_loss_for_raman': 'maxl'}
BOOL_ATTR = {'edfa.raman', 'a.allowed_for_design'}


def key_of(n):
    """dotted name with constant subscripts, e.g. band['f_min'], equipment['Edfa'][t].f_min"""
    if isinstance(n, ast.Name):
        return n.id
    if isinstance(n, ast.Attribute):
        return key_of(n.value) + '.' + n.attr
    if isinstance(n, ast.Subscript):
        if isinstance(n.slice, ast.Constant) and isinstance(n.slice.value, str):
            return f"{key_of(n.value)}['{n.slice.value}']"
        if isinstance(n.slice, ast.Name):
            return f'{key_of(n.value)}[{n.slice.id}]'
    raise Unsupported(ast.dump(n)[:120])


class TrQ(Tr):
    """expressions over Q (dB arithmetic): + - *, min/max of two, decimal constants, comparisons -> qltb / Qle_bool"""

    def __init__(self, attr=None, names=None):
        super().__init__(set(), {}, attr=ATTR if attr is None else attr, names=NAMES if names is None else names, monadic={})

    def num(self, v):
        if isinstance(v, bool):
            return 'true' if v else 'false'
        if isinstance(v, int):
            return f'(- {-v})' if v < 0 else str(v)
        if isinstance(v, float):
            fr = Fraction(repr(v))
            if fr.denominator == 1:
                return self.num(int(fr))
            return f'(- ({-fr.numerator} # {fr.denominator}))' if fr < 0 else f'({fr.numerator} # {fr.denominator})'
        raise Unsupported(f'constant {v!r}')

    def e(self, n):
        if isinstance(n, (ast.Attribute, ast.Subscript)):
            k = key_of(n)
            if k in self.attr:
                return self.attr[k]
            raise Unsupported(f'attribute {k}')
        if isinstance(n, ast.Call) and isinstance(n.func, ast.Name) and n.func.id in ('min', 'max') \
                and len(n.args) == 2 and not n.keywords:
            return f"({'Qmin' if n.func.id == 'min' else 'Qmax'} {self.e(n.args[0])} {self.e(n.args[1])})"
        if isinstance(n, ast.UnaryOp) and isinstance(n.op, ast.USub) and isinstance(n.operand, ast.Constant):
            return f'(- {self.num(n.operand.value)})'
        if isinstance(n, ast.BinOp) and not isinstance(n.op, (ast.Add, ast.Sub, ast.Mult)):
            raise Unsupported(f'operator {type(n.op).__name__}')
        if isinstance(n, ast.BinOp) and isinstance(n.left, ast.List):
            raise Unsupported('list repetition')
        return super().e(n)

    def b(self, n):
        if isinstance(n, ast.BoolOp):
            op = '&&' if isinstance(n.op, ast.And) else '||'
            return '(' + f' {op} '.join(self.b(v) for v in n.values) + ')'
        if isinstance(n, ast.UnaryOp) and isinstance(n.op, ast.Not):
            if isinstance(n.operand, ast.Name) and n.operand.id == 'restrictions':
                return '(isnil r)'
            return f'(negb {self.b(n.operand)})'
        if isinstance(n, ast.Attribute) and key_of(n) in BOOL_ATTR:
            return f'({self.attr[key_of(n)]})'
        if isinstance(n, ast.Compare) and len(n.ops) == 1:
            l, r, op = n.left, n.comparators[0], n.ops[0]
            if isinstance(op, ast.NotEq) and key_of(l) == 'a.type_def' and isinstance(r, ast.Constant) and r.value == 'multi_band':
                return '(negb (a_multi a))'
            if isinstance(op, ast.In) and isinstance(l, ast.Name) and l.id == 'n' and isinstance(r, ast.Name) \
                    and r.id == 'restrictions':
                return '(smem (a_name a) r)'
            le, re_ = self.e(l), self.e(r)
            if isinstance(op, ast.Gt):
                return f'(qltb {re_} {le})'
            if isinstance(op, ast.Lt):
                return f'(qltb {le} {re_})'
            if isinstance(op, ast.LtE):
                return f'(Qle_bool {le} {re_})'
            if isinstance(op, ast.GtE):
                return f'(Qle_bool {re_} {le})'
            raise Unsupported(f'comparison {type(op).__name__}')
        raise Unsupported('condition ' + ast.dump(n)[:120])


FILTER = """
Edfa_list = namedtuple('Edfa_list', 'variety power gain_min nf f_min f_max')
edfa_dict = {name: amp for (name, amp) in edfa_eqpt.items()}
pin = H_pin
edfa_list = [Edfa_list(variety=edfa_variety, power=H_epow, gain_min=H_egm,
                       nf=edfa_nf(gain_target, edfa_eqpt[edfa_variety]), f_min=edfa.f_min, f_max=edfa.f_max)
             for edfa_variety, edfa in edfa_dict.items() if H_efilter]
raman_list = [Edfa_list(variety=edfa_variety, power=H_rpow, gain_min=H_rgm,
                        nf=edfa_nf(gain_target, edfa_eqpt[edfa_variety]), f_min=edfa.f_min, f_max=edfa.f_max)
              for edfa_variety, edfa in edfa_dict.items() if H_rfilter] if raman_allowed else []
amp_list = edfa_list + raman_list
acceptable_gain_min_list = [x for x in amp_list if H_gainok]
if len(acceptable_gain_min_list) < 1:
    if len(edfa_list) < 1:
        raise ConfigurationError(H_msg)
    else:
        if verbose:
            H_LOG1
        acceptable_gain_min_list = edfa_list
acceptable_power_list = [x for x in acceptable_gain_min_list if H_powok]
if len(acceptable_power_list) < 1:
    power_max = max(acceptable_gain_min_list, key=attrgetter('power')).power
    acceptable_power_list = [x for x in acceptable_gain_min_list if H_window]
return acceptable_power_list
"""

SELECT = """
try:
    tilt_target = 0
    with warnings.catch_warnings(record=True) as caught_warnings:
        acceptable_power_list = filter_edfa_list_based_on_targets(uid, edfa_eqpt, power_target, gain_target,
                                                                  tilt_target, target_extended_gain, raman_allowed, verbose)
        if caught_warnings:
            H_S1
            H_S2
except ConfigurationError as e:
    raise ConfigurationError(H_m) from e
selected_edfa = min(acceptable_power_list, key=attrgetter('nf'))
power_reduction = H_red
if power_reduction < -0.5 and verbose:
    H_LOG
return selected_edfa.variety, power_reduction
"""

RESTR = """
if node.params.type_variety != '' and node.params.type_variety:
    return [node.params.type_variety]
restrictions = []
if node.variety_list and isinstance(node.variety_list, list):
    restrictions = node.variety_list
elif isinstance(prev_node, elements.Roadm) and prev_node.restrictions['booster_variety_list']:
    restrictions = prev_node.restrictions['booster_variety_list']
elif isinstance(next_node, elements.Roadm) and next_node.restrictions['preamp_variety_list']:
    restrictions = next_node.restrictions['preamp_variety_list']
if isinstance(node, elements.Multiband_amplifier):
    H_MB1
    H_MB2
    H_MB3
    H_MB4
if isinstance(node, elements.Edfa):
    band = next(b for b in _design_bands.values())
    edfa_eqpt = [n for n, a in equipment['Edfa'].items() if H_cond]
    return edfa_eqpt
"""

PRESEL = """
target_extended_gain = equipment['Span']['default'].target_extended_gain
_selected_type_varieties = list(restrictions)
for band, amp in _amplifiers.items():
    edfa_eqpt = {t: equipment['Edfa'][t]
                 for m in _selected_type_varieties for t in equipment['Edfa'][m].multi_band
                 if H_cover}
    gain_target, power_target, _tilt_target, _, _, _ = \\
        compute_gain_power_and_tilt_target(amp, prev_node, next_node, power_mode, prev_voa[band], prev_dp[band],
                                           pref_total_db[band], network, equipment, deviation_db[band], tilt_target[band])
    _selection = [a.variety
                  for a in filter_edfa_list_based_on_targets(uid, edfa_eqpt, power_target, gain_target,
                                                             _tilt_target, target_extended_gain)]
    listes = find_type_varieties(_selection, equipment)
    _selected_type_varieties = []
    if listes:
        union = reduce(lambda x, y: set(x) | set(y), listes)
        _selected_type_varieties = [m for m in restrictions if m in union]
return [t for m in _selected_type_varieties for t in equipment['Edfa'][m].multi_band]
"""

RAMAN = """
if isinstance(prev_node, elements.Fiber):
    max_fiber_lineic_loss_for_raman = equipment['Span']['default'].max_fiber_lineic_loss_for_raman * 1e-3
    raman_allowed = (H_cmp).all()
else:
    raman_allowed = False
"""

HEADER = """(* GENERATED on every run by harness/pygen_c10.py from gnpy/core/network.py of /repo - do not edit. *)
From Coq Require Import QArith Qminmax.
From Verif Require Import Prelude Model.Select.
Open Scope Q_scope.

(* one entry of the Edfa_list namedtuple: the library entry, its power margin and its gain_min margin *)
Record row := mkRow { r_amp : amp; r_power : Q; r_gain_min : Q }.
(* min(rows, key=nf): first row of minimal key *)
Fixpoint first_min_row (nf : amp -> Q) (best : row) (l : list row) : row :=
  match l with
  | [] => best
  | x :: t => if qltb (nf (r_amp x)) (nf (r_amp best)) then first_min_row nf x t else first_min_row nf best t
  end.
"""


NF = """
amp = elements.Edfa(uid='calc_NF', params=amp_params.__dict__,
                    operational={'gain_target': gain_target, 'tilt_target': 0})
amp.pin_db = 0
amp.nch = 88
amp.slot_width = 50e9
return amp._calc_nf(True)
"""

# the only assignments at the top level of network.py: a logger, two typing aliases, a tuple of classes
MODULE_ASSIGNS = [
    'logger = getLogger(__name__)',
    'ELEMENT_TYPES = Union[elements.Fiber, elements.Roadm, elements.Fused, elements.Edfa, elements.Transceiver, '
    'elements.Transceiver]',
    'PASSIVE_ELEMENT_TYPES = Union[elements.Fiber, elements.Roadm, elements.Fused]',
    '_fiber_fused_types = (elements.Fused, elements.Fiber)',
]


def check_stateless(tree):
    """network.py keeps nothing between two calls of its functions (what one design computed cannot reach the next one,
    e.g. through a memo keyed by model names): fail closed on anything that could hold such state"""
    allowed = {ast.dump(ast.parse(x).body[0]) for x in MODULE_ASSIGNS}
    top_funcs = set()
    for i, n in enumerate(tree.body):
        if i == 0 and isinstance(n, ast.Expr) and isinstance(n.value, ast.Constant) and isinstance(n.value.value, str):
            continue
        if isinstance(n, (ast.Import, ast.ImportFrom)):
            continue
        if isinstance(n, ast.FunctionDef):
            top_funcs.add(n.name)
            continue
        if isinstance(n, ast.Assign) and ast.dump(n) in allowed:
            continue
        raise Unsupported(f'module-level statement of network.py (line {n.lineno}): {ast.unparse(n)[:120]}')
    for n in ast.walk(tree):
        if isinstance(n, (ast.Global, ast.Nonlocal)):
            raise Unsupported(f'global / nonlocal {n.names} (line {n.lineno})')
        if isinstance(n, ast.ClassDef):
            raise Unsupported(f'class {n.name} (line {n.lineno})')
        if isinstance(n, (ast.FunctionDef, ast.AsyncFunctionDef)):
            if n.decorator_list:
                raise Unsupported(f'decorated function {n.name} (line {n.lineno})')
            for d in n.args.defaults + [x for x in n.args.kw_defaults if x is not None]:
                if not (isinstance(d, ast.Constant) or (isinstance(d, ast.UnaryOp) and isinstance(d.operand, ast.Constant))):
                    raise Unsupported(f'default argument of {n.name} (line {n.lineno}): {ast.unparse(d)}')
        targets = n.targets if isinstance(n, ast.Assign) else [n.target] if isinstance(n, (ast.AugAssign, ast.AnnAssign)) else []
        for tg in targets:
            base = tg
            while isinstance(base, (ast.Attribute, ast.Subscript)):
                base = base.value
            if base is not tg and isinstance(base, ast.Name) and (base.id in top_funcs or base.id in ('logger', 'elements')
                                                                   or base.id.isupper() or base.id == '_fiber_fused_types'):
                raise Unsupported(f'store into module-level object {base.id} (line {n.lineno})')


def generate(repo=None):
    repo = repo or common.REPO
    tree = ast.parse(open(os.path.join(repo, SRC)).read())
    out = [HEADER]
    t = TrQ()
    # ---- no state between calls; the ranking key
    check_stateless(tree)
    fn = find(tree, 'edfa_nf')
    if [a.arg for a in fn.args.args] != ['gain_target', 'amp_params'] or fn.args.defaults:
        raise Unsupported('signature of edfa_nf')
    match_template(NF, strip_doc(fn.body), 'edfa_nf')
    out.append('(* edfa_nf: template-matched whole (a fresh Edfa of the entry at the required gain, its _calc_nf); network.py '
               'keeps no state between calls (check_stateless) *)')
    out.append('Definition g_nf_of_entry_at_hand : bool := true.\n')
    # ---- filter_edfa_list_based_on_targets
    fn = find(tree, 'filter_edfa_list_based_on_targets')
    pos = [a.arg for a in fn.args.args]
    if pos != ['uid', 'edfa_eqpt', 'power_target', 'gain_target', 'tilt_target', 'target_extended_gain', 'raman_allowed',
               'verbose']:
        raise Unsupported('signature of filter_edfa_list_based_on_targets')
    if [ast.dump(d) for d in fn.args.defaults] != [ast.dump(ast.Constant(True)), ast.dump(ast.Constant(False))]:
        raise Unsupported('defaults of filter_edfa_list_based_on_targets (raman_allowed=True, verbose=False)')
    b = match_template(FILTER, strip_doc(fn.body), 'filter_edfa_list_based_on_targets')
    out.append('(* filter_edfa_list_based_on_targets: translated expressions *)')
    out.append(f'Definition g_pin (pt gain : Q) : Q := {t.e(b["H_pin"])}.')
    for nm, hp, hg, hf in (('edfa', 'H_epow', 'H_egm', 'H_efilter'), ('raman', 'H_rpow', 'H_rgm', 'H_rfilter')):
        out.append(f'Definition g_{nm}_power (ext gain pt : Q) (a : amp) : Q := let pin := g_pin pt gain in {t.e(b[hp])}.')
        out.append(f'Definition g_{nm}_gain_min (gain : Q) (a : amp) : Q := {t.e(b[hg])}.')
        out.append(f'Definition g_{nm}_filter (a : amp) : bool := {t.b(b[hf])}.')
    out.append(f'Definition g_gain_ok (x : row) : bool := {t.b(b["H_gainok"])}.')
    out.append(f'Definition g_power_ok (x : row) : bool := {t.b(b["H_powok"])}.')
    out.append(f'Definition g_window (power_max : Q) (x : row) : bool := {t.b(b["H_window"])}.')
    out.append("""
(* filter_edfa_list_based_on_targets: the template-matched skeleton around them *)
Definition g_filter (ra : bool) (gain pt ext : Q) (lib : list amp) : res (list row) :=
  let edfa_list := map (fun a => mkRow a (g_edfa_power ext gain pt a) (g_edfa_gain_min gain a)) (filter g_edfa_filter lib) in
  let raman_list := if ra then map (fun a => mkRow a (g_raman_power ext gain pt a) (g_raman_gain_min gain a))
                                   (filter g_raman_filter lib) else [] in
  let amp_list := edfa_list ++ raman_list in
  let acceptable_gain_min_list := filter g_gain_ok amp_list in
  let* acceptable_gain_min_list :=
    if (length acceptable_gain_min_list <? 1)%nat then
      if (length edfa_list <? 1)%nat
      then Err "ConfigurationError:auto_design could not find any amplifier to satisfy min gain requirement"
      else Ok edfa_list
    else Ok acceptable_gain_min_list in
  let acceptable_power_list := filter g_power_ok acceptable_gain_min_list in
  if (length acceptable_power_list <? 1)%nat then
    match acceptable_gain_min_list with
    | [] => Err "ValueError:max() arg is an empty sequence"
    | h :: t => let power_max := fold_left (fun m x => Qmax m (r_power x)) t (r_power h) in
                Ok (filter (g_window power_max) acceptable_gain_min_list)
    end
  else Ok acceptable_power_list.
""")
    # ---- select_edfa
    fn = find(tree, 'select_edfa')
    if [a.arg for a in fn.args.args] != ['raman_allowed', 'gain_target', 'power_target', 'edfa_eqpt', 'uid',
                                         'target_extended_gain', 'verbose']:
        raise Unsupported('signature of select_edfa')
    b = match_template(SELECT, strip_doc(fn.body), 'select_edfa')
    out.append('(* select_edfa *)')
    out.append(f'Definition g_power_reduction (s : row) : Q := {t.e(b["H_red"])}.')
    out.append("""Definition g_select_edfa (ra : bool) (gain pt ext : Q) (nf : amp -> Q) (lib : list amp) : res (amp * Q) :=
  let* acceptable_power_list := g_filter ra gain pt ext lib in
  match acceptable_power_list with
  | [] => Err "ValueError:min() arg is an empty sequence"
  | h :: t => let s := first_min_row nf h t in Ok (r_amp s, g_power_reduction s)
  end.
""")
    # ---- get_node_restrictions (single-band branch)
    fn = find(tree, 'get_node_restrictions')
    b = match_template(RESTR, strip_doc(fn.body), 'get_node_restrictions')
    out.append('(* get_node_restrictions: condition of the single-band candidate comprehension *)')
    out.append(f'Definition g_permb (r : list string) (bmin bmax : Q) (a : amp) : bool := {t.b(b["H_cond"])}.\n')
    # ---- preselect_multiband_amps
    fn = find(tree, 'preselect_multiband_amps')
    b = match_template(PRESEL, strip_doc(fn.body), 'preselect_multiband_amps')
    out.append('(* preselect_multiband_amps: band-cover condition of the candidates *)')
    out.append(f'Definition g_presel_cover (a : amp) (bmin bmax : Q) : bool := {t.b(b["H_cover"])}.\n')
    # ---- set_one_amplifier: raman_allowed
    fn = find(tree, 'set_one_amplifier')
    body = strip_doc(fn.body)
    if len(body) < 2:
        raise Unsupported('set_one_amplifier')
    b = match_template(RAMAN, [body[1]], 'set_one_amplifier (raman_allowed)')
    out.append('(* set_one_amplifier: raman_allowed = (loss_coef < limit).all() after a Fiber, False otherwise *)')
    out.append(f'Definition g_raman_elem (lc maxl : Q) : bool := {t.b(b["H_cmp"])}.')
    out.append("""Definition g_raman_allowed (prev : neigh) (maxl : Q) : bool :=
  match prev with NFiber lcs => forallb (fun lc => g_raman_elem lc maxl) lcs | _ => false end.
""")
    return '\n'.join(out)


def regenerate():
    """(Re)write coq/theories/Gen/SelectGen.v when its content changed. Returns (ok, message)."""
    dst = os.path.join(common.COQ, 'theories', 'Gen', 'SelectGen.v')
    try:
        txt = generate()
    except (Unsupported, SyntaxError, OSError, KeyError) as e:
        return False, f'translation failed: {type(e).__name__}: {e}'
    os.makedirs(os.path.dirname(dst), exist_ok=True)
    if not os.path.exists(dst) or open(dst).read() != txt:
        with open(dst, 'w') as f:
            f.write(txt)
    return True, 'ok'


if __name__ == '__main__':
    print(generate())
