"""Translator tie of C01 / C02: gnpy/core/info.py (and Transceiver.update_snr) re-read from /repo on every run.

Fail closed (anything outside the listed shapes raises pygen.Unsupported and the check reports a broken tie).

TRANSLATED into per-channel Gallina functions over the C01 model (Model/SI.v: chan = cf csw cbr pch rs ra rn, exact Q),
written to coq/theories/Gen/SIGen.v and proved equal to the hand-written model in Proofs/SIGen.v:
  * SpectralInformation.add_nli, add_ase, apply_attenuation_lin, apply_gain_lin: the method body is read statement by
    statement as a sequence of element-wise updates of the four per-channel quantities
    (`x = e` local, `self._f op= e`, `self._f = e`, `self.pch = e`, `self.pch op= e`), numpy element-wise + - * / become
    the Q operations on one channel, in source order (a later statement sees the earlier updates)   -> g_add_nli ...
  * apply_attenuation_db / apply_gain_db: `x_lin = <expr in db2lin(arg)>; self.apply_x_lin(x_lin)` with db2lin an
    abstract function Q -> Q                                                                   -> g_apply_attenuation_db ...
  * the properties signal, ase, nli, snr_lin, snr_nli, gsnr (`return <element-wise expression>`)   -> g_signal ...
  * is_in_band: `return (A >= band['f_min']) * (B <= band['f_max']) == 1` (product of two comparisons = conjunction)
  * the two validity tests of the constructor: `overlap = <comparison of neighbours x[:-1] / x[1:]>` -> g_overlap c d,
    `exceed = <comparison>` -> g_exceed c
TEMPLATE-MATCHED, statement by statement (no hole, or only the holes named above):
  * SpectralInformation.__init__: argsort of the frequencies and EVERY per-channel array stored as `x[indices]`;
  * the pch property (a copy of _pch) and its setter, the frequency / slot_width / baud_rate properties;
  * select_channels: every constructor argument is `spectrum.<same array>[select]`, all arrays present;
  * SpectralInformation.__add__: every constructor argument is `append(self.<a>, other.<same a>)`, all arrays present,
    SpectrumError re-raised;
  * demuxed_spectral_information (is_in_band on frequency and slot width, select_channels when any, else None) and
    muxed_spectral_information (first + mux(rest), singleton, ValueError);
  * Transceiver._calc_snr and update_snr (every reported figure restarts from its raw value, same snr_added);
  * the element programs: Roadm / Fused / Fiber / RamanFiber / Edfa .propagate, Transceiver.__call__ and the __call__
    wrappers are matched against whole-body templates (Roadm: harness/pygen_c06.py, Edfa + noise_profile: pygen_c04.py,
    Fiber / RamanFiber: pygen_c03.py), and the SpectralInformation primitives each body applies are extracted in source
    order into g_program_<kind> (proved to be the kind programs of the model, Proofs/SIGen.v); a primitive anywhere
    else in these classes, or a direct write to the power / share arrays, is Unsupported;
  * Multiband_amplifier.__call__ and Edfa.__call__ (templates imported from harness/pygen_c07.py: per amplifier demux on
    its own band, `if si:` skips exactly the empty result, amplify, mux of all outputs).
"""
import ast
import os

from . import common
from .pygen import Unsupported, dotted, unify, strip_doc, match_template
from .pygen_c07 import MULTI_CALL_TEMPLATE, EDFA_CALL_TEMPLATE
from .pygen_c06 import PROPAGATE as ROADM_PROPAGATE_TEMPLATE
from .pygen_c04 import PROPAGATE_TEMPLATE as EDFA_PROPAGATE_TEMPLATE, NOISE_TEMPLATE as EDFA_NOISE_TEMPLATE
from .pygen_c03 import FIBER_PROPAGATE_TEMPLATE, RAMAN_PROPAGATE_TEMPLATE

INFO = 'gnpy/core/info.py'
ELEMENTS = 'gnpy/core/elements.py'

FIELD = {'self.pch': 'pch', 'self._pch': 'pch', 'self._signal_ratio': 'rs', 'self._ase_ratio': 'ra', 'self._nli_ratio': 'rn'}
GET = {'pch': '(pch c)', 'rs': '(rs c)', 'ra': '(ra c)', 'rn': '(rn c)'}
# per-channel arrays every SpectralInformation carries (constructor keyword -> attribute holding it)
ARRAYS = {'frequency': 'frequency', 'baud_rate': 'baud_rate', 'slot_width': 'slot_width', 'pch': 'pch',
          'signal_ratio': '_signal_ratio', 'ase_ratio': '_ase_ratio', 'nli_ratio': '_nli_ratio', 'roll_off': 'roll_off',
          'chromatic_dispersion': 'chromatic_dispersion', 'pmd': 'pmd', 'pdl': 'pdl', 'latency': 'latency',
          'delta_pdb_per_channel': 'delta_pdb_per_channel', 'tx_osnr': 'tx_osnr', 'tx_power': 'tx_power', 'label': 'label'}


def defs(tree, cls, name):
    """all function definitions `name` of class `cls` (a property has a getter and a setter), or module level"""
    body = tree.body
    if cls:
        for n in body:
            if isinstance(n, ast.ClassDef) and n.name == cls:
                body = n.body
                break
        else:
            raise Unsupported(f'class {cls} not found')
    return [n for n in body if isinstance(n, ast.FunctionDef) and n.name == name]


def one(tree, cls, name, setter=False):
    ds = defs(tree, cls, name)

    def is_setter(d):
        return any(isinstance(x, ast.Attribute) and x.attr == 'setter' for x in d.decorator_list)
    ds = [d for d in ds if is_setter(d) == setter]
    if len(ds) != 1:
        raise Unsupported(f'{cls}.{name}: {len(ds)} definitions')
    return ds[0]


def params(fn):
    a = fn.args
    if a.vararg or a.kwarg or a.kwonlyargs or a.defaults or a.posonlyargs:
        raise Unsupported(f'{fn.name}: unexpected parameter kinds')
    return [x.arg for x in a.args]


class QTr:
    """element-wise numpy arithmetic on the arrays of one SpectralInformation -> Q arithmetic on one channel"""

    def __init__(self, state, names, funcs=()):
        self.state = dict(state)        # quantity -> Gallina term currently holding it
        self.names = dict(names)        # source local / parameter -> Gallina term
        self.funcs = set(funcs)         # abstract unary functions allowed (db2lin)

    def e(self, n):
        if isinstance(n, ast.Constant) and isinstance(n.value, (int, float)) and not isinstance(n.value, bool) \
                and n.value == int(n.value) and n.value >= 0:
            return str(int(n.value))
        if isinstance(n, ast.Name):
            if n.id in self.names:
                return self.names[n.id]
            raise Unsupported(f'name {n.id}')
        if isinstance(n, ast.Attribute):
            d = dotted(n)
            if d in FIELD:
                return self.state[FIELD[d]]
            if d in self.names:
                return self.names[d]
            raise Unsupported(f'attribute {d}')
        if isinstance(n, ast.BinOp) and isinstance(n.op, (ast.Add, ast.Sub, ast.Mult, ast.Div)):
            op = {ast.Add: '+', ast.Sub: '-', ast.Mult: '*', ast.Div: '/'}[type(n.op)]
            return f'({self.e(n.left)} {op} {self.e(n.right)})'
        if isinstance(n, ast.Call) and isinstance(n.func, ast.Name) and n.func.id in self.funcs and len(n.args) == 1 \
                and not n.keywords:
            return f'({n.func.id} {self.e(n.args[0])})'
        if isinstance(n, ast.Subscript) and isinstance(n.value, ast.Name) and isinstance(n.slice, ast.Constant) \
                and f'{n.value.id}[{n.slice.value!r}]' in self.names:
            return self.names[f'{n.value.id}[{n.slice.value!r}]']
        raise Unsupported('expression ' + ast.dump(n)[:160])

    def cmp(self, n):
        """one comparison of two element-wise expressions -> bool"""
        if not (isinstance(n, ast.Compare) and len(n.ops) == 1):
            raise Unsupported('comparison ' + ast.dump(n)[:160])
        a, b, op = self.e(n.left), self.e(n.comparators[0]), n.ops[0]
        if isinstance(op, ast.LtE):
            return f'Qle_bool {a} {b}'
        if isinstance(op, ast.GtE):
            return f'Qle_bool {b} {a}'
        if isinstance(op, ast.Gt):
            return f'negb (Qle_bool {a} {b})'
        if isinstance(op, ast.Lt):
            return f'negb (Qle_bool {b} {a})'
        raise Unsupported(f'comparison operator {type(op).__name__}')


def method_updates(fn, arg_terms, call_ok=None):
    """a method whose body is a sequence of element-wise updates of pch and the three shares -> Gallina body"""
    tr = QTr(GET, arg_terms)
    lets, count = [], {}

    def fresh(q):
        count[q] = count.get(q, 0) + 1
        return f'{q}{count[q]}'
    for s in strip_doc(fn.body):
        if isinstance(s, ast.Assign) and len(s.targets) == 1 and isinstance(s.targets[0], ast.Name):
            v = 'v_' + s.targets[0].id
            lets.append(f'let {v} := {tr.e(s.value)} in')
            tr.names[s.targets[0].id] = v
        elif isinstance(s, (ast.Assign, ast.AugAssign)):
            t = s.targets[0] if isinstance(s, ast.Assign) else s.target
            if isinstance(s, ast.Assign) and len(s.targets) != 1:
                raise Unsupported('multiple assignment')
            d = dotted(t) if isinstance(t, ast.Attribute) else None
            if d not in FIELD:
                raise Unsupported(f'{fn.name}: assignment to {ast.dump(t)[:80]}')
            q = FIELD[d]
            rhs = tr.e(s.value)
            if isinstance(s, ast.AugAssign):
                if not isinstance(s.op, (ast.Mult, ast.Add, ast.Sub, ast.Div)):
                    raise Unsupported('augmented operator')
                op = {ast.Add: '+', ast.Sub: '-', ast.Mult: '*', ast.Div: '/'}[type(s.op)]
                rhs = f'({tr.state[q]} {op} {rhs})'
            v = fresh(q)
            lets.append(f'let {v} := {rhs} in')
            tr.state[q] = v
        else:
            raise Unsupported(f'{fn.name}: statement ' + ast.dump(s)[:160])
    st = tr.state
    return '\n  '.join(lets + [f'mkC (cf c) (csw c) (cbr c) {st["pch"]} {st["rs"]} {st["ra"]} {st["rn"]}'])


def gen_db_wrapper(fn, lin_name):
    """`x = <expr in db2lin(arg)>; self.<lin_name>(x)`"""
    ps = params(fn)
    if len(ps) != 2 or ps[0] != 'self':
        raise Unsupported(f'{fn.name}: parameters')
    body = strip_doc(fn.body)
    b = {}
    tmpl = ast.parse(f'H_x = H_e\nself.{lin_name}(H_y)').body
    if not unify(tmpl, body, b) or not isinstance(b['H_x'], ast.Name) or not isinstance(b['H_y'], ast.Name) \
            or b['H_x'].id != b['H_y'].id:
        raise Unsupported(f'{fn.name}: not `x = e; self.{lin_name}(x)`')
    tr = QTr(GET, {ps[1]: 'd'}, funcs={'db2lin'})
    return f'g_{lin_name} {tr.e(b["H_e"])} c'


def gen_property(fn):
    body = strip_doc(fn.body)
    if len(body) != 1 or not isinstance(body[0], ast.Return) or params(fn) != ['self']:
        raise Unsupported(f'property {fn.name}: not a single return')
    return QTr(GET, {}).e(body[0].value)


INIT_TEMPLATE = """
indices = argsort(frequency)
self._frequency = frequency[indices]
self._df = outer(ones(frequency.shape), self._frequency) - outer(self._frequency, ones(frequency.shape))
self._number_of_channels = len(self._frequency)
self._channel_number = [*range(1, self._number_of_channels + 1)]
self._slot_width = slot_width[indices]
self._baud_rate = baud_rate[indices]
overlap = H_overlap
if any(overlap):
    overlap = [pair for pair in zip(overlap * self._channel_number[:-1], overlap * self._channel_number[1:])
               if pair != (0, 0)]
    raise SpectrumError(H_msg1)
exceed = H_exceed
if any(exceed):
    raise SpectrumError(H_msg2)
self._pch = pch[indices]
self._signal_ratio = signal_ratio[indices]
self._nli_ratio = nli_ratio[indices]
self._ase_ratio = ase_ratio[indices]
self._roll_off = roll_off[indices]
self._chromatic_dispersion = chromatic_dispersion[indices]
self._pmd = pmd[indices]
self._pdl = pdl[indices]
self._latency = latency[indices]
self._delta_pdb_per_channel = delta_pdb_per_channel[indices]
self._tx_osnr = tx_osnr[indices]
self._tx_power = tx_power[indices]
self._label = label[indices]
"""

DEMUX_TEMPLATE = """
select = is_in_band(input_si.frequency, input_si.slot_width, band)
if any(select):
    spectrum = select_channels(input_si, select)
else:
    spectrum = None
return spectrum
"""

MUX_TEMPLATE = """
if input_si_list and len(input_si_list) > 1:
    si = input_si_list[0] + muxed_spectral_information(input_si_list[1:])
    return si
if input_si_list and len(input_si_list) == 1:
    return input_si_list[0]
raise ValueError(H_msg)
"""

CALC_SNR_TEMPLATE = """
with errstate(divide='ignore'):
    self.propagated_labels = spectral_info.label
    self.baud_rate = spectral_info.baud_rate
    self.raw_osnr_ase = spectral_info.snr_lin_db
    self.raw_osnr_ase_01nm = spectral_info.opt_snr_lin_db
    self.raw_osnr_nli = spectral_info.snr_nli_db
    self.raw_snr = spectral_info.gsnr_db
    self.raw_snr_01nm = spectral_info.opt_gsnr_db
    self.osnr_ase = self.raw_osnr_ase
    self.osnr_ase_01nm = self.raw_osnr_ase_01nm
    self.osnr_nli = self.raw_osnr_nli
    self.snr = self.raw_snr
    self.snr_01nm = self.raw_snr_01nm
"""

UPDATE_SNR_TEMPLATE = """
snr_added = 0
for s in args:
    if s is not None:
        snr_added += db2lin(-s)
snr_added = -lin2db(snr_added)
self.osnr_ase = snr_sum(self.raw_osnr_ase, self.baud_rate, snr_added)
self.snr = snr_sum(self.raw_snr, self.baud_rate, snr_added)
self.osnr_ase_01nm = snr_sum(self.raw_osnr_ase_01nm, 12.5e9, snr_added)
self.snr_01nm = snr_sum(self.raw_snr_01nm, 12.5e9, snr_added)
"""

SNR_SUM_TEMPLATE = """
snr_added = snr_added - lin2db(bw / bw_added)
snr = -lin2db(db2lin(-snr) + db2lin(-snr_added))
return snr
"""

DB_VIEWS = {'snr_lin_db': 'lin2db(self.snr_lin)', 'snr_nli_db': 'lin2db(self.snr_nli)', 'gsnr_db': 'lin2db(self.gsnr)',
            'opt_snr_lin_db': 'self.snr_lin_db - lin2db(12.5e9 / self.baud_rate)',
            'opt_snr_nli_db': 'self.snr_nli_db - lin2db(12.5e9 / self.baud_rate)',
            'opt_gsnr_db': 'self.gsnr_db - lin2db(12.5e9 / self.baud_rate)'}


def neighbours(node, side):
    """rewrite `self._x[:-1]` (side 0) / `self._x[1:]` (side 1) of a neighbour comparison into plain names"""
    class R(ast.NodeTransformer):
        def visit_Subscript(self, n):
            lo_none = ast.dump(ast.parse('a[:-1]').body[0].value.slice)
            hi_none = ast.dump(ast.parse('a[1:]').body[0].value.slice)
            d = ast.dump(n.slice)
            if d == lo_none:
                return ast.Name(id='L.' + dotted(n.value), ctx=ast.Load())
            if d == hi_none:
                return ast.Name(id='R.' + dotted(n.value), ctx=ast.Load())
            raise Unsupported('subscript in the overlap test')
    return R().visit(node)


def check_keyword_call(call, what, value_ok):
    """SpectralInformation(<kw>=<value>, ...) with exactly the per-channel arrays, each built by value_ok(kw, value)"""
    if not (isinstance(call, ast.Call) and dotted(call.func) == 'SpectralInformation' and not call.args):
        raise Unsupported(f'{what}: not a keyword call of SpectralInformation')
    kws = [k.arg for k in call.keywords]
    if sorted(kws) != sorted(ARRAYS):
        raise Unsupported(f'{what}: constructor arguments {sorted(set(kws) ^ set(ARRAYS))} missing / unexpected')
    for k in call.keywords:
        if not value_ok(k.arg, k.value):
            raise Unsupported(f'{what}: argument {k.arg} is not built from the same array of the operand(s)')


PRIMS = {'apply_attenuation_db': 'OAtt', 'apply_attenuation_lin': 'OAtt', 'apply_gain_db': 'OGain', 'apply_gain_lin': 'OGain',
         'add_ase': 'OAse', 'add_nli': 'ONli'}
BOOKKEEPING = ('_pch', '_signal_ratio', '_ase_ratio', '_nli_ratio', 'pch')


def primitive_program(fn, si_name, what):
    """the SpectralInformation primitives a propagate / __call__ body applies to its spectrum, in source order, as
    [(optional?, kind)]: a primitive directly in the body is mandatory, one inside a plain `if` (no else) is optional;
    anywhere else (loop, else branch, nested deeper, other receiver, lambda ...) -> Unsupported.  Any direct write to the
    power / share arrays of the spectrum is Unsupported too: the element programs of the model are made of the
    primitives only."""
    prog = []

    def prim_of(stmt):
        if isinstance(stmt, ast.Expr) and isinstance(stmt.value, ast.Call) and isinstance(stmt.value.func, ast.Attribute) \
                and stmt.value.func.attr in PRIMS:
            if not (isinstance(stmt.value.func.value, ast.Name) and stmt.value.func.value.id == si_name):
                raise Unsupported(f'{what}: primitive {stmt.value.func.attr} applied to something else than {si_name}')
            return PRIMS[stmt.value.func.attr]
        return None

    def no_hidden(node):
        for x in ast.walk(node):
            if isinstance(x, ast.Attribute) and x.attr in PRIMS:
                raise Unsupported(f'{what}: primitive {x.attr} used outside a plain statement of the body')
            if isinstance(x, (ast.Assign, ast.AugAssign, ast.AnnAssign)):
                tg = x.targets if isinstance(x, ast.Assign) else [x.target]
                for tgt in tg:
                    for y in ast.walk(tgt):
                        if isinstance(y, ast.Attribute) and y.attr in BOOKKEEPING and isinstance(y.value, ast.Name) \
                                and y.value.id == si_name:
                            raise Unsupported(f'{what}: direct write to {si_name}.{y.attr}')
            if isinstance(x, ast.Call) and isinstance(x.func, ast.Name) and x.func.id in ('setattr', 'exec', 'eval'):
                raise Unsupported(f'{what}: {x.func.id}')
    for s in strip_doc(fn.body):
        k = prim_of(s)
        if k:
            for a in s.value.args:
                no_hidden(a)
            prog.append((False, k))
        elif isinstance(s, ast.If) and not s.orelse and any(prim_of(x) for x in s.body):
            no_hidden(s.test)
            for x in s.body:
                kk = prim_of(x)
                if kk:
                    prog.append((True, kk))
                else:
                    no_hidden(x)
        else:
            no_hidden(s)
    return prog


def prog_lit(prog):
    return '[' + '; '.join(f'({"true" if o else "false"}, {k})' for o, k in prog) + ']'


CALL_PROPAGATE_TEMPLATE = """
self.propagate(spectral_info)
return spectral_info
"""
ROADM_CALL_TEMPLATE = """
self.propagate(spectral_info, degree=degree, from_degree=from_degree)
return spectral_info
"""
FIBER_CALL_TEMPLATE = """
pin = spectral_info.ptot_dbm
self.propagate(spectral_info)
pout = spectral_info.ptot_dbm
loss = - round(pout - pin, 2)
self.pch_out_db = self.ref_pch_in_dbm - loss
return spectral_info
"""
TRX_CALL_TEMPLATE = """
self.tx_power = spectral_info.tx_power
self._calc_snr(spectral_info)
self._calc_cd(spectral_info)
self._calc_pmd(spectral_info)
self._calc_pdl(spectral_info)
self._calc_latency(spectral_info)
return spectral_info
"""


def gen_programs(etree):
    """per element kind: whole-body templates (imported from the translators of C06 / C04 / C03 where they exist) and the
    list of primitives the body applies, generated as g_program_<kind>"""
    out = ['(* ---- element programs: the SpectralInformation primitives each element kind applies, in source order;',
           '        (true, k) = inside a plain `if` (optional), (false, k) = always ---- *)',
           'Fixpoint g_variants (p : list (bool * okind)) : list (list okind) :=',
           '  match p with',
           '  | [] => [[]]',
           '  | (false, k) :: t => map (cons k) (g_variants t)',
           '  | (true, k) :: t => map (cons k) (g_variants t) ++ g_variants t',
           '  end.', '']
    spec = [('roadm', 'Roadm', 'propagate', ROADM_PROPAGATE_TEMPLATE, 'Roadm', ROADM_CALL_TEMPLATE),
            ('fused', 'Fused', 'propagate', 'spectral_info.apply_attenuation_db(self.loss)', 'Fused', CALL_PROPAGATE_TEMPLATE),
            ('fiber', 'Fiber', 'propagate', FIBER_PROPAGATE_TEMPLATE, 'Fiber', FIBER_CALL_TEMPLATE),
            ('raman', 'RamanFiber', 'propagate', RAMAN_PROPAGATE_TEMPLATE, None, None),
            ('edfa', 'Edfa', 'propagate', EDFA_PROPAGATE_TEMPLATE, None, None),
            ('trx', 'Transceiver', '__call__', TRX_CALL_TEMPLATE, None, None)]
    for name, cls, meth, tmpl, call_cls, call_tmpl in spec:
        fn = one(etree, cls, meth)
        match_template(tmpl, strip_doc(fn.body), f'{cls}.{meth}')
        prog = primitive_program(fn, 'spectral_info', f'{cls}.{meth}')
        if call_cls:
            cfn = one(etree, call_cls, '__call__')
            match_template(call_tmpl, strip_doc(cfn.body), f'{call_cls}.__call__')
            if primitive_program(cfn, 'spectral_info', f'{call_cls}.__call__'):
                raise Unsupported(f'{call_cls}.__call__ applies primitives itself')
        out.append(f'(* {ELEMENTS}: {cls}.{meth} *)')
        out.append(f'Definition g_program_{name} : list (bool * okind) :=\n  {prog_lit(prog)}.\n')
    # RamanFiber has no __call__ of its own (Fiber.__call__), Edfa.__call__ / Multiband_amplifier.__call__ are matched above;
    # what an amplifier adds as ASE is one expression returned by noise_profile
    if defs(etree, 'RamanFiber', '__call__'):
        raise Unsupported('RamanFiber.__call__ exists')
    match_template(EDFA_NOISE_TEMPLATE, strip_doc(one(etree, 'Edfa', 'noise_profile').body), 'Edfa.noise_profile')
    for cls in ('Roadm', 'Fused', 'Fiber', 'RamanFiber', 'Edfa', 'Transceiver', 'Multiband_amplifier'):
        for n in ast.walk(next(x for x in etree.body if isinstance(x, ast.ClassDef) and x.name == cls)):
            if isinstance(n, ast.FunctionDef) and n.name not in ('propagate', '__call__') \
                    and any(isinstance(x, ast.Attribute) and x.attr in PRIMS for x in ast.walk(n)):
                raise Unsupported(f'{cls}.{n.name} applies SpectralInformation primitives outside propagate / __call__')
    return out


def generate(repo=None):
    repo = repo or common.REPO
    tree = ast.parse(open(os.path.join(repo, INFO)).read())
    etree = ast.parse(open(os.path.join(repo, ELEMENTS)).read())
    utree = ast.parse(open(os.path.join(repo, 'gnpy/core/utils.py')).read())
    SI = 'SpectralInformation'
    out = ['(* GENERATED on every run by harness/pygen_c01.py from gnpy/core/info.py of /repo - do not edit. *)',
           'From Verif Require Import Prelude Model.SI.', 'From Coq Require Import QArith.', 'Open Scope Q_scope.', '']

    # ---- translated: the four primitive updates
    for name, arg in (('add_nli', 'nli'), ('add_ase', 'ase'), ('apply_attenuation_lin', 'attenuation_lin'),
                      ('apply_gain_lin', 'gain_lin')):
        fn = one(tree, SI, name)
        ps = params(fn)
        if len(ps) != 2 or ps[0] != 'self':
            raise Unsupported(f'{name}: parameters {ps}')
        body = method_updates(fn, {ps[1]: 'x'})
        out.append(f'(* {INFO}: {SI}.{name}, one channel *)')
        out.append(f'Definition g_{name} (x : Q) (c : chan) : chan :=\n  {body}.\n')
    for name, lin in (('apply_attenuation_db', 'apply_attenuation_lin'), ('apply_gain_db', 'apply_gain_lin')):
        body = gen_db_wrapper(one(tree, SI, name), lin)
        out.append(f'(* {INFO}: {SI}.{name} (db2lin abstract) *)')
        out.append(f'Definition g_{name} (db2lin : Q -> Q) (d : Q) (c : chan) : chan :=\n  {body}.\n')
    # ---- translated: derived views
    for name in ('signal', 'ase', 'nli', 'snr_lin', 'snr_nli', 'gsnr'):
        body = gen_property(one(tree, SI, name))
        out.append(f'(* {INFO}: {SI}.{name} *)')
        out.append(f'Definition g_{name} (c : chan) : Q :=\n  {body}.\n')
    # ---- translated: is_in_band
    fn = one(tree, None, 'is_in_band')
    if params(fn) != ['frequency', 'slot_width', 'band']:
        raise Unsupported('is_in_band: parameters')
    b = match_template('return H_a * H_b == 1', strip_doc(fn.body), 'is_in_band')
    tr = QTr(GET, {'frequency': '(cf c)', 'slot_width': '(csw c)', "band['f_min']": 'fmin', "band['f_max']": 'fmax'})
    out.append(f'(* {INFO}: is_in_band, one channel *)')
    out.append(f'Definition g_is_in_band (fmin fmax : Q) (c : chan) : bool :=\n  {tr.cmp(b["H_a"])} && {tr.cmp(b["H_b"])}.\n')
    # ---- constructor: template + the two validity tests translated
    fn = one(tree, SI, '__init__')
    if params(fn) != ['self', 'frequency', 'baud_rate', 'slot_width', 'pch', 'signal_ratio', 'ase_ratio', 'nli_ratio',
                      'roll_off', 'chromatic_dispersion', 'pmd', 'pdl', 'latency', 'delta_pdb_per_channel', 'tx_osnr',
                      'tx_power', 'label']:
        raise Unsupported('SpectralInformation.__init__: parameters')
    b = match_template(INIT_TEMPLATE, strip_doc(fn.body), 'SpectralInformation.__init__')
    ov = neighbours(b['H_overlap'], 0)
    tr = QTr(GET, {'L.self._frequency': '(cf c)', 'L.self._slot_width': '(csw c)', 'R.self._frequency': '(cf d)',
                   'R.self._slot_width': '(csw d)'})
    out.append(f'(* {INFO}: {SI}.__init__, overlap test of two neighbouring channels c, d (c below d) *)')
    out.append(f'Definition g_overlap (c d : chan) : bool :=\n  {tr.cmp(ov)}.\n')
    tr = QTr(GET, {'self._baud_rate': '(cbr c)', 'self._slot_width': '(csw c)'})
    out.append(f'(* {INFO}: {SI}.__init__, baud rate vs slot width *)')
    out.append(f'Definition g_exceed (c : chan) : bool :=\n  {tr.cmp(b["H_exceed"])}.\n')

    # ---- template-matched only
    match_template('return array(self._pch)', strip_doc(one(tree, SI, 'pch').body), 'pch getter')
    match_template('self._pch = pch', strip_doc(one(tree, SI, 'pch', setter=True).body), 'pch setter')
    for nm in ('frequency', 'slot_width', 'baud_rate'):
        match_template(f'return self._{nm}', strip_doc(one(tree, SI, nm).body), nm)
    for nm, src in DB_VIEWS.items():
        match_template('return ' + src, strip_doc(one(tree, SI, nm).body), nm)
    # select_channels
    fn = one(tree, None, 'select_channels')
    body = strip_doc(fn.body)
    if params(fn) != ['spectrum', 'select'] or len(body) != 1 or not isinstance(body[0], ast.Return):
        raise Unsupported('select_channels: shape')

    def sel_ok(kw, v):
        return unify(ast.parse(f'spectrum.{ARRAYS[kw]}[select]').body[0].value, v, {})
    check_keyword_call(body[0].value, 'select_channels', sel_ok)
    # __add__
    fn = one(tree, SI, '__add__')
    body = strip_doc(fn.body)
    b = match_template("try:\n    return H_call\nexcept SpectrumError:\n    raise SpectrumError(H_msg)", body, '__add__')

    def add_ok(kw, v):
        return unify(ast.parse(f'append(self.{ARRAYS[kw]}, other.{ARRAYS[kw]})').body[0].value, v, {})
    if params(fn) != ['self', 'other']:
        raise Unsupported('__add__: parameters')
    check_keyword_call(b['H_call'], 'SpectralInformation.__add__', add_ok)
    match_template(DEMUX_TEMPLATE, strip_doc(one(tree, None, 'demuxed_spectral_information').body),
                   'demuxed_spectral_information')
    match_template(MUX_TEMPLATE, strip_doc(one(tree, None, 'muxed_spectral_information').body),
                   'muxed_spectral_information')
    match_template(CALC_SNR_TEMPLATE, [s for s in strip_doc(one(etree, 'Transceiver', '_calc_snr').body)],
                   'Transceiver._calc_snr')
    fn = defs(etree, 'Transceiver', 'update_snr')[0]        # (*args: not a plain parameter list)
    match_template(UPDATE_SNR_TEMPLATE, strip_doc(fn.body), 'Transceiver.update_snr')
    # band split -> per-band amplifier -> merge (templates shared with harness/pygen_c07.py): each amplifier demuxes ITS band,
    # exactly the empty result is skipped, every other band is amplified and all outputs are merged
    match_template(MULTI_CALL_TEMPLATE, strip_doc(one(etree, 'Multiband_amplifier', '__call__').body),
                   'Multiband_amplifier.__call__')
    match_template(EDFA_CALL_TEMPLATE, strip_doc(one(etree, 'Edfa', '__call__').body), 'Edfa.__call__')
    out += gen_programs(etree)
    match_template(SNR_SUM_TEMPLATE, strip_doc(defs(utree, None, 'snr_sum')[0].body), 'utils.snr_sum')
    return '\n'.join(out)


def regenerate():
    """(Re)write coq/theories/Gen/SIGen.v when its content changed. Returns (ok, message)."""
    dst = os.path.join(common.COQ, 'theories', 'Gen', 'SIGen.v')
    try:
        txt = generate()
    except (Unsupported, SyntaxError, OSError, KeyError) as e:
        return False, f'translation failed: {type(e).__name__}: {e}'
    os.makedirs(os.path.dirname(dst), exist_ok=True)
    if not os.path.exists(dst) or open(dst).read() != txt:
        with open(dst, 'w') as f:
            f.write(txt)
    return True, 'ok'


if __name__ == '__main__':
    print(generate())
