"""Translator tie for C07 (second tie between /repo's source and Model/Channels.v), built on harness/pygen.py.

On every run the functions below are re-read from common.REPO, checked / translated, and written to
coq/theories/Gen/ChannelsGen.v; Proofs/ChannelsGen.v proves every generated definition equal to the hand-written
model, Props/C07.v restates them as C07_source_*.  Fail closed: anything outside what is listed raises Unsupported.

TRANSLATED (python-ast -> Gallina; the decisions the property hangs on):
  info.is_in_band                      the whole return expression (two edge comparisons with the half slot width)   -> g_is_in_band
  info.SpectralInformation.__init__    the `overlap = ...` and `exceed = ...` expressions                             -> g_adj_over, g_exceeds
  info.demuxed_spectral_information    the condition of the `if` ("something is selected")                            -> g_demux
  utils.find_common_range              `f_min = ...`, `f_max = ...` and the `if` condition of the intersection loop   -> g_inter
  utils.calculate_spacing              the whole if / elif chain (None-ness patterns of the two spacings)             -> g_calculate_spacing
  utils.get_spacing_from_band          the midpoint expression and the containment test                               -> g_get_spacing_from_band
  utils.automatic_nch                  the return expression `int((f_max - f_min) // spacing)`                        -> g_automatic_nch
  info.create_input_spectral_information   the frequency of channel i                                                 -> g_grid_freq
TEMPLATE-MATCHED (every statement must be the expected one; holes H_x are what is translated or free text):
  SpectralInformation.__init__         argsort(frequency); EVERY constructor parameter re-indexed with [indices]; the two
                                       checks in the order overlap, exceed, both raising SpectrumError
  SpectralInformation.__add__          every constructor parameter = append(self.X, other.X); SpectrumError re-raised
  info.select_channels                 every constructor parameter = spectrum.X[select]
  info.demuxed_spectral_information, info.muxed_spectral_information, info.carriers_to_spectral_information,
  info.create_input_spectral_information, request.filter_si, request.find_elements_common_range (n.params.bands of Edfa and
  Multiband_amplifier; SI default f_min, f_max, spacing), utils.find_common_range (all of it), utils.filter_valid_amp_bands,
  utils.remove_duplicates, request.propagate (literal, template of harness/pygen_c13.py), elements.Edfa.__call__, elements.Multiband_amplifier.__call__ (amp.params.bands[0] per amplifier,
  re-merge with muxed_spectral_information), and in network.set_egress_amplifier the two statements that make
  Multiband_amplifier.params.bands the bands of the amplifiers selected by the design.
The skeleton around the translated holes (list plumbing, loops) is emitted as fixed Gallina text only when the template
matched, so the generated term is a function of the source.
"""
import ast
import os

from . import common
from .pygen import Tr, Unsupported, unify, match_template, find, strip_doc, dotted

INFO = 'gnpy/core/info.py'
UTILS = 'gnpy/core/utils.py'
REQUEST = 'gnpy/topology/request.py'
ELEMENTS = 'gnpy/core/elements.py'
NETWORK = 'gnpy/core/network.py'
DST = ('theories', 'Gen', 'ChannelsGen.v')


class QTr(Tr):
    """expressions over exact rationals: leaves are given per call site as {python source text: Gallina term}"""

    def __init__(self, leaves):
        super().__init__(set(), {}, attr={}, names={}, monadic={})
        self.leaves = leaves

    def e(self, n):
        src = ast.unparse(n)
        if src in self.leaves:
            t = self.leaves[src]
            return f'({t})' if ' ' in t else t
        if isinstance(n, ast.Constant) and n.value is None:
            return 'None'
        if isinstance(n, ast.BinOp):
            if isinstance(n.op, (ast.Add, ast.Sub, ast.Mult)):
                op = {ast.Add: '+', ast.Sub: '-', ast.Mult: '*'}[type(n.op)]
                return f'({self.e(n.left)} {op} {self.e(n.right)})'
            if isinstance(n.op, ast.Div) and isinstance(n.right, ast.Constant) and n.right.value == 2 \
                    and not isinstance(n.right.value, bool):
                return f'(half {self.e(n.left)})'
            raise Unsupported(f'operator in {src}')
        if isinstance(n, ast.Call) and isinstance(n.func, ast.Name) and n.func.id in ('max', 'min') \
                and len(n.args) == 2 and not n.keywords:
            return f'(q{n.func.id} {self.e(n.args[0])} {self.e(n.args[1])})'
        raise Unsupported(f'expression {src}')

    def b(self, n):
        if isinstance(n, ast.BoolOp):
            op = '&&' if isinstance(n.op, ast.And) else '||'
            return '(' + f' {op} '.join(self.b(v) for v in n.values) + ')'
        if isinstance(n, ast.Compare) and len(n.ops) == 1:
            l, r, op = n.left, n.comparators[0], n.ops[0]
            # numpy: (mask1) * (mask2) == 1  is the element-wise conjunction of two comparisons
            if isinstance(op, ast.Eq) and isinstance(r, ast.Constant) and r.value == 1 and not isinstance(r.value, bool) \
                    and isinstance(l, ast.BinOp) and isinstance(l.op, ast.Mult) \
                    and isinstance(l.left, ast.Compare) and isinstance(l.right, ast.Compare):
                return f'({self.b(l.left)} && {self.b(l.right)})'
            le, re_ = self.e(l), self.e(r)
            if isinstance(op, ast.LtE):
                return f'(qle {le} {re_})'
            if isinstance(op, ast.Lt):
                return f'(qlt {le} {re_})'
            if isinstance(op, ast.GtE):
                return f'(qle {re_} {le})'
            if isinstance(op, ast.Gt):
                return f'(qlt {re_} {le})'
            raise Unsupported(f'comparison in {ast.unparse(n)}')
        raise Unsupported('condition ' + ast.unparse(n))


# ------------------------------------------------------------------ templates
INIT_PARAMS = ['frequency', 'baud_rate', 'slot_width', 'pch', 'signal_ratio', 'ase_ratio', 'nli_ratio', 'roll_off',
               'chromatic_dispersion', 'pmd', 'pdl', 'latency', 'delta_pdb_per_channel', 'tx_osnr', 'tx_power', 'label']

INIT_TEMPLATE = """
indices = argsort(frequency)
self._frequency = frequency[indices]
self._df = outer(ones(frequency.shape), self._frequency) - outer(self._frequency, ones(frequency.shape))
self._number_of_channels = len(self._frequency)
self._channel_number = [*range(1, self._number_of_channels + 1)]
self._slot_width = slot_width[indices]
self._baud_rate = baud_rate[indices]
overlap = H_overlap
if any(overlap):
    overlap = H_pairs
    raise SpectrumError(H_msg1)
exceed = H_exceed
if any(exceed):
    raise SpectrumError(H_msg2)
self._pch = pch[indices]
self._signal_ratio = signal_ratio[indices]
self._nli_ratio = nli_ratio[indices]
self._ase_ratio = ase_ratio[indices]
self._roll_off = roll_off[indices]
self._chromatic_dispersion = chromatic_dispersion[indices]
self._pmd = pmd[indices]
self._pdl = pdl[indices]
self._latency = latency[indices]
self._delta_pdb_per_channel = delta_pdb_per_channel[indices]
self._tx_osnr = tx_osnr[indices]
self._tx_power = tx_power[indices]
self._label = label[indices]
"""

# how every constructor parameter is read back from an existing object in __add__ / select_channels
READ = {'frequency': 'frequency', 'baud_rate': 'baud_rate', 'slot_width': 'slot_width', 'pch': 'pch',
        'signal_ratio': '_signal_ratio', 'ase_ratio': '_ase_ratio', 'nli_ratio': '_nli_ratio', 'roll_off': 'roll_off',
        'chromatic_dispersion': 'chromatic_dispersion', 'pmd': 'pmd', 'pdl': 'pdl', 'latency': 'latency',
        'delta_pdb_per_channel': 'delta_pdb_per_channel', 'tx_osnr': 'tx_osnr', 'tx_power': 'tx_power', 'label': 'label'}

ADD_TEMPLATE = """
try:
    return SpectralInformation(H_KW)
except SpectrumError:
    raise SpectrumError(H_msg)
"""

DEMUX_TEMPLATE = """
select = is_in_band(input_si.frequency, input_si.slot_width, band)
if H_cond:
    spectrum = select_channels(input_si, select)
else:
    spectrum = None
return spectrum
"""

MUX_TEMPLATE = """
if input_si_list and len(input_si_list) > 1:
    si = input_si_list[0] + muxed_spectral_information(input_si_list[1:])
    return si
if input_si_list and len(input_si_list) == 1:
    return input_si_list[0]
raise ValueError(H_msg)
"""

FILTER_SI_TEMPLATE = """
common_range = find_elements_common_range(path, equipment)
filtered_si = []
for band in common_range:
    temp = demuxed_spectral_information(si, band)
    if temp:
        filtered_si.append(temp)
if not filtered_si:
    raise ValueError(H_msg)
return muxed_spectral_information(filtered_si)
"""

FECR_TEMPLATE = """
amp_bands = [n.params.bands for n in el_list if isinstance(n, (Edfa, Multiband_amplifier))]
return find_common_range(amp_bands, equipment['SI']['default'].f_min, equipment['SI']['default'].f_max,
                         equipment['SI']['default'].spacing)
"""

FCR_TEMPLATE = """
_amp_bands = [sorted(amp, key=lambda x: x['f_min']) for amp in filter_valid_amp_bands(amp_bands)]
unique_amp_bands = remove_duplicates(_amp_bands)
if unique_amp_bands:
    common_range = unique_amp_bands[0]
else:
    if default_band_f_min is None or default_band_f_max is None:
        return []
    return [{'f_min': default_band_f_min, 'f_max': default_band_f_max, 'spacing': None}]
for bands in unique_amp_bands:
    new_common_range = []
    for first in common_range:
        for second in bands:
            f_min = H_lo
            f_max = H_hi
            if H_cond:
                spacing = calculate_spacing(first, second, default_spacing, default_design_bands, f_min, f_max)
                new_common_range.append({'f_min': f_min, 'f_max': f_max, 'spacing': spacing})
    common_range = new_common_range
return sorted(common_range, key=lambda x: x['f_min'])
"""

FILTER_VALID_TEMPLATE = """
return [amp for amp in amp_bands if all(band.get('f_min') is not None and band.get('f_max') is not None
                                        for band in amp)]
"""

REMOVE_DUP_TEMPLATE = """
unique_amp_bands = []
for amp in amp_bands:
    if amp not in unique_amp_bands:
        unique_amp_bands.append(amp)
return unique_amp_bands
"""

GSFB_TEMPLATE = """
midpoint = H_mid
for band in design_bands:
    if H_cond:
        return band['spacing']
return None
"""

CTS_TEMPLATE = """
frequency = list(initial_spectrum.keys())
pch = [c.tx_power for c in initial_spectrum.values()]
roll_off = [c.roll_off for c in initial_spectrum.values()]
baud_rate = [c.baud_rate for c in initial_spectrum.values()]
delta_pdb_per_channel = [c.delta_pdb for c in initial_spectrum.values()]
slot_width = [c.slot_width for c in initial_spectrum.values()]
tx_osnr = [c.tx_osnr for c in initial_spectrum.values()]
tx_power = [c.tx_power for c in initial_spectrum.values()]
label = [c.label for c in initial_spectrum.values()]
return create_arbitrary_spectral_information(frequency=frequency, pch=pch, baud_rate=baud_rate,
                                             slot_width=slot_width, roll_off=roll_off,
                                             delta_pdb_per_channel=delta_pdb_per_channel, tx_osnr=tx_osnr,
                                             tx_power=tx_power, label=label)
"""

CISI_TEMPLATE = """
number_of_channels = automatic_nch(f_min, f_max, spacing)
frequency = [H_freq for i in range(1, number_of_channels + 1)]
delta_pdb_per_channel = delta_pdb * ones(number_of_channels)
label = [H_label for i in range(number_of_channels)]
return create_arbitrary_spectral_information(frequency, slot_width=spacing, pch=tx_power, baud_rate=baud_rate,
                                             roll_off=roll_off, delta_pdb_per_channel=delta_pdb_per_channel,
                                             tx_osnr=tx_osnr, tx_power=tx_power, label=label)
"""

EDFA_CALL_TEMPLATE = """
band = next(b for b in self.params.bands)
spectral_info = demuxed_spectral_information(spectral_info, band)
if spectral_info is None:
    raise ValueError(H_msg)
self.propagate(spectral_info)
return spectral_info
"""

MULTI_CALL_TEMPLATE = """
out_si = []
for _, amp in self.amplifiers.items():
    si = demuxed_spectral_information(spectral_info, amp.params.bands[0])
    if si:
        si = amp(si)
        out_si.append(si)
if not out_si:
    raise ValueError(H_msg)
return muxed_spectral_information(out_si)
"""


def kwargs_of(call, what):
    """{keyword: value node} of a call made with keywords only"""
    if not isinstance(call, ast.Call) or call.args or any(k.arg is None for k in call.keywords):
        raise Unsupported(f'{what}: SpectralInformation is not built from keyword arguments only')
    kw = {k.arg: k.value for k in call.keywords}
    if len(kw) != len(call.keywords) or sorted(kw) != sorted(INIT_PARAMS):
        raise Unsupported(f'{what}: the keyword arguments are not exactly the constructor parameters')
    return kw


def check_init_params(fn):
    pos = [a.arg for a in fn.args.args if a.arg != 'self']
    if pos != INIT_PARAMS or fn.args.vararg or fn.args.kwarg or fn.args.kwonlyargs:
        raise Unsupported(f'SpectralInformation.__init__: parameters {pos} are not the per-channel arrays known to the tie')


def none_pattern(test, env):
    """value of a test made of `X.get('spacing') is (not) None` under env {X: has a spacing}; None if of another kind"""
    if isinstance(test, ast.BoolOp):
        vals = [none_pattern(v, env) for v in test.values]
        if any(v is None for v in vals):
            return None
        return all(vals) if isinstance(test.op, ast.And) else any(vals)
    if isinstance(test, ast.Compare) and len(test.ops) == 1 and isinstance(test.ops[0], (ast.Is, ast.IsNot)) \
            and isinstance(test.comparators[0], ast.Constant) and test.comparators[0].value is None:
        src = ast.unparse(test.left)
        for x in env:
            if src == f"{x}.get('spacing')":
                return (not env[x]) if isinstance(test.ops[0], ast.Is) else env[x]
    return None


def gen_calculate_spacing(fn):
    """if / elif chain on the None-ness of the two spacings -> one match arm per pattern"""
    body = strip_doc(fn.body)
    pos = [a.arg for a in fn.args.args]
    if pos != ['first', 'second', 'default_spacing', 'default_design_bands', 'f_min', 'f_max']:
        raise Unsupported('calculate_spacing: parameters')
    if len(body) != 2 or not isinstance(body[0], ast.If) or not isinstance(body[1], ast.Return):
        raise Unsupported('calculate_spacing: not an if/elif chain followed by a return')
    arms, cur = [], body[0]
    while True:
        arms.append((cur.test, cur.body))
        if len(cur.orelse) == 1 and isinstance(cur.orelse[0], ast.If):
            cur = cur.orelse[0]
        elif cur.orelse:
            raise Unsupported('calculate_spacing: else branch')
        else:
            break
    final = body[1]
    out = []
    for fs, ss in ((True, True), (True, False), (False, True), (False, False)):
        env = {'first': fs, 'second': ss}
        leaves = {'default_spacing': 'fst d', 'f_min': 'f_min', 'f_max': 'f_max'}
        if fs:
            leaves["first['spacing']"] = 'a'
        if ss:
            leaves["second['spacing']"] = 'b'
        tr = QTr(leaves)
        term = None
        for test, stmts in arms:
            v = none_pattern(test, env)
            if v is None:
                # the only other test allowed: truthiness of default_design_bands, reached when both spacings are None
                if ast.unparse(test) != 'default_design_bands':
                    raise Unsupported('calculate_spacing: test ' + ast.unparse(test))
                t = {}
                if not unify(ast.parse("temp = get_spacing_from_band(default_design_bands, f_min, f_max)\n"
                                       "return temp if temp is not None else default_spacing").body, stmts, t):
                    raise Unsupported('calculate_spacing: design band branch')
                rest = tr.e(final.value)
                term = ('if negb (is_nil (snd d)) then match g_get_spacing_from_band (snd d) f_min f_max with '
                        f'Some temp => temp | None => fst d end else {rest}')
                break
            if v:
                if len(stmts) != 1 or not isinstance(stmts[0], ast.Return):
                    raise Unsupported('calculate_spacing: branch is not a single return')
                term = tr.e(stmts[0].value)
                break
        if term is None:
            term = tr.e(final.value)
        pat = f"{'Some a' if fs else 'None'}, {'Some b' if ss else 'None'}"
        out.append(f'  | {pat} => {term}')
    return ('Definition g_calculate_spacing (d : spdef) (first second : band) (f_min f_max : Q) : Q :=\n'
            '  match bsp first, bsp second with\n' + '\n'.join(out) + '\n  end.\n')


def check_set_egress(fn):
    """network.set_egress_amplifier: Multiband_amplifier.params.bands := bands of the amplifiers selected by the design"""
    want_v = ast.parse('amps_bands = [a.params.bands[0] for a in node.amplifiers.values()]').body[0]
    want_s = ast.parse('node.params.bands = amps_bands').body[0]
    nv = ns = 0
    for s in ast.walk(fn):
        if isinstance(s, ast.Assign) and len(s.targets) == 1:
            tgt = ast.unparse(s.targets[0])
            if tgt == 'amps_bands':
                nv += 1
                if not unify(want_v, s, {}):
                    raise Unsupported('set_egress_amplifier: amps_bands is not the list of the selected amplifiers\' bands')
            if tgt == 'node.params.bands':
                ns += 1
                if not unify(want_s, s, {}):
                    raise Unsupported('set_egress_amplifier: node.params.bands is not assigned amps_bands')
    if nv != 1 or ns != 1:
        raise Unsupported('set_egress_amplifier: expected exactly one assignment of amps_bands and of node.params.bands')


PREAMBLE = """(* GENERATED on every run by harness/pygen_c07.py from the source files of /repo named below - do not edit. *)
From Coq Require Import QArith Qround.
From Verif Require Import Prelude Model.Channels.
Open Scope Q_scope.

Definition is_nil {A} (l : list A) : bool := match l with [] => true | _ => false end.
(* numpy any(mask) where mask compares the arrays x[:-1] (entry a) and x[1:] (entry b) *)
Fixpoint adj_any (p : chan -> chan -> bool) (l : list chan) : bool :=
  match l with
  | a :: (b :: _) as t => p a b || adj_any p t
  | _ => false
  end.
"""


def generate(repo=None):
    repo = repo or common.REPO
    trees = {p: ast.parse(open(os.path.join(repo, p)).read()) for p in (INFO, UTILS, REQUEST, ELEMENTS, NETWORK)}
    out = [PREAMBLE]

    # ---- info.is_in_band
    fn = find(trees[INFO], 'is_in_band')
    if [a.arg for a in fn.args.args] != ['frequency', 'slot_width', 'band']:
        raise Unsupported('is_in_band: parameters')
    b = match_template('return H_e', strip_doc(fn.body), 'is_in_band')
    tr = QTr({'frequency': 'cf c', 'slot_width': 'cslot c', "band['f_min']": 'bmin band', "band['f_max']": 'bmax band'})
    out.append(f'(* {INFO}: is_in_band, one array entry *)')
    out.append(f'Definition g_is_in_band (band : band) (c : chan) : bool :=\n  {tr.b(b["H_e"])}.\n')

    # ---- info.SpectralInformation.__init__
    fn = find(trees[INFO], 'SpectralInformation.__init__')
    check_init_params(fn)
    b = match_template(INIT_TEMPLATE, strip_doc(fn.body), 'SpectralInformation.__init__')
    tr = QTr({'self._frequency[:-1]': 'cf a', 'self._slot_width[:-1]': 'cslot a',
              'self._frequency[1:]': 'cf b', 'self._slot_width[1:]': 'cslot b'})
    out.append(f'(* {INFO}: SpectralInformation.__init__, `overlap` for the neighbours a (index k) and b (index k+1) *)')
    out.append(f'Definition g_adj_over (a b : chan) : bool :=\n  {tr.b(b["H_overlap"])}.\n')
    tr = QTr({'self._baud_rate': 'cbaud c', 'self._slot_width': 'cslot c'})
    out.append(f'(* {INFO}: SpectralInformation.__init__, `exceed` *)')
    out.append(f'Definition g_exceeds (c : chan) : bool :=\n  {tr.b(b["H_exceed"])}.\n')
    out.append('(* the two checks in source order (template: any(overlap) -> SpectrumError, then any(exceed) -> SpectrumError) *)')
    out.append('Definition g_check_si (s : si) : res si :=\n  if adj_any g_adj_over s then Err E_overlap\n'
               '  else if existsb g_exceeds s then Err E_baud\n  else Ok s.\n')
    out.append('(* indices = argsort(frequency); every constructor parameter is re-indexed with [indices] (template) *)')
    out.append('Definition g_mk_si (l : list chan) : res si := g_check_si (sort_by cf l).\n')

    # ---- info.select_channels : every parameter = spectrum.X[select]
    fn = find(trees[INFO], 'select_channels')
    body = strip_doc(fn.body)
    if len(body) != 1 or not isinstance(body[0], ast.Return):
        raise Unsupported('select_channels: body is not a single return')
    call = body[0].value
    if not (isinstance(call, ast.Call) and ast.unparse(call.func) == 'SpectralInformation'):
        raise Unsupported('select_channels: does not return a SpectralInformation(...)')
    for k, v in kwargs_of(call, 'select_channels').items():
        if ast.unparse(v) != f'spectrum.{READ[k]}[select]':
            raise Unsupported(f'select_channels: {k}={ast.unparse(v)} is not spectrum.{READ[k]}[select]')
    out.append(f'(* {INFO}: select_channels: a new SpectralInformation from X[select] for every per-channel array X (template) *)')
    out.append('Definition g_select_channels (p : chan -> bool) (s : si) : res si := g_mk_si (filter p s).\n')

    # ---- info.demuxed_spectral_information
    fn = find(trees[INFO], 'demuxed_spectral_information')
    b = match_template(DEMUX_TEMPLATE, strip_doc(fn.body), 'demuxed_spectral_information')
    if ast.unparse(b['H_cond']) != 'any(select)':
        raise Unsupported('demuxed_spectral_information: the spectrum is not returned exactly when any(select)')
    out.append(f'(* {INFO}: demuxed_spectral_information: `if any(select)` *)')
    out.append('Definition g_demux (s : si) (band : band) : res (option si) :=\n'
               '  if existsb (g_is_in_band band) s\n'
               '  then let* spectrum := g_select_channels (g_is_in_band band) s in Ok (Some spectrum)\n'
               '  else Ok None.\n')

    # ---- SpectralInformation.__add__
    fn = find(trees[INFO], 'SpectralInformation.__add__')
    if [a.arg for a in fn.args.args] != ['self', 'other']:
        raise Unsupported('__add__: parameters')
    body = strip_doc(fn.body)
    if len(body) != 1 or not isinstance(body[0], ast.Try) or len(body[0].body) != 1 \
            or not isinstance(body[0].body[0], ast.Return) or len(body[0].handlers) != 1 \
            or body[0].orelse or body[0].finalbody:
        raise Unsupported('__add__: shape')
    h = body[0].handlers[0]
    if ast.unparse(h.type) != 'SpectrumError' or len(h.body) != 1 or not isinstance(h.body[0], ast.Raise) \
            or not isinstance(h.body[0].exc, ast.Call) or ast.unparse(h.body[0].exc.func) != 'SpectrumError':
        raise Unsupported('__add__: SpectrumError is not re-raised as SpectrumError')
    call = body[0].body[0].value
    if not (isinstance(call, ast.Call) and ast.unparse(call.func) == 'SpectralInformation'):
        raise Unsupported('__add__: does not return a SpectralInformation(...)')
    order = set()
    for k, v in kwargs_of(call, '__add__').items():
        s = ast.unparse(v)
        if s == f'append(self.{READ[k]}, other.{READ[k]})':
            order.add('(self ++ other)')
        elif s == f'append(other.{READ[k]}, self.{READ[k]})':
            order.add('(other ++ self)')
        else:
            raise Unsupported(f'__add__: {k}={s} is not append(self.{READ[k]}, other.{READ[k]})')
    if len(order) != 1:
        raise Unsupported('__add__: the arrays are not all concatenated in the same order')
    out.append(f'(* {INFO}: SpectralInformation.__add__: every array = append(self.X, other.X); SpectrumError re-raised *)')
    out.append(f'Definition g_si_add (self other : si) : res si :=\n  match g_mk_si {order.pop()} with\n'
               '  | Ok s => Ok s\n  | Err _ => Err E_sum\n  end.\n')

    # ---- info.muxed_spectral_information
    fn = find(trees[INFO], 'muxed_spectral_information')
    match_template(MUX_TEMPLATE, strip_doc(fn.body), 'muxed_spectral_information')
    out.append(f'(* {INFO}: muxed_spectral_information (template: l[0] + mux(l[1:]); one element: itself; empty: ValueError) *)')
    out.append('Fixpoint g_mux (l : list si) : res si :=\n  match l with\n  | [] => Err E_empty\n  | [s] => Ok s\n'
               '  | s :: t => let* r := g_mux t in g_si_add s r\n  end.\n')

    # ---- request.filter_si / find_elements_common_range
    fn = find(trees[REQUEST], 'filter_si')
    match_template(FILTER_SI_TEMPLATE, strip_doc(fn.body), 'filter_si')
    fn = find(trees[REQUEST], 'find_elements_common_range')
    match_template(FECR_TEMPLATE, strip_doc(fn.body), 'find_elements_common_range')
    out.append(f'(* {REQUEST}: filter_si (template: demux on every band of the common range, keep what is not None, '
               'ValueError when nothing is left, mux) *)')
    out.append('Fixpoint g_demux_all (bs : list band) (s : si) : res (list si) :=\n  match bs with\n  | [] => Ok []\n'
               '  | band :: t =>\n      let* temp := g_demux s band in\n      let* r := g_demux_all t s in\n'
               '      Ok (match temp with Some x => x :: r | None => r end)\n  end.')
    out.append('Definition g_filter_bands (common_range : list band) (s : si) : res si :=\n'
               '  let* filtered_si := g_demux_all common_range s in\n'
               '  if is_nil filtered_si then Err E_noband else g_mux filtered_si.\n')

    # ---- utils: get_spacing_from_band, calculate_spacing, find_common_range
    fn = find(trees[UTILS], 'get_spacing_from_band')
    if [a.arg for a in fn.args.args] != ['design_bands', 'f_min', 'f_max']:
        raise Unsupported('get_spacing_from_band: parameters')
    b = match_template(GSFB_TEMPLATE, strip_doc(fn.body), 'get_spacing_from_band')
    mid = QTr({'f_min': 'f_min', 'f_max': 'f_max'}).e(b['H_mid'])
    cond = QTr({'midpoint': 'midpoint', "band['f_min']": 'bmin band', "band['f_max']": 'bmax band'}).b(b['H_cond'])
    out.append(f'(* {UTILS}: get_spacing_from_band *)')
    out.append('Definition g_get_spacing_from_band (design_bands : list band) (f_min f_max : Q) : option Q :=\n'
               f'  let midpoint := {mid} in\n'
               '  (fix scan (l : list band) : option Q :=\n     match l with\n     | [] => None\n'
               f'     | band :: t => if {cond} then bsp band else scan t\n     end) design_bands.\n')
    out.append(f'(* {UTILS}: calculate_spacing *)')
    out.append(gen_calculate_spacing(find(trees[UTILS], 'calculate_spacing')))
    fn = find(trees[UTILS], 'filter_valid_amp_bands')
    match_template(FILTER_VALID_TEMPLATE, strip_doc(fn.body), 'filter_valid_amp_bands')
    fn = find(trees[UTILS], 'remove_duplicates')
    match_template(REMOVE_DUP_TEMPLATE, strip_doc(fn.body), 'remove_duplicates')
    fn = find(trees[UTILS], 'find_common_range')
    pos = [a.arg for a in fn.args.args]
    if pos != ['amp_bands', 'default_band_f_min', 'default_band_f_max', 'default_spacing', 'default_design_bands']:
        raise Unsupported('find_common_range: parameters')
    b = match_template(FCR_TEMPLATE, strip_doc(fn.body), 'find_common_range')
    tr = QTr({"first['f_min']": 'bmin first', "first['f_max']": 'bmax first',
              "second['f_min']": 'bmin second', "second['f_max']": 'bmax second', 'f_min': 'f_min', 'f_max': 'f_max'})
    out.append(f'(* {UTILS}: find_common_range, body of the two inner loops: the intersection of two bands *)')
    out.append('Definition g_inter (d : spdef) (first second : band) : list band :=\n'
               f'  let f_min := {tr.e(b["H_lo"])} in\n  let f_max := {tr.e(b["H_hi"])} in\n'
               f'  if {tr.b(b["H_cond"])}\n'
               '  then [mkB f_min f_max (Some (g_calculate_spacing d first second f_min f_max))] else [].\n')
    out.append(f'(* {UTILS}: find_common_range (template: valid amplifiers, each sorted by f_min, duplicates removed; default band '
               'when none; fold of the intersection over ALL amplifiers, no early exit; sorted by f_min) *)')
    out.append('Definition g_cr_step (d : spdef) (common_range bands : list band) : list band :=\n'
               '  flat_map (fun first => flat_map (g_inter d first) bands) common_range.')
    out.append('Definition g_find_common_range (amp_bands : list (list rband)) (default_band_f_min default_band_f_max : option Q)\n'
               '    (default_spacing : Q) (default_design_bands : list band) : list band :=\n'
               '  match remove_dups (map (sort_by bmin) (filter_valid amp_bands)) with\n'
               '  | [] => match default_band_f_min, default_band_f_max with\n'
               '          | Some a, Some b => [mkB a b None]\n          | _, _ => []\n          end\n'
               '  | first :: rest =>\n'
               '      sort_by bmin (fold_left (g_cr_step (default_spacing, default_design_bands)) (first :: rest) first)\n'
               '  end.\n')

    # ---- utils.automatic_nch, info.create_input_spectral_information, info.carriers_to_spectral_information
    fn = find(trees[UTILS], 'automatic_nch')
    if [a.arg for a in fn.args.args] != ['f_min', 'f_max', 'spacing']:
        raise Unsupported('automatic_nch: parameters')
    b = match_template('return int(H_num // H_den)', strip_doc(fn.body), 'automatic_nch')
    tr = QTr({'f_min': 'f_min', 'f_max': 'f_max', 'spacing': 'spacing'})
    out.append(f'(* {UTILS}: automatic_nch: int(a // b) = floor of the quotient; float floor division by zero raises *)')
    out.append('Definition g_automatic_nch (f_min f_max spacing : Q) : res Z :=\n'
               f'  let den := {tr.e(b["H_den"])} in\n'
               f'  if qeqb den 0 then Err E_zero else Ok (Qfloor ({tr.e(b["H_num"])} / den)).\n')
    fn = find(trees[INFO], 'create_input_spectral_information')
    b = match_template(CISI_TEMPLATE, strip_doc(fn.body), 'create_input_spectral_information')
    tr = QTr({'f_min': 'f_min', 'spacing': 'spacing', 'i': 'inject_Z i'})
    out.append(f'(* {INFO}: create_input_spectral_information: frequency of channel i (template: i in range(1, n + 1), '
               'slot_width = spacing, the other arrays uniform) *)')
    out.append(f'Definition g_grid_freq (f_min spacing : Q) (i : Z) : Q :=\n  {tr.e(b["H_freq"])}.\n')
    fn = find(trees[INFO], 'carriers_to_spectral_information')
    match_template(CTS_TEMPLATE, strip_doc(fn.body), 'carriers_to_spectral_information')

    # ---- elements: Edfa.__call__, Multiband_amplifier.__call__ ; network.set_egress_amplifier
    fn = find(trees[ELEMENTS], 'Edfa.__call__')
    match_template(EDFA_CALL_TEMPLATE, strip_doc(fn.body), 'Edfa.__call__')
    out.append(f'(* {ELEMENTS}: Edfa.__call__ (template: first band of params.bands, demux, ValueError when None, propagate) *)')
    out.append('Definition g_edfa_call (a : amp) (s : si) : res si :=\n  match abands a with\n'
               '  | [] => Err "StopIteration:bands"\n  | band :: _ =>\n      let* d := g_demux s band in\n'
               '      match d with\n      | None => Err "ValueError:amp band"\n'
               '      | Some s\' => Ok (map (stamp (auid a)) s\')\n      end\n  end.\n')
    fn = find(trees[ELEMENTS], 'Multiband_amplifier.__call__')
    match_template(MULTI_CALL_TEMPLATE, strip_doc(fn.body), 'Multiband_amplifier.__call__')
    out.append(f'(* {ELEMENTS}: Multiband_amplifier.__call__ (template: per amplifier demux on amp.params.bands[0], amp(si) when '
               'not None, ValueError when nothing, mux) *)')
    out.append('Fixpoint g_multi_parts (subs : list amp) (s : si) : res (list si) :=\n  match subs with\n  | [] => Ok []\n'
               '  | a :: t =>\n      match abands a with\n      | [] => Err "IndexError:bands"\n      | band :: _ =>\n'
               '          let* d := g_demux s band in\n          match d with\n          | None => g_multi_parts t s\n'
               '          | Some s\' =>\n              let* o := g_edfa_call a s\' in\n'
               '              let* r := g_multi_parts t s in\n              Ok (o :: r)\n          end\n      end\n  end.')
    out.append('Definition g_multi_call (subs : list amp) (s : si) : res si :=\n'
               '  let* out_si := g_multi_parts subs s in\n'
               '  if is_nil out_si then Err "ValueError:multiband" else g_mux out_si.\n')
    # ---- request.propagate: literal (template shared with the C13 tie): spectrum from the request, filter_si once before the
    # element loop, the receiver (and the source transceiver) updated with the per-channel si.tx_osnr
    from .pygen_c13 import PROPAGATE_TEMPLATE
    match_template(PROPAGATE_TEMPLATE, strip_doc(find(trees[REQUEST], 'propagate').body), 'request.propagate')
    out.append(f'(* {REQUEST}: propagate (template, literal: build, filter_si once, element loop, update_snr(si.tx_osnr) on the '
               'source transceiver and roadm_osnr + [si.tx_osnr] on the receiver) *)')
    check_set_egress(find(trees[NETWORK], 'set_egress_amplifier'))
    out.append(f'(* {NETWORK}: set_egress_amplifier: node.params.bands = [a.params.bands[0] for a in node.amplifiers.values()] '
               '(statements present, checked) *)')
    return '\n'.join(out) + '\n'


def regenerate():
    """(Re)write coq/theories/Gen/ChannelsGen.v when its content changed. Returns (ok, message)."""
    dst = os.path.join(common.COQ, *DST)
    try:
        txt = generate()
    except (Unsupported, SyntaxError, OSError) as e:
        return False, f'translation failed: {type(e).__name__}: {e}'
    os.makedirs(os.path.dirname(dst), exist_ok=True)
    if not os.path.exists(dst) or open(dst).read() != txt:
        with open(dst, 'w') as f:
            f.write(txt)
    return True, 'ok'


if __name__ == '__main__':
    print(generate())
