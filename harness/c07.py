"""C07 — the launched channel set survives the path intact; channel order is irrelevant.

Tie.  Generated cases are driven through the real code and through the Gallina model `Verif.Model.Channels`
(evaluated by vm_compute, rendered by Run/C07.v):
  mk      SpectralInformation construction (create_arbitrary_spectral_information / carriers_to_spectral_information)
          on random carrier lists in random order, incl. a malformed stream (1 Hz overlap, equal frequencies,
          baud = slot + 1 Hz, both)                                                         -> run_mk
  demux   demuxed_spectral_information on a band whose edges are hit by slot edges +-{0, 1 Hz} -> run_demux
  mux     muxed_spectral_information of 0-4 spectra (disjoint or colliding)                 -> run_mux
  fcr     utils.find_common_range on random amplifier band sets (missing f_min/f_max, duplicates, spacings,
          unsorted, overlapping, empty)                                                     -> run_fcr
  filter  request.filter_si on stand-in paths (real Edfa / Multiband_amplifier instances holding only bands) -> run_filter
  elem    Edfa.__call__ / Multiband_amplifier.__call__ dispatch with Edfa.propagate replaced by a stamp on the
          per-channel latency array (which stage processed which channel)                   -> run_elem
  fpath   filter_si followed by the element loop on stand-in paths                          -> run_path
  cts     carriers_to_spectral_information on random carrier dicts in random key order (column-wise model:
          per-attribute lists from keys()/values(), argsort, re-indexing of every array)        -> run_cts
  cols    create_arbitrary_spectral_information with list arguments of unequal length           -> run_cols
  grid    create_input_spectral_information on random (f_min, f_max, spacing, baud) incl. float-awkward spacings,
          f_max on / 1 Hz around a grid point, baud > spacing, spacing <= 0, f_max < f_min: channel count exactly,
          frequencies to 1e-12; when float rounding of f_min + i*spacing decides the touching-slots test the
          accept/reject verdict is not judged (counted: grid_float_rounding_not_judged)          -> run_grid
  fcrg    find_common_range with default_design_bands (the way network.set_per_degree_design_band calls it) -> run_fcr_gen
  net     request.propagate on really designed single-band / multi-band / mixed networks (generated linear
          multi-OMS networks with random amplifier band edges, and the shipped multiband example): the arrays
          frequency / baud_rate / slot_width / label / tx_osnr / tx_power / delta_pdb / roll_off before and after
          every element, and the channels every Edfa.propagate really saw                    -> run_path
Independently the property itself is evaluated on the implementation's own observations (oracle): accepted /
rejected against the pairwise definition, the returned common range against common_range_spec(_channel) (a point /
slot lies in a returned band iff it lies in a band of every valid amplifier, exact arithmetic, on band edges +-1 Hz,
mid-points and every generated channel), kept set against "fits a band of every amplifier", nothing dropped /
duplicated / reordered / re-attributed after the filter, identical results for a permuted carrier list.
All frequencies, widths and band edges are integers (Hz) or half-integers below 2^52, so every float sum the
implementation forms (f +- w/2) is exact and comparisons at a distance of 0 or 1 Hz are decided identically by
gnpy and by the exact model; this is re-checked per case (`inexact` cases are counted and skipped).
The for-all part is Props/C07.v.
"""
import copy
import glob
import json
import logging
import os
import re
from fractions import Fraction
from types import SimpleNamespace as NS

from . import common
from .common import zlit, qlit, listlit

G = 10 ** 9
T = 10 ** 12
C_LO, C_HI = 191250 * G, 196150 * G
L_LO, L_HI = 186550 * G, 190050 * G
S_LO, S_HI = 196500 * G, 200000 * G
WIDTHS = [12500000000, 25 * G, 37500000000, 50 * G, 50 * G, 62500000000, 75 * G, 100 * G, 150 * G]
LABELS = ['cband', 'lband', '32.00G', 'x', 'y y', '']
ID_ATTRS = ('frequency', 'baud_rate', 'slot_width', 'label', 'tx_osnr', 'tx_power', 'delta_pdb_per_channel', 'roll_off')


# ------------------------------------------------------------------ generators
def jitter(rng):
    return rng.choice([0, 0, 0, 1, -1, 1, -1, 2, 12500000000, -12500000000, 25 * G])


def gen_bandset(rng):
    """a list of [lo, hi] (Hz, ints): mostly 1-3 separated bands, sometimes touching / overlapping / degenerate"""
    style = rng.random()
    bands = []
    if style < 0.75:
        for lo, hi in rng.sample([(C_LO, C_HI), (L_LO, L_HI), (S_LO, S_HI)], rng.choice([1, 1, 2, 2, 3])):
            lo += jitter(rng) + rng.choice([0, 0, 50 * G, 100 * G, 1000 * G])
            hi += jitter(rng) - rng.choice([0, 0, 50 * G, 100 * G, 1000 * G])
            bands.append([lo, hi])
    elif style < 0.85:                       # touching bands
        mid = rng.randrange(192000, 195000, 25) * G + rng.choice([0, 0, 1])
        bands = [[C_LO, mid], [mid, C_HI]]
    elif style < 0.93:                       # overlapping bands
        a = rng.randrange(192000, 194000, 25) * G
        bands = [[C_LO, a + rng.choice([1, 50 * G, 200 * G])], [a, C_HI]]
    else:                                    # narrow / degenerate
        a = rng.randrange(191000, 196000, 25) * G
        bands = [[a, a + rng.choice([0, 1, 50 * G, 50 * G + 1, 49999999999, 100 * G])]]
    rng.shuffle(bands)
    return bands


def mkch(rng, i, f, w, b=None):
    if b is None:
        b = rng.choice([w, w, w - 1, (w * 16) // 25, (w * 3) // 4, max(1, w // 2)])
    return {'id': i, 'f': f, 'b': b, 'w': w, 'label': rng.choice(LABELS),
            'osnr': 30 + i * 0.001, 'txp': rng.choice([0.001, 0.0005, 0.002]),
            'dpdb': rng.choice([0, 0, 1.5, -2.0]), 'ro': rng.choice([0.15, 0.1, 0.2])}


def gen_carriers(rng, bands, nmax=20, valid=True):
    """carrier list (random order): slot edges placed on band edges +-{0, 1 Hz}, channels in band gaps and outside,
    touching neighbours; `valid` => pairwise non-overlapping and baud <= slot"""
    cand = []
    edges = sorted({e for b in bands for e in b})
    for e in edges:
        for _ in range(rng.choice([1, 1, 2])):
            w = rng.choice(WIDTHS) + rng.choice([0, 0, 0, 0, 1, 2])
            d = rng.choice([0, 0, 1, -1, 1, -1, 2, -2])
            side = rng.choice([1, -1])          # slot above the edge (lower slot edge on it) or below it
            f2 = 2 * (e + d) + side * w          # 2f, so that f -+ w/2 = e + d exactly
            cand.append((f2, w))
    lo = min(edges) - 400 * G
    hi = max(edges) + 400 * G
    for _ in range(rng.randint(1, max(1, nmax))):
        w = rng.choice(WIDTHS)
        if bands and rng.random() < 0.75:
            b = rng.choice(bands)
            a, z = min(b), max(b)
            f = rng.randrange(a - 100 * G, z + 100 * G + 1, 12500000000) + rng.choice([0, 0, 0, 1])
        else:
            f = rng.randrange(lo, hi, 12500000000)
        cand.append((2 * f, w))
    cand.sort()
    kept = []
    for f2, w in cand:
        if kept:
            pf2, pw = kept[-1]
            if pf2 + pw > f2 - w:              # overlap with the previous one
                u = rng.random()
                if u < 0.35:                    # move it so that the slots touch, or leave 1 Hz
                    f2 = pf2 + pw + w + 2 * rng.choice([0, 0, 1])
                else:
                    continue
        kept.append((f2, w))
    if len(kept) > nmax:
        drop = set(rng.sample(range(len(kept)), len(kept) - nmax))
        kept = [k for i, k in enumerate(kept) if i not in drop]
    chs = []
    for i, (f2, w) in enumerate(kept):
        if f2 % 2:                              # half-Hz centre: keep it exact but rare
            if rng.random() < 0.5:
                f2 += 1
        chs.append(mkch(rng, i + 1, Fraction(f2, 2) if f2 % 2 else f2 // 2, w))
    # re-validate after the +1 nudges
    chs.sort(key=lambda c: c['f'])
    out = []
    for c in chs:
        if out and 2 * out[-1]['f'] + out[-1]['w'] > 2 * c['f'] - c['w']:
            continue
        out.append(c)
    for k, c in enumerate(out):
        c['id'] = k + 1
        c['osnr'] = 30 + (k + 1) * 0.001
        if isinstance(c['f'], Fraction):
            c['f'] = float(c['f'])              # x.5: exact in binary
    rng.shuffle(out)
    return out


def spoil(rng, chs):
    """malformed stream: returns the kind of defect injected"""
    if not chs:
        return 'none'
    kind = rng.choice(['overlap1', 'overlap_big', 'equal_f', 'baud1', 'baud_big', 'both', 'equal_f3'])
    srt = sorted(chs, key=lambda c: c['f'])
    nid = max(c['id'] for c in chs) + 1
    if kind in ('overlap1', 'overlap_big', 'both'):
        a = rng.choice(srt)
        w = rng.choice(WIDTHS)
        ov = 1 if kind != 'overlap_big' else rng.choice([2, 1000, w // 2, w])
        f2 = 2 * a['f'] + a['w'] + w - 2 * ov    # new slot starts `ov` Hz inside a's slot
        if f2 % 2:
            f2 += 1
        chs.append(mkch(rng, nid, int(f2) // 2, w))
    if kind in ('equal_f', 'equal_f3'):
        a = rng.choice(srt)
        chs.append(mkch(rng, nid, a['f'], rng.choice(WIDTHS)))
        if kind == 'equal_f3':
            chs.append(mkch(rng, nid + 1, a['f'], rng.choice(WIDTHS)))
    if kind in ('baud1', 'baud_big', 'both'):
        a = rng.choice(chs)
        a['b'] = a['w'] + (1 if kind != 'baud_big' else rng.choice([2, G, a['w']]))
    for c in chs:
        c['osnr'] = 30 + c['id'] * 0.001
    rng.shuffle(chs)
    return kind


def gen_amp_bandsets(rng):
    """amp_bands argument of find_common_range"""
    n = rng.choice([0, 1, 1, 2, 2, 3, 3, 4, 6])
    amps = []
    for _ in range(n):
        u = rng.random()
        if u < 0.08:
            amp = []
        else:
            amp = [{'f_min': b[0], 'f_max': b[1]} for b in gen_bandset(rng)]
        for b in amp:
            if rng.random() < 0.3:
                b['spacing'] = rng.choice([50 * G, 75 * G, 100 * G, 37500000000, 12500000000])
            if rng.random() < 0.04:
                b[rng.choice(['f_min', 'f_max'])] = None
            if rng.random() < 0.04:
                b['f_min'], b['f_max'] = b['f_max'], b['f_min']       # inverted band
        amps.append(amp)
    if rng.random() < 0.25:
        # one amplifier band spanning several bands of another amplifier, in both orders
        wide = [{'f_min': 186 * T + jitter(rng), 'f_max': 196500 * G + jitter(rng)}]
        if rng.random() < 0.3:
            wide[0]['f_max'] = 200500 * G
        sub = [{'f_min': lo + jitter(rng), 'f_max': hi + jitter(rng)}
               for lo, hi in rng.sample([(C_LO, C_HI), (L_LO, L_HI), (S_LO, S_HI)], rng.choice([2, 2, 3]))]
        if rng.random() < 0.3:
            sub[0]['spacing'] = 75 * G
        pair = [wide, sub] if rng.random() < 0.5 else [sub, wide]
        u = rng.random()
        amps = pair + amps[:1] if u < 0.4 else (pair if u < 0.8 else amps[:1] + pair)
    if amps and rng.random() < 0.3:                                    # duplicates (possibly in another order)
        a = copy.deepcopy(rng.choice(amps))
        if rng.random() < 0.5:
            a.reverse()
        amps.insert(rng.randint(0, len(amps)), a)
    return amps


def gen_fake_path(rng, wf=True):
    """stand-in path: P(assive) / E(dfa) / M(ultiband) descriptors.  wf => every Multiband declares exactly the
    (pairwise disjoint) bands of its amplifiers and every Edfa has one band."""
    base = [[C_LO, C_HI], [L_LO, L_HI]]
    if rng.random() < 0.25:
        base.append([S_LO, S_HI])
    path, uid = [], 0
    n = rng.choice([0, 1, 2, 3, 3, 4, 5])
    ok = True
    for _ in range(n):
        while rng.random() < 0.5:
            uid += 1
            path.append({'t': 'P', 'uid': uid})
        uid += 1
        if rng.random() < 0.5:
            b = list(rng.choice(base))
            b = [b[0] + jitter(rng) + rng.choice([0, 50 * G]), b[1] + jitter(rng) - rng.choice([0, 50 * G])]
            bands = [b]
            if not wf and rng.random() < 0.15:
                bands.append(list(rng.choice(base)))       # an Edfa whose params.bands has two entries
                ok = False
            path.append({'t': 'E', 'uid': uid, 'bands': bands})
        else:
            k = rng.choice([1, 2, 2, 2, len(base)])
            chosen = rng.sample(base, k)
            subs = []
            for j, b in enumerate(chosen):
                sb = [b[0] + jitter(rng) + rng.choice([0, 50 * G]), b[1] + jitter(rng) - rng.choice([0, 50 * G])]
                subs.append({'uid': uid * 100 + j, 'bands': [sb]})
            bands = [list(s['bands'][0]) for s in subs]
            if not wf:
                u = rng.random()
                if u < 0.25:                                 # a declared band that no amplifier serves
                    rest = [b for b in base if b not in chosen]
                    bands.append(list(rest[0]) if rest else [C_LO - 2000 * G, C_LO - 1000 * G])
                    ok = False
                elif u < 0.5:                                # declared band wider than the amplifier's
                    bands[0] = [bands[0][0] - 100 * G, bands[0][1] + 100 * G]
                    ok = False
                elif u < 0.75 and len(subs) >= 1:            # two amplifiers with overlapping bands
                    sb = subs[0]['bands'][0]
                    subs.append({'uid': uid * 100 + len(subs), 'bands': [[sb[0] + 200 * G, sb[1] + 300 * G]]})
                    ok = False
            rng.shuffle(bands)
            path.append({'t': 'M', 'uid': uid, 'bands': bands, 'subs': subs})
    if rng.random() < 0.25:
        # a wide single-band amplifier spanning the bands of the multiband amplifiers, first / last / anywhere
        uid += 1
        w = {'t': 'E', 'uid': uid, 'bands': [[186 * T + jitter(rng), rng.choice([196500, 200500]) * G + jitter(rng)]]}
        u = rng.random()
        path.insert(0 if u < 0.45 else (len(path) if u < 0.9 else rng.randint(0, len(path))), w)
    while rng.random() < 0.4:
        uid += 1
        path.append({'t': 'P', 'uid': uid})
    return path, ok


def path_band_edges(path):
    bs = []
    for e in path:
        if e['t'] == 'E':
            bs += e['bands'] + ([e['real']] if e.get('real') else [])
        elif e['t'] == 'M':
            bs += e['bands'] + [s['bands'][0] for s in e['subs']] + [s['real'] for s in e['subs'] if s.get('real')]
    return bs


SI_DEFAULT = [191300 * G, 196100 * G, 50 * G]


def gen_case(rng, kind):
    if kind == 'mk':
        bands = gen_bandset(rng)
        chs = gen_carriers(rng, bands, nmax=rng.choice([1, 3, 6, 12, 20]))
        if rng.random() < 0.06:
            chs = chs[:rng.choice([0, 1])]
        c = {'kind': 'mk', 'chs': chs, 'defect': 'none', 'via': 'arbitrary'}
        if rng.random() < 0.3:
            c['defect'] = spoil(rng, chs)
        elif rng.random() < 0.4:
            c['via'] = 'carriers'
        c['perm'] = rng.sample(range(len(chs)), len(chs))
        return c
    if kind == 'demux':
        bands = gen_bandset(rng)
        chs = gen_carriers(rng, bands, nmax=rng.choice([3, 8, 16]))
        b = list(rng.choice(bands))
        if rng.random() < 0.1:
            b = [b[0] - 5000 * G, b[0] - 4000 * G]           # nothing inside -> None
        return {'kind': 'demux', 'chs': chs, 'band': b}
    if kind == 'mux':
        bands = gen_bandset(rng)
        chs = gen_carriers(rng, bands, nmax=rng.choice([4, 8, 16]))
        k = rng.choice([0, 1, 2, 2, 3, 4])
        parts = [[] for _ in range(k)]
        for c in chs:
            if k:
                parts[rng.randrange(k)].append(c)
        if k >= 2 and rng.random() < 0.3:                     # collide: a channel present in two parts / overlapping
            src = [p for p in parts if p]
            if src:
                c = copy.deepcopy(rng.choice(rng.choice(src)))
                c['id'] = 900
                c['osnr'] = 30.9
                c['f'] = c['f'] + rng.choice([0, 0, 1, c['w'] - 1, c['w']])
                rng.choice(parts).append(c)
        return {'kind': 'mux', 'parts': parts}
    if kind == 'fcr':
        d = rng.random()
        dflt = [None, None] if d < 0.1 else ([191300 * G, None] if d < 0.15 else [191300 * G, 196100 * G])
        return {'kind': 'fcr', 'amps': gen_amp_bandsets(rng), 'dmin': dflt[0], 'dmax': dflt[1],
                'dsp': rng.choice([50 * G, 50 * G, 75 * G, 12500000000])}
    if kind == 'fcrg':
        c = gen_case(rng, 'fcr')
        c['kind'] = 'fcrg'
        if rng.random() < 0.7:
            c['dmin'] = c['dmax'] = None                   # the way network.set_per_degree_design_band calls it
        u = rng.random()
        if u < 0.15:
            c['ddb'] = None
        elif u < 0.25:
            c['ddb'] = []
        else:
            ddb = []
            for lo, hi in rng.sample([(C_LO, C_HI), (L_LO, L_HI), (S_LO, S_HI), (186 * T, 200500 * G)], rng.choice([1, 2, 2, 3])):
                ddb.append({'f_min': lo + jitter(rng) + rng.choice([0, 0, 500 * G]), 'f_max': hi + jitter(rng) - rng.choice([0, 0, 500 * G]),
                            'spacing': rng.choice([None, 50 * G, 75 * G, 100 * G, 37500000000, 62500000000])})
            c['ddb'] = ddb
        return c
    if kind == 'cts':
        bands = gen_bandset(rng)
        chs = gen_carriers(rng, bands, nmax=rng.choice([1, 3, 6, 12, 20]))
        c = {'kind': 'cts', 'chs': chs, 'defect': 'none'}
        if rng.random() < 0.2 and chs:
            for _ in range(20):
                cc = copy.deepcopy(chs)
                d = spoil(rng, cc)
                if len({float(x['f']) for x in cc}) == len(cc):      # dict keys are distinct
                    c['chs'], c['defect'] = cc, d
                    break
        c['perm'] = rng.sample(range(len(c['chs'])), len(c['chs']))
        return c
    if kind == 'cols':
        bands = gen_bandset(rng)
        chs = gen_carriers(rng, bands, nmax=rng.choice([2, 3, 6, 12]))
        n = len(chs)
        lens = {k: n for k in ('b', 'w', 'label', 'osnr', 'txp', 'dpdb', 'ro')}
        if rng.random() < 0.7:
            for k in rng.sample(sorted(lens), rng.choice([1, 1, 2])):
                lens[k] = rng.choice([m for m in (0, 2, 3, n - 1, n + 1, n + 2, 2 * n) if m != n and m != 1] or [n + 1])
        return {'kind': 'cols', 'chs': chs, 'lens': lens}
    if kind == 'grid':
        fmin = rng.choice([186e12, 191.3e12, 191.325e12, 193.4755e12, 191.3e12 + 0.5, float(rng.randrange(186 * T, 196 * T)),
                           rng.uniform(186e12, 196e12)])
        sp = rng.choice([50e9, 50e9, 37.5e9, 75e9, 12.5e9, 6.25e9, 100e9, 62.5e9, 87.5e9, 1e11 / 3, 12.5e9 / 3, 33.3e9,
                         50e9 * 1.0000001, 6.25e9 * 1.1, 0.1e12 / 7, 1e10 * 3.3])
        n = rng.choice([0, 1, 2, 3, 5, 8, 13, 24, 40, 60])
        delta = rng.choice([0.0, 0.0, 0.0, 1.0, -1.0, sp / 2, -sp / 2, sp - 1, 0.03125, -0.03125])
        fmax = fmin + sp * n + delta
        baud = rng.choice([min(32e9, sp * 0.64), sp, sp, sp - 1, sp * 0.5, sp * (1 + 2 ** -40)])
        u = rng.random()
        if u < 0.10:
            baud = sp + rng.choice([1.0, 0.5, 1e9])
        elif u < 0.13:
            sp = 0.0
        elif u < 0.16:
            sp = -sp
        elif u < 0.19:
            fmax = fmin - rng.choice([0.0, 1.0, 50e9])
        return {'kind': 'grid', 'fmin': fmin, 'fmax': fmax, 'sp': sp, 'baud': baud,
                'ro': rng.choice([0.15, 0.1]), 'osnr': rng.choice([40, 35.5]), 'txp': rng.choice([1e-3, 5e-4]),
                'dpdb': rng.choice([0, 0, 1.5])}
    if kind in ('filter', 'fpath'):
        wf = rng.random() < (0.8 if kind == 'fpath' else 0.6)
        path, ok = gen_fake_path(rng, wf)
        bs = path_band_edges(path) or [SI_DEFAULT[:2]]
        chs = gen_carriers(rng, bs, nmax=rng.choice([4, 10, 18]))
        return {'kind': kind, 'path': path, 'wf': ok, 'si': SI_DEFAULT, 'chs': chs}
    if kind == 'elem':
        wf = rng.random() < 0.6
        for _ in range(50):
            path, ok = gen_fake_path(rng, wf)
            amps = [e for e in path if e['t'] != 'P']
            if amps:
                break
        e = rng.choice(amps)
        chs = gen_carriers(rng, path_band_edges([e]), nmax=rng.choice([4, 10, 18]))
        return {'kind': 'elem', 'elem': e, 'chs': chs}
    raise ValueError(kind)


# ------------------------------------------------------------------ implementation drivers
def f_(x):
    return None if x is None else float(x)


def ident(c):
    """the tuple of per-channel data by which an output entry is recognised"""
    return (float(c['f']), float(c['b']), float(c['w']), str(c['label']), float(c['osnr']), float(c['txp']),
            float(c['dpdb']), float(c['ro']))


def si_tuples(si):
    cols = [getattr(si, a) for a in ID_ATTRS]
    n = len(cols[0])
    if any(len(col) != n for col in cols) or si.number_of_channels != n or list(si.channel_number) != list(range(1, n + 1)):
        return None
    return [(float(cols[0][k]), float(cols[1][k]), float(cols[2][k]), str(cols[3][k]), float(cols[4][k]),
             float(cols[5][k]), float(cols[6][k]), float(cols[7][k])) for k in range(n)]


def ids_of(si, idmap):
    tu = si_tuples(si)
    if tu is None:
        return ['ragged']
    return [idmap.get(t, f'?{k}') for k, t in enumerate(tu)]


def build_si(chs, via='arbitrary'):
    from gnpy.core.info import create_arbitrary_spectral_information, carriers_to_spectral_information, Carrier
    if via == 'carriers' and len({float(c['f']) for c in chs}) == len(chs) and chs:
        spec = {float(c['f']): Carrier(delta_pdb=float(c['dpdb']), baud_rate=float(c['b']), slot_width=float(c['w']),
                                       roll_off=float(c['ro']), tx_osnr=float(c['osnr']), tx_power=float(c['txp']),
                                       label=c['label']) for c in chs}
        return carriers_to_spectral_information(spec, power=1e-3)
    return create_arbitrary_spectral_information(
        frequency=[float(c['f']) for c in chs], slot_width=[float(c['w']) for c in chs],
        baud_rate=[float(c['b']) for c in chs], pch=[float(c['txp']) for c in chs],
        tx_osnr=[float(c['osnr']) for c in chs], tx_power=[float(c['txp']) for c in chs],
        delta_pdb_per_channel=[float(c['dpdb']) for c in chs], roll_off=[float(c['ro']) for c in chs],
        label=[c['label'] for c in chs])


def exc_s(e):
    n = type(e).__name__
    if n == 'SpectrumError':
        m = str(e)
        if 'cannot be summed' in m:
            return 'E:SpectrumError:sum'
        if 'slot widths larger' in m:
            return 'E:SpectrumError:overlap'
        if 'baud rate' in m:
            return 'E:SpectrumError:baud'
        if 'Dimension mismatch' in m:
            return 'E:SpectrumError:dimension'
        return 'E:SpectrumError:?'
    return 'E:' + n


def ids_s(ids):
    return '[' + ','.join(str(i) for i in ids) + ']'


def dict_band(b):
    d = {'f_min': f_(b[0]), 'f_max': f_(b[1])}
    return d


class PassEl:
    def __init__(self, uid):
        self.uid = f'p{uid}'

    def __call__(self, si, **kw):
        return si


def fake_edfa(uid, bands):
    from gnpy.core.elements import Edfa
    e = Edfa.__new__(Edfa)
    e.uid = f'amp{uid}'
    e.c07 = uid
    e.params = NS(bands=[dict_band(b) for b in bands])
    return e


def fake_elem(d):
    from gnpy.core.elements import Multiband_amplifier
    if d['t'] == 'P':
        return PassEl(d['uid'])
    if d['t'] == 'E':
        return fake_edfa(d['uid'], d['bands'])
    m = Multiband_amplifier.__new__(Multiband_amplifier)
    m.uid = f'multi{d["uid"]}'
    m.c07 = d['uid']
    m.params = NS(bands=[dict_band(b) for b in d['bands']])
    m.amplifiers = {f'B{k}': fake_edfa(s['uid'], s['bands']) for k, s in enumerate(d['subs'])}
    return m


class StampPropagate:
    """replaces Edfa.propagate on stand-in amplifiers: stage k adds 4^k to the latency array of what it is given"""
    def __init__(self):
        self.codes = {}

    def code(self, uid):
        if uid not in self.codes:
            self.codes[uid] = 4 ** len(self.codes)
        return self.codes[uid]

    def __enter__(self):
        from gnpy.core.elements import Edfa
        self.orig = Edfa.propagate
        me = self

        def stub(amp, si):
            si.latency = si.latency + float(me.code(amp.c07))
        Edfa.propagate = stub
        return self

    def __exit__(self, *a):
        from gnpy.core.elements import Edfa
        Edfa.propagate = self.orig

    def hist(self, si, idmap):
        ids = ids_of(si, idmap)
        out = []
        inv = sorted(self.codes.items(), key=lambda kv: kv[1])
        for i, lat in zip(ids, si.latency):
            v = int(round(float(lat)))
            stages = []
            for uid, code in inv:
                k = (v // code) % 4
                stages += [uid] * k
            out.append((i, stages))
        return out


def hist_s(h):
    return ','.join(f'{i}:' + '.'.join(str(u) for u in sorted(st)) for i, st in h)


def fake_equipment(si3):
    return {'SI': {'default': NS(f_min=f_(si3[0]), f_max=f_(si3[1]), spacing=f_(si3[2]))}}


def assign_codes(st, path):
    for d in path:
        if d['t'] == 'E':
            st.code(d['uid'])
        elif d['t'] == 'M':
            for s in d['subs']:
                st.code(s['uid'])


def drive(case):
    """returns (impl line, observations for the oracle)"""
    from gnpy.core.info import demuxed_spectral_information, muxed_spectral_information
    from gnpy.core.utils import find_common_range
    from gnpy.topology.request import filter_si
    kind = case['kind']
    obs = {}
    if kind == 'mk':
        chs = case['chs']
        idmap = {ident(c): c['id'] for c in chs}
        try:
            si = build_si(chs, case['via'])
            line = ids_s(ids_of(si, idmap))
            obs['f'] = [float(x) for x in si.frequency]
        except Exception as e:
            line = exc_s(e)
        # the same carriers in another order
        pchs = [chs[k] for k in case['perm']]
        try:
            si2 = build_si(pchs, case['via'])
            obs['perm'] = ids_s(ids_of(si2, idmap))
        except Exception as e:
            obs['perm'] = exc_s(e)
        return line, obs
    if kind == 'demux':
        chs = case['chs']
        idmap = {ident(c): c['id'] for c in chs}
        try:
            si = build_si(chs)
        except Exception as e:
            return 'E0:' + exc_s(e)[2:], obs
        try:
            d = demuxed_spectral_information(si, dict_band(case['band']))
            line = 'N' if d is None else ids_s(ids_of(d, idmap))
        except Exception as e:
            line = exc_s(e)
        return line, obs
    if kind == 'mux':
        allc = [c for p in case['parts'] for c in p]
        idmap = {ident(c): c['id'] for c in allc}
        try:
            sis = [build_si(p) for p in case['parts']]
        except Exception as e:
            return 'E0:' + exc_s(e)[2:], obs
        try:
            line = ids_s(ids_of(muxed_spectral_information(sis), idmap))
        except Exception as e:
            line = exc_s(e)
        return line, obs
    if kind == 'fcr':
        amps = [[{k: f_(v) for k, v in b.items()} for b in a] for a in case['amps']]
        try:
            r = find_common_range(amps, f_(case['dmin']), f_(case['dmax']), f_(case['dsp']))
            line = ';'.join(','.join(frac_s(b.get(k)) for k in ('f_min', 'f_max', 'spacing')) for b in r)
            obs['r'] = r
        except Exception as e:
            line = exc_s(e)
        return line, obs
    if kind == 'fcrg':
        amps = [[{k: f_(v) for k, v in b.items()} for b in a] for a in case['amps']]
        ddb = None if case['ddb'] is None else [{k: f_(v) for k, v in b.items()} for b in case['ddb']]
        try:
            r = find_common_range(amps, f_(case['dmin']), f_(case['dmax']), f_(case['dsp']), ddb)
            line = ';'.join(','.join(frac_s(b.get(k)) for k in ('f_min', 'f_max', 'spacing')) for b in r)
            obs['r'] = r
        except Exception as e:
            line = exc_s(e)
        return line, obs
    if kind == 'cts':
        chs = case['chs']
        idmap = {ident(c): c['id'] for c in chs}
        try:
            si = build_si(chs, 'carriers') if chs else build_si(chs)
            ids = ids_of(si, idmap)
            line = ids_s(ids)
            obs['ids'] = ids
        except Exception as e:
            line = exc_s(e)
        try:
            pch = [chs[k] for k in case['perm']]
            si2 = build_si(pch, 'carriers') if pch else build_si(pch)
            obs['perm'] = ids_s(ids_of(si2, idmap))
        except Exception as e:
            obs['perm'] = exc_s(e)
        return line, obs
    if kind == 'cols':
        from gnpy.core.info import create_arbitrary_spectral_information
        chs, lens = case['chs'], case['lens']
        idmap = {ident(c): c['id'] for c in chs}

        def col(key, conv):
            v = [conv(c[key]) for c in chs]
            m = lens[key]
            return (v + [v[-1]] * m)[:m] if v else v
        try:
            txp = col('txp', float)
            si = create_arbitrary_spectral_information(
                frequency=[float(c['f']) for c in chs], slot_width=col('w', float), baud_rate=col('b', float), pch=txp,
                tx_osnr=col('osnr', float), tx_power=txp, delta_pdb_per_channel=col('dpdb', float),
                roll_off=col('ro', float), label=col('label', str))
            line = ids_s(ids_of(si, idmap))
        except Exception as e:
            line = exc_s(e)
        return line, obs
    if kind == 'grid':
        from gnpy.core.info import create_input_spectral_information
        try:
            si = create_input_spectral_information(f_min=case['fmin'], f_max=case['fmax'], roll_off=case['ro'],
                                                   baud_rate=case['baud'], spacing=case['sp'], tx_osnr=case['osnr'],
                                                   tx_power=case['txp'], delta_pdb=case['dpdb'])
            obs['si'] = {a: list(getattr(si, a)) for a in ID_ATTRS}
            obs['n'] = si.number_of_channels
            line = f'{si.number_of_channels};' + ','.join(repr(float(x)) for x in si.frequency)
        except Exception as e:
            line = exc_s(e)
        return line, obs
    if kind in ('filter', 'fpath', 'elem'):
        chs = case['chs']
        idmap = {ident(c): c['id'] for c in chs}
        try:
            si = build_si(chs)
        except Exception as e:
            return 'E0:' + exc_s(e)[2:], obs
        with StampPropagate() as st:
            if kind == 'elem':
                el = fake_elem(case['elem'])
                assign_codes(st, [case['elem']])
                try:
                    out = el(si)
                    h = st.hist(out, idmap)
                    obs['hist'] = h
                    return hist_s(h), obs
                except Exception as e:
                    return exc_s(e), obs
            path = [fake_elem(d) for d in case['path']]
            assign_codes(st, case['path'])
            try:
                from gnpy.topology.request import find_elements_common_range
                obs['cr'] = find_elements_common_range(path, fake_equipment(case['si']))
            except Exception as e:
                obs['cr_exc'] = exc_s(e)
            try:
                s1 = filter_si(path, fake_equipment(case['si']), si)
            except Exception as e:
                return ('F:' if kind == 'fpath' else '') + exc_s(e), obs
            kept = ids_of(s1, idmap)
            obs['kept'] = kept
            if kind == 'filter':
                return ids_s(kept), obs
            parts = ['F:' + ids_s(kept)]
            obs['after'] = []
            cur = s1
            for el in path:
                try:
                    cur = el(cur)
                except Exception as e:
                    parts.append(exc_s(e))
                    obs['after'].append(None)
                    break
                h = st.hist(cur, idmap)
                obs['after'].append(h)
                parts.append(hist_s(h))
            return '|'.join(parts), obs
    raise ValueError(kind)


def frac_s(x):
    if x is None:
        return 'N'
    fr = Fraction(x)
    return f'{fr.numerator}/{fr.denominator}'


# ------------------------------------------------------------------ independent specification (exact, doubled ints)
def lo2(c):
    return 2 * Fraction(c['f']) - c['w']


def hi2(c):
    return 2 * Fraction(c['f']) + c['w']


def overlaps(a, b):
    return lo2(a) < hi2(b) and lo2(b) < hi2(a)


def fits(c, b):
    return 2 * b[0] <= lo2(c) and hi2(c) <= 2 * b[1]


def spec_reject(chs):
    """None if acceptable, else 'overlap' / 'baud' (overlap is reported first)"""
    for i in range(len(chs)):
        for j in range(i + 1, len(chs)):
            if overlaps(chs[i], chs[j]):
                return 'overlap'
    if any(c['b'] > c['w'] for c in chs):
        return 'baud'
    return None


def exact_ok(chs, bands=()):
    """every float expression the implementation compares is exact"""
    for c in chs:
        f, w = float(c['f']), float(c['w'])
        if Fraction(f) != Fraction(c['f']) or Fraction(w) != Fraction(c['w']) or Fraction(float(c['b'])) != Fraction(c['b']):
            return False
        if Fraction(f + w / 2) != Fraction(c['f']) + Fraction(c['w']) / 2:
            return False
        if Fraction(f - w / 2) != Fraction(c['f']) - Fraction(c['w']) / 2:
            return False
    for b in bands:
        for e in b:
            if e is not None and Fraction(float(e)) != Fraction(e):
                return False
    return True


def cr_spec_fails(result, amps, dflt, slots=()):
    """common_range_spec / common_range_spec_channel evaluated on the implementation's own output (exact arithmetic):
    result = the list of band dicts returned, amps = the amp_bands argument, dflt = (f_min, f_max) default band,
    slots = extra (lo, hi) slots to probe.  A point lies strictly inside a returned band iff it lies strictly inside
    a band of every valid amplifier; a slot fits a returned band iff it fits a band of every valid amplifier."""
    fr = Fraction
    valid = [a for a in amps if all(b.get('f_min') is not None and b.get('f_max') is not None for b in a)]
    try:
        res = [(fr(b['f_min']), fr(b['f_max'])) for b in result]
    except Exception as e:
        return [f'malformed result {result}: {e}']
    if not valid:
        want = [] if dflt[0] is None or dflt[1] is None else [(fr(dflt[0]), fr(dflt[1]))]
        return [] if res == want else [f'no valid amplifier: returned {res}, default band is {want}']
    va = [[(fr(b['f_min']), fr(b['f_max'])) for b in a] for a in valid]
    out = []
    if any(res[k][0] > res[k + 1][0] for k in range(len(res) - 1)):
        out.append(f'returned bands not sorted by f_min: {[(float(a), float(b)) for a, b in res]}')
    edges = sorted({e for a in va for b in a for e in b} | {e for b in res for e in b})
    pts = set()
    for e in edges:
        pts |= {e - 1, e, e + 1}
    for a, b in zip(edges[:-1], edges[1:]):
        pts.add((a + b) / 2)
    for x in sorted(pts):
        in_res = any(lo < x < hi for lo, hi in res)
        in_all = all(any(lo < x < hi for lo, hi in a) for a in va)
        if in_res != in_all:
            out.append(f'{float(x)} Hz is {"" if in_res else "not "}strictly inside a returned band but '
                       f'{"" if in_all else "not "}inside a band of every amplifier')
            break
    probes = list(slots)
    for e in edges:
        for w in (25 * G, 50 * G + 1):
            for d in (-1, 0, 1):
                probes += [(e + d, e + d + w), (e + d - w, e + d)]
    for lo, hi in probes:
        lo, hi = fr(lo), fr(hi)
        if not lo < hi:
            continue
        in_res = any(a <= lo and hi <= b for a, b in res)
        in_all = all(any(a <= lo and hi <= b for a, b in amp) for amp in va)
        if in_res != in_all:
            out.append(f'slot [{float(lo)}, {float(hi)}] Hz {"fits" if in_res else "does not fit"} a returned band but '
                       f'{"fits" if in_all else "does not fit"} a band of every amplifier')
            break
    return out


def cr_spacing_fails(result, amps):
    """common_range_spacing on the implementation's output: with at least one valid amplifier every returned band
    carries a spacing, and for every valid amplifier it lies inside one of its bands whose declared spacing (if any)
    does not exceed it"""
    fr = Fraction
    valid = [a for a in amps if all(b.get('f_min') is not None and b.get('f_max') is not None for b in a)]
    if not valid:
        return []
    out = []
    for r in result:
        if r.get('spacing') is None:
            out.append(f'returned band {r} has no spacing')
            continue
        for a in valid:
            if not any(fr(b['f_min']) <= fr(r['f_min']) and fr(r['f_max']) <= fr(b['f_max'])
                       and (b.get('spacing') is None or fr(b['spacing']) <= fr(r['spacing'])) for b in a):
                out.append(f'returned band {r}: no band of amplifier {a} contains it with a declared spacing <= its spacing')
                break
    return out[:2]


def grid_exact(case, n):
    """are all float expressions formed for the grid exact (frequencies and slot edges)?"""
    fr = Fraction
    fmin, sp = case['fmin'], case['sp']
    for i in range(1, n + 1):
        f = fmin + sp * i
        if fr(f) != fr(fmin) + fr(sp) * i:
            return False
        if fr(f + sp / 2) != fr(f) + fr(sp) / 2 or fr(f - sp / 2) != fr(f) - fr(sp) / 2:
            return False
    return True


def grid_spec_n(case):
    fr = Fraction
    if case['sp'] == 0:
        return None
    q = (fr(case['fmax']) - fr(case['fmin'])) / fr(case['sp'])
    return q.numerator // q.denominator


def oracle_grid(case, line, obs):
    fails = []
    fr = Fraction
    sp, baud, fmin, fmax = case['sp'], case['baud'], case['fmin'], case['fmax']
    if sp <= 0:
        return fails                      # outside the domain of the theorems (correspondence only)
    n = grid_spec_n(case)
    if n < 0:
        return fails                      # f_max < f_min: numpy refuses the negative array size (correspondence only)
    exact = grid_exact(case, n)
    if line.startswith('E:'):
        if baud > sp and n >= 1:
            if line != 'E:SpectrumError:baud' and exact:
                fails.append(('grid_wrong_error', f'baud > spacing but {line}'))
        elif exact:
            fails.append(('grid_rejected', f'uniform grid of {n} channels rejected with {line}'))
        return fails
    if baud > sp and n >= 1:
        fails.append(('not_rejected', f'baud rate {baud} > spacing {sp} accepted'))
    si = obs['si']
    if obs['n'] != n or any(len(v) != n for v in si.values()):
        fails.append(('grid_count', f'{obs["n"]} channels, automatic_nch = floor((f_max - f_min) / spacing) = {n}'))
        return fails
    f = [fr(float(x)) for x in si['frequency']]
    for i, x in enumerate(f, 1):
        want = fr(fmin) + fr(sp) * i
        if abs(x - want) > abs(want) * fr(1, 10 ** 12):
            fails.append(('grid_frequency', f'channel {i} on {float(x)} Hz, f_min + i * spacing = {float(want)}'))
            break
    if any(a >= b for a, b in zip(f[:-1], f[1:])):
        fails.append(('grid_not_increasing', 'frequencies not strictly increasing'))
    tol = fr(1, 8)
    if f and (f[0] - fr(sp) / 2 < fr(fmin) + fr(sp) / 2 - tol or f[-1] > fr(fmax) + tol):
        fails.append(('grid_outside', f'first centre {float(f[0])}, last centre {float(f[-1])} for [{fmin}, {fmax}]'))
    lab = f'{baud * 1e-9 :.2f}G'
    uni = {'baud_rate': baud, 'slot_width': sp, 'label': lab, 'tx_osnr': case['osnr'], 'tx_power': case['txp'],
           'delta_pdb_per_channel': case['dpdb'], 'roll_off': case['ro']}
    for a, v in uni.items():
        if any((str(x) != v) if a == 'label' else (float(x) != float(v)) for x in si[a]):
            fails.append(('grid_attribute', f'{a} is not {v!r} on every channel'))
    return fails


def slots_of(chs):
    return [(lo2(c) / 2, hi2(c) / 2) for c in chs if c['w'] > 0]


def declared_amp_bands(path):
    return [[{'f_min': b[0], 'f_max': b[1]} for b in d['bands']] for d in path if d['t'] != 'P']


def elem_keeps(d, c):
    """does amplifier element d (by its real per-band amplifiers) carry channel c"""
    if d['t'] == 'P':
        return True
    if d['t'] == 'E':
        return fits(c, d.get('real') or d['bands'][0])
    return any(fits(c, s.get('real') or s['bands'][0]) for s in d['subs'])


def oracle(case, line, obs):
    """property failures on the implementation's own observations: list of (key, description)"""
    fails = []
    kind = case['kind']
    if kind == 'mk':
        chs = case['chs']
        rej = spec_reject(chs)
        if all(c['w'] > 0 for c in chs):
            if rej and line != f'E:SpectrumError:{rej}':
                fails.append(('not_rejected', f'{rej} present but constructor returned {line[:60]}'))
            if not rej:
                if line.startswith('E:'):
                    fails.append(('spurious_reject', f'valid carrier list rejected with {line}'))
                else:
                    want = [c['id'] for c in sorted(chs, key=lambda c: Fraction(c['f']))]
                    if line != ids_s(want):
                        fails.append(('not_sorted_intact', f'constructor arrays {line[:80]} != sorted launch list {ids_s(want)[:80]}'))
            if obs.get('perm') != line:
                fails.append(('order_dependent', f'same carriers, other order: {line[:60]} vs {obs.get("perm", "")[:60]}'))
    elif kind == 'demux':
        if not line.startswith('E'):
            chs = sorted(case['chs'], key=lambda c: Fraction(c['f']))
            want = [c['id'] for c in chs if fits(c, case['band'])]
            got = 'N' if not want else ids_s(want)
            if line != got:
                fails.append(('demux_selection', f'demux on {case["band"]} gave {line[:80]}, channels inside are {got[:80]}'))
    elif kind == 'mux':
        allc = [c for p in case['parts'] for c in p]
        if not line.startswith('E0') and case['parts'] and all(spec_reject(p) is None for p in case['parts']):
            rej = spec_reject(allc)
            if rej and not line.startswith('E:SpectrumError'):
                fails.append(('mux_not_rejected', f'colliding spectra muxed into {line[:80]}'))
            if not rej:
                want = ids_s([c['id'] for c in sorted(allc, key=lambda c: Fraction(c['f']))])
                if line != want:
                    fails.append(('mux_not_union', f'mux gave {line[:80]}, sorted union is {want[:80]}'))
    elif kind in ('fcr', 'fcrg') and 'r' in obs:
        for d in cr_spec_fails(obs['r'], case['amps'], (case['dmin'], case['dmax'])):
            fails.append(('common_range_spec', d))
        for d in cr_spacing_fails(obs['r'], case['amps']):
            fails.append(('common_range_spacing', d))
    elif kind == 'cts':
        chs = case['chs']
        rej = spec_reject(chs)
        if rej and line != f'E:SpectrumError:{rej}':
            fails.append(('not_rejected', f'{rej} present but carriers_to_spectral_information returned {line[:60]}'))
        if not rej:
            if line.startswith('E:'):
                fails.append(('spurious_reject', f'valid carrier dict rejected with {line}'))
            else:
                if any(str(i).startswith('?') for i in obs.get('ids', [])):
                    fails.append(('attributes_detached', f'array entries {obs["ids"]} ("?k": the attributes at position k are not '
                                  'those of the carrier on that frequency)'))
                want = [c['id'] for c in sorted(chs, key=lambda c: Fraction(c['f']))]
                if line != ids_s(want):
                    fails.append(('not_sorted_intact', f'arrays {line[:80]} != carriers in frequency order {ids_s(want)[:80]}'))
        if obs.get('perm') != line:
            fails.append(('order_dependent', f'same carriers, other dict order: {line[:60]} vs {obs.get("perm", "")[:60]}'))
    elif kind == 'grid':
        fails += oracle_grid(case, line, obs)
    if kind in ('filter', 'fpath') and 'cr' in obs:
        for d in cr_spec_fails(obs['cr'], declared_amp_bands(case['path']), case['si'][:2], slots_of(case['chs'])):
            fails.append(('common_range_spec', 'path common range: ' + d))
    if kind in ('filter', 'fpath') and case['wf'] and not line.startswith('E0'):
        chs = sorted(case['chs'], key=lambda c: Fraction(c['f']))
        amps = [d for d in case['path'] if d['t'] != 'P']
        if amps:
            want = [c['id'] for c in chs if all(elem_keeps(d, c) for d in amps)]
        else:
            want = [c['id'] for c in chs if fits(c, case['si'][:2])]
        if 'kept' not in obs:
            if want:
                fails.append(('filter_raises', f'{line[:60]} although channels {want[:8]} fit every amplifier'))
        else:
            if obs['kept'] != want:
                fails.append(('filter_selection', f'filter kept {obs["kept"]}, channels fitting every amplifier: {want}'))
            if kind == 'fpath':
                n_amp = 0
                for d, h in zip(case['path'], obs.get('after', [])):
                    if d['t'] != 'P':
                        n_amp += 1
                    if h is None:
                        fails.append(('element_raises', f'element {d["uid"]} raised after the filter'))
                        break
                    if [i for i, _ in h] != obs['kept']:
                        fails.append(('channel_set_changed', f'after element {d["uid"]}: {[i for i, _ in h]} != filtered {obs["kept"]}'))
                        break
                    if any(len(stg) != n_amp or len(set(stg)) != len(stg) for _, stg in h):
                        fails.append(('not_amplified_once', f'after element {d["uid"]}: stages per channel {h[:4]}'))
                        break
                if len(obs.get('after', [])) != len(case['path']):
                    fails.append(('element_raises', 'path not completed'))
    return fails


# ------------------------------------------------------------------ model terms
def cl(c):
    return f'c {zlit(c["id"])} {qlit(float(c["f"]))} {qlit(float(c["b"]))} {qlit(float(c["w"]))}'


def chl(chs):
    return listlit([cl(c) for c in chs])


def bl(b):
    return f'bd {qlit(float(b[0]))} {qlit(float(b[1]))}'


def oq(x):
    return 'None' if x is None else f'(Some {qlit(float(x))})'


def el_term(d):
    if d['t'] == 'P':
        return f'EPass {zlit(d["uid"])}'
    if d['t'] == 'E':
        return f'ea {zlit(d["uid"])} {listlit([bl(b) for b in d["bands"]])}'
    subs = listlit([f'sa {zlit(s["uid"])} {listlit([bl(b) for b in s["bands"]])}' for s in d['subs']])
    return f'EMulti {zlit(d["uid"])} {listlit([bl(b) for b in d["bands"]])} {subs}'


def path_term(path):
    return listlit([el_term(d) for d in path])


def coq_term(case):
    k = case['kind']
    if k == 'mk':
        return f'run_mk {chl(case["chs"])}'
    if k == 'demux':
        return f'run_demux {chl(case["chs"])} ({bl(case["band"])})'
    if k == 'mux':
        return f'run_mux {listlit([chl(p) for p in case["parts"]])}'
    if k == 'cts':
        d = listlit([f'kc {zlit(c["id"])} {qlit(float(c["f"]))} {qlit(float(c["b"]))} {qlit(float(c["w"]))}' for c in case['chs']])
        return f'run_cts {d}'
    if k == 'cols':
        chs, lens = case['chs'], case['lens']

        def col(key):
            v = [qlit(float(c[key])) for c in chs]
            m = lens[key]
            return listlit((v + [v[-1]] * m)[:m] if v else v)
        ids = listlit([zlit(c['id']) for c in chs]) + '%Z'
        fs = listlit([qlit(float(c['f'])) for c in chs])
        nn = ' '.join(f'{lens[key] if chs else 0}%nat' for key in ('label', 'osnr', 'txp', 'dpdb', 'ro'))
        return f'run_cols {ids} {fs} {col("b")} {col("w")} {nn}'
    if k == 'grid':
        return f'run_grid {qlit(case["fmin"])} {qlit(case["fmax"])} {qlit(case["sp"])} {qlit(case["baud"])}'
    if k == 'fcrg':
        amps = listlit([listlit([f'rb {oq(b.get("f_min"))} {oq(b.get("f_max"))} {oq(b.get("spacing"))}' for b in a])
                        for a in case['amps']])
        ddb = listlit([f'mkB {qlit(float(b["f_min"]))} {qlit(float(b["f_max"]))} {oq(b.get("spacing"))}' for b in (case['ddb'] or [])])
        return f'run_fcr_gen {amps} {oq(case["dmin"])} {oq(case["dmax"])} {qlit(float(case["dsp"]))} {ddb}'
    if k == 'fcr':
        amps = listlit([listlit([f'rb {oq(b.get("f_min"))} {oq(b.get("f_max"))} {oq(b.get("spacing"))}' for b in a])
                        for a in case['amps']])
        return f'run_fcr {amps} {oq(case["dmin"])} {oq(case["dmax"])} {qlit(float(case["dsp"]))}'
    si = case.get('si', SI_DEFAULT)
    dflt = f'{oq(si[0])} {oq(si[1])} {qlit(float(si[2]))}'
    if k == 'filter':
        return f'run_filter {path_term(case["path"])} {dflt} {chl(case["chs"])}'
    if k == 'elem':
        return f'run_elem ({el_term(case["elem"])}) {chl(case["chs"])}'
    if k in ('fpath', 'net'):
        return f'run_path {path_term(case["path"])} {dflt} {chl(case["chs"])}'
    raise ValueError(k)


def canon_model(line):
    """model errors are E:Type:detail; keep the detail only for SpectrumError (which of the three messages)"""
    def one(p):
        for pre in ('E0:', 'F:E:', 'E:'):
            if p.startswith(pre):
                body = p[len(pre):]
                t = body.split(':')
                if t[0] == 'SpectrumError':
                    body = ':'.join(t[:2])
                elif t[0] == 'StopIteration' or t[0] == 'IndexError':
                    body = t[0]
                else:
                    body = t[0]
                return {'E0:': 'E0:', 'F:E:': 'F:E:', 'E:': 'E:'}[pre] + body
        return p
    return '|'.join(one(p) for p in line.split('|'))


def canon_hist(line):
    """sort the stages of each channel (the implementation side decodes them in code order)"""
    def one(p):
        if p.startswith(('E', 'F:', 'N', '[')) or ':' not in p:
            return p
        out = []
        for ent in p.split(','):
            i, st = ent.split(':')
            out.append(i + ':' + '.'.join(str(u) for u in sorted(int(x) for x in st.split('.') if x)))
        return ','.join(out)
    return '|'.join(one(p) for p in line.split('|'))


# ------------------------------------------------------------------ real networks
def amp_variety(name, lo, hi, design=False):
    return {'type_variety': name, 'f_min': float(lo), 'f_max': float(hi), 'type_def': 'variable_gain',
            'gain_flatmax': 26, 'gain_min': 15, 'p_max': 21, 'nf_min': 6, 'nf_max': 10, 'out_voa_auto': False,
            'allowed_for_design': design}


FIB = {'length_units': 'km', 'att_in': 0, 'con_in': 0, 'con_out': 0}


def op():
    return {'gain_target': None, 'delta_p': None, 'tilt_target': 0, 'out_voa': None}


def gen_net(rng):
    """a linear multi-OMS network description: random amplifier library (band edges), 1-3 OMS each single-band or
    multi-band, reverse direction left to auto-design"""
    nC, nL = rng.choice([1, 2, 3]), rng.choice([1, 2])
    lib = {}
    for k in range(nC):
        lib[f'vC{k}'] = [C_LO + rng.choice([0, 50 * G, 75 * G, 250 * G]) + rng.choice([0, 0, 1, -1]),
                         C_HI - rng.choice([0, 50 * G, 250 * G, 1000 * G]) + rng.choice([0, 0, 1, -1])]
    for k in range(nL):
        lib[f'vL{k}'] = [L_LO + rng.choice([0, 50 * G, 250 * G]) + rng.choice([0, 0, 1, -1]),
                         L_HI - rng.choice([0, 50 * G, 250 * G]) + rng.choice([0, 0, 1, -1])]
    multis = {}
    for a in range(nC):
        for b in range(nL):
            multis[f'vM{a}{b}'] = [f'vC{a}', f'vL{b}']
    nseg = rng.choice([1, 2, 2, 3])
    style = rng.choice(['single', 'multi', 'mixed', 'mixed'])
    segs = []
    for s in range(nseg):
        if style == 'single':
            t = 'E'
        elif style == 'multi':
            t = 'M'
        else:
            t = rng.choice(['E', 'M'])
        n = rng.choice([2, 2, 3])
        amps = []
        for _ in range(n):
            if t == 'E':
                v = rng.choice([k for k in lib if k.startswith('vC')] if rng.random() < 0.9 else list(lib))
                amps.append({'t': 'E', 'v': v})
            else:
                mv = rng.choice(sorted(multis))
                sub = list(multis[mv])
                if rng.random() < 0.15:
                    sub = [rng.choice(sub)]                # only one of the two bands equipped
                amps.append({'t': 'M', 'v': mv, 'sub': sub})
        segs.append({'amps': amps, 'len': [rng.choice([40, 60, 80, 100]) for _ in range(n)]})
    if rng.random() < 0.3:
        # a wide single-band OMS (one band spanning C and L) before / after a multi-band OMS
        lib['vW'] = [186 * T + rng.choice([0, 0, 1, -1]), 196500 * G + rng.choice([0, 0, 1, -1])]
        n = rng.choice([2, 2, 3])
        wide = {'amps': [{'t': 'E', 'v': 'vW'} for _ in range(n)], 'len': [rng.choice([40, 60, 80]) for _ in range(n)]}
        mv = rng.choice(sorted(multis))
        multi = {'amps': [{'t': 'M', 'v': mv, 'sub': list(multis[mv])} for _ in range(2)], 'len': [60, 80]}
        pair = [wide, multi] if rng.random() < 0.5 else [multi, wide]
        segs = pair + segs[:rng.choice([0, 0, 1])]
    out = {'lib': lib, 'multis': multis, 'segs': segs}
    if rng.random() < 0.3:
        # an auto-designed multi-band OMS: Multiband_amplifier elements without type_variety / amplifiers; the user
        # gives the design bands of the degree, narrower than / equal to / wider than the bands of the amplifiers
        # the library offers (shipped multiband types and, half of the time, the generated ones)
        out['design_lib'] = rng.random() < 0.5
        cands = [([191250 * G, 196150 * G], [186550 * G, 190050 * G])]
        if out['design_lib']:
            cands += [(lib[m[0]], lib[m[1]]) for m in multis.values()]
        cb, lb = rng.choice(cands)

        def shrink(b):
            d = [0, 0, 50 * G, 50 * G, 150 * G, 450 * G, 25 * G + 1, -50 * G]
            return [b[0] + rng.choice(d), b[1] - rng.choice(d)]
        pdb = [list(cb), list(lb)] if rng.random() < 0.25 else [shrink(cb), shrink(lb)]
        rng.shuffle(pdb)
        n = rng.choice([2, 3, 4])
        auto = {'amps': [{'t': 'A'} for _ in range(n)], 'len': [rng.choice([60, 80, 100]) for _ in range(n)], 'pdb': pdb}
        u = rng.random()
        out['segs'] = [auto] if u < 0.4 else ([auto] + segs[:1] if u < 0.7 else segs[:1] + [auto])
    return out


_EQ_JSON = None


def base_eq_json():
    global _EQ_JSON
    if _EQ_JSON is None:
        from gnpy.tools.json_io import load_json
        from pathlib import Path
        import gnpy
        _EQ_JSON = load_json(Path(gnpy.__file__).parent / 'example-data' / 'eqpt_config_multiband.json')
    return copy.deepcopy(_EQ_JSON)


def build_net(desc):
    """-> (equipment, designed network, req, path elements in propagation order)"""
    from gnpy.tools.json_io import _equipment_from_json, network_from_json, DEFAULT_EXTRA_CONFIG
    from gnpy.tools.worker_utils import designed_network
    from gnpy.topology.request import compute_constrained_path
    eqj = base_eq_json()
    dl = bool(desc.get('design_lib'))
    for name, (lo, hi) in desc['lib'].items():
        eqj['Edfa'].append(amp_variety(name, lo, hi, design=dl))
    for name, amps in desc['multis'].items():
        eqj['Edfa'].append({'type_variety': name, 'type_def': 'multi_band', 'amplifiers': amps, 'allowed_for_design': dl})
    eq = _equipment_from_json(eqj, DEFAULT_EXTRA_CONFIG)
    db = [{'f_min': 191.3e12, 'f_max': 196.1e12, 'spacing': 50e9}]
    els = [{'uid': 'trx 0', 'type': 'Transceiver'}, {'uid': f'trx {len(desc["segs"])}', 'type': 'Transceiver'}]
    for r in range(len(desc['segs']) + 1):
        prm = {'target_pch_out_db': -20, 'design_bands': db}
        if r < len(desc['segs']) and desc['segs'][r].get('pdb'):
            # user-defined design bands of the degree towards an auto-designed multi-band line
            prm['per_degree_design_bands'] = {f'amp {r}.0': [{'f_min': float(b[0]), 'f_max': float(b[1])}
                                                             for b in desc['segs'][r]['pdb']]}
        els.append({'uid': f'roadm {r}', 'type': 'Roadm', 'params': prm})
    conns = []
    chain = ['trx 0', 'roadm 0']
    for s, seg in enumerate(desc['segs']):
        for k, a in enumerate(seg['amps']):
            uid = f'amp {s}.{k}'
            if a['t'] == 'E':
                els.append({'uid': uid, 'type': 'Edfa', 'type_variety': a['v'], 'operational': op()})
            elif a['t'] == 'A':
                els.append({'uid': uid, 'type': 'Multiband_amplifier'})       # amplifiers chosen by the auto-design
            else:
                els.append({'uid': uid, 'type': 'Multiband_amplifier', 'type_variety': a['v'],
                            'amplifiers': [{'type_variety': v, 'operational': op()} for v in a['sub']]})
            chain.append(uid)
            if k < len(seg['amps']) - 1 or len(seg['amps']) == 1:
                fu = f'fiber {s}.{k}'
                els.append({'uid': fu, 'type': 'Fiber', 'type_variety': 'SSMF',
                            'params': dict(FIB, length=seg['len'][k], loss_coef=0.2)})
                chain.append(fu)
        chain.append(f'roadm {s + 1}')
        ru = f'rfiber {s}'
        els.append({'uid': ru, 'type': 'Fiber', 'type_variety': 'SSMF', 'params': dict(FIB, length=80, loss_coef=0.2)})
        conns += [{'from_node': f'roadm {s + 1}', 'to_node': ru}, {'from_node': ru, 'to_node': f'roadm {s}'}]
    last = len(desc['segs'])
    chain.append(f'trx {last}')
    conns += [{'from_node': a, 'to_node': b} for a, b in zip(chain[:-1], chain[1:])]
    conns += [{'from_node': f'trx {last}', 'to_node': f'roadm {last}'}, {'from_node': 'roadm 0', 'to_node': 'trx 0'}]
    net = network_from_json({'elements': els, 'connections': conns}, eq)
    net, req, _ = designed_network(eq, net, source='trx 0', destination=f'trx {last}')
    path = compute_constrained_path(net, req)
    return eq, net, req, path


_EXAMPLE = None


def example_net():
    """the shipped multiband example, designed once"""
    global _EXAMPLE
    if _EXAMPLE is None:
        from pathlib import Path
        from gnpy.tools.json_io import load_equipments_and_configs, load_network
        from gnpy.tools.worker_utils import designed_network
        d = Path(common.REPO) / 'gnpy' / 'example-data'
        eq = load_equipments_and_configs(d / 'eqpt_config_multiband.json', [], [])
        net = load_network(d / 'multiband_example_network.json', eq)
        net, req, _ = designed_network(eq, net, source='trx Site_A', destination='trx Site_D')
        _EXAMPLE = (eq, net, req)
    return _EXAMPLE


EXAMPLE_ROUTES = [('trx Site_A', 'trx Site_D'), ('trx Site_D', 'trx Site_A'), ('trx Site_D', 'trx Site_G'),
                  ('trx Site_A', 'trx Site_G'), ('trx Site_G', 'trx Site_A'), ('trx Site_L', 'trx Site_D'),
                  ('trx Site_A', 'trx Site_L'), ('trx Site_G', 'trx Site_L')]


def describe_path(path):
    """path elements -> descriptors (uids are positions; per-band amplifiers get 100*pos + k)"""
    from gnpy.core.elements import Edfa, Multiband_amplifier
    out = []
    for k, el in enumerate(path):
        if isinstance(el, Edfa):
            out.append({'t': 'E', 'uid': k, 'bands': [[b['f_min'], b['f_max']] for b in el.params.bands], 'name': el.uid,
                        'real': [el.params.f_min, el.params.f_max], 'variety': el.params.type_variety})
        elif isinstance(el, Multiband_amplifier):
            out.append({'t': 'M', 'uid': k, 'bands': [[b['f_min'], b['f_max']] for b in el.params.bands], 'name': el.uid,
                        'variety': el.params.type_variety,
                        'subs': [{'uid': 100 * k + j, 'bands': [[b['f_min'], b['f_max']] for b in a.params.bands],
                                  'real': [a.params.f_min, a.params.f_max], 'variety': a.params.type_variety}
                                 for j, a in enumerate(el.amplifiers.values())]})
        else:
            out.append({'t': 'P', 'uid': k, 'name': el.uid, 'cls': type(el).__name__})
    return out


RX_ATTRS = ('snr', 'osnr_ase', 'osnr_ase_01nm', 'snr_01nm', 'osnr_nli', 'chromatic_dispersion', 'pmd', 'pdl', 'latency',
            'raw_snr', 'raw_osnr_ase', 'raw_snr_01nm', 'raw_osnr_ase_01nm', 'baud_rate', 'tx_power')


def run_real(eq, req, path, chs, grid=None):
    """propagate on a deep copy of `path`; returns observations (snapshots around every element, filter in/out,
    channels every Edfa.propagate saw, receiver arrays)"""
    import numpy as np
    import gnpy.topology.request as rq
    import gnpy.core.elements as E
    from gnpy.core.info import Carrier
    p = copy.deepcopy(path)
    r = copy.copy(req)
    if grid is None:
        r.initial_spectrum = {float(c['f']): Carrier(delta_pdb=float(c['dpdb']), baud_rate=float(c['b']),
                                                     slot_width=float(c['w']), roll_off=float(c['ro']),
                                                     tx_osnr=float(c['osnr']), tx_power=float(c['txp']),
                                                     label=c['label']) for c in chs}
        r.nb_channel = len(chs)
    else:
        r.initial_spectrum = None
        r.f_min, r.f_max, r.spacing, r.baud_rate, r.roll_off, r.tx_osnr, r.tx_power, r.offset_db = grid
    idmap = {ident(c): c['id'] for c in chs}
    pos = {id(el): k for k, el in enumerate(p)}
    obs = {'snaps': [], 'seen': [], 'upd': [], 'filter': None, 'exc': None}
    classes = [E.Transceiver, E.Roadm, E.Fused, E.Fiber, E.RamanFiber, E.Edfa, E.Multiband_amplifier]
    orig_call = {cl: cl.__dict__['__call__'] for cl in classes if '__call__' in cl.__dict__}
    orig_prop = E.Edfa.propagate
    orig_filter = rq.filter_si

    def wrap_call(cl, fn):
        def w(self, si, *a, **kw):
            k = pos.get(id(self))
            before = ids_of(si, idmap) if k is not None else None
            out = fn(self, si, *a, **kw)
            if k is not None:
                obs['snaps'].append((k, before, ids_of(out, idmap)))
            return out
        return w

    def wprop(self, si):
        orig_prop(self, si)
        obs['seen'].append((id(self), ids_of(si, idmap)))

    orig_upd = E.Transceiver.update_snr

    def wupd(self, *args):
        k = pos.get(id(self))
        if k is not None:
            obs['upd'].append((k, [None if a is None else np.array(a, dtype=float).reshape(-1) for a in args]))
        return orig_upd(self, *args)

    def wfilter(pth, equipment, si):
        a = ids_of(si, idmap)
        out = orig_filter(pth, equipment, si)
        obs['filter'] = (a, ids_of(out, idmap))
        return out
    try:
        obs['cr'] = rq.find_elements_common_range(p, eq)
    except Exception as e:
        obs['cr_exc'] = exc_s(e)
    try:
        for cl, fn in orig_call.items():
            cl.__call__ = wrap_call(cl, fn)
        E.Edfa.propagate = wprop
        E.Transceiver.update_snr = wupd
        rq.filter_si = wfilter
        try:
            si = rq.propagate(p, r, eq)
            obs['out'] = ids_of(si, idmap)
            rx = p[-1]
            obs['rx'] = {a: np.array(getattr(rx, a), dtype=float) for a in RX_ATTRS if getattr(rx, a, None) is not None}
            obs['rx_n'] = {a: len(v) for a, v in obs['rx'].items()}
            obs['rx_labels'] = [str(x) for x in rx.propagated_labels]
            obs['si_num'] = {a: np.array(getattr(si, a), dtype=float) for a in ('pch', 'signal', 'ase', 'nli')}
        except Exception as e:
            obs['exc'] = exc_s(e)
            obs['exc_msg'] = f'{type(e).__name__}: {e}'
    finally:
        for cl, fn in orig_call.items():
            cl.__call__ = fn
        E.Edfa.propagate = orig_prop
        E.Transceiver.update_snr = orig_upd
        rq.filter_si = orig_filter
    # which position does each Edfa object belong to (a per-band amplifier belongs to its Multiband element)
    owner = {}
    for k, el in enumerate(p):
        if isinstance(el, E.Edfa):
            owner[id(el)] = k
        elif isinstance(el, E.Multiband_amplifier):
            for j, a in enumerate(el.amplifiers.values()):
                owner[id(a)] = 100 * k + j
    obs['seen'] = [(owner.get(i, -1), ids) for i, ids in obs['seen']]
    return obs


def impl_line_net(desc_path, obs):
    """same text as Run.C07.run_path"""
    if obs['filter'] is None:
        e = obs['exc'] or 'E:?'
        return ('E0:' + e[2:]) if e.startswith('E:SpectrumError') else 'F:' + e
    parts = ['F:' + ids_s(obs['filter'][1])]
    hist = {}
    seen = list(obs['seen'])
    snaps = {k: (b, a) for k, b, a in obs['snaps']}
    for d in desc_path:
        k = d['uid']
        if k not in snaps:
            parts.append(obs['exc'] or 'E:?')
            break
        # stages that ran inside this element
        for u, ids in seen:
            if u == k or (u >= 100 and u // 100 == k):
                for i in ids:
                    hist.setdefault(i, []).append(u)
        parts.append(','.join(f'{i}:' + '.'.join(str(u) for u in sorted(hist.get(i, []))) for i in snaps[k][1]))
    return '|'.join(parts)


def oracle_net(case, obs, obs2):
    fails = []
    chs = sorted(case['chs'], key=lambda c: Fraction(c['f']))
    amps = [d for d in case['path'] if d['t'] != 'P']
    if amps:
        want = [c['id'] for c in chs if all(elem_keeps(d, c) for d in amps)]
    else:
        want = [c['id'] for c in chs if fits(c, case['si'][:2])]
    launched = [c['id'] for c in chs]
    if 'cr' in obs:
        for d in cr_spec_fails(obs['cr'], declared_amp_bands(case['path']), case['si'][:2], slots_of(case['chs'])):
            fails.append(('common_range_spec', 'path common range: ' + d))
    if obs['filter'] is None and obs['exc'] is None:
        fails.append(('filter_not_applied', 'request.propagate did not call filter_si before the first element'))
        if obs.get('out') != want:
            fails.append(('receiver_set', f'received {obs.get("out")} != channels fitting every amplifier {want}'))
        return fails
    if obs['filter'] is None:
        if want or not (obs['exc'] or '').startswith('E:ValueError'):
            fails.append(('propagate_raises', f'{obs.get("exc_msg")} although channels {want[:6]} fit every amplifier'))
        return fails
    fin, fout = obs['filter']
    if fin != launched:
        fails.append(('launch_not_sorted_intact', f'spectrum built from the request {fin[:10]} != sorted launch list {launched[:10]}'))
    if fout != want:
        fails.append(('filter_selection', f'filter kept {fout}, channels fitting every amplifier of the path: {want}'))
    if obs['exc']:
        fails.append(('propagate_raises', f'{obs.get("exc_msg")} after the filter kept {fout[:8]}'))
        return fails
    snaps = sorted(obs['snaps'])
    if [k for k, _, _ in snaps] != list(range(len(case['path']))):
        fails.append(('element_skipped', f'elements called: {[k for k, _, _ in snaps]}'))
    for k, before, after in snaps:
        if before != fout or after != fout:
            fails.append(('channel_set_changed', f'element {k} ({case["path"][k].get("name")}): in {before} out {after}, filtered set {fout}'))
            break
    n_amp = 0
    count = {i: 0 for i in fout}
    for u, ids in obs['seen']:
        for i in ids:
            count[i] = count.get(i, 0) + 1
    if any(v != len(amps) for v in count.values()):
        fails.append(('not_amplified_once', f'amplifier stages per channel {count}, amplifiers on the path {len(amps)}'))
    if obs.get('out') != fout:
        fails.append(('receiver_set', f'received {obs.get("out")} != filtered {fout}'))
    for a, n in obs.get('rx_n', {}).items():
        if n != len(fout):
            fails.append(('receiver_arrays', f'receiver.{a} has {n} entries for {len(fout)} channels'))
    fails += oracle_receiver(case, obs, fout)
    if obs2 is not None:
        import numpy as np
        if obs2['filter'] != obs['filter'] or obs2.get('out') != obs.get('out') or obs2['exc'] != obs['exc']:
            fails.append(('order_dependent', f'permuted carrier list: {obs2.get("out")} vs {obs.get("out")}'))
        else:
            for grp in ('rx', 'si_num'):
                for a, v in obs.get(grp, {}).items():
                    v2 = obs2[grp][a]
                    if v.shape != v2.shape or not np.allclose(v, v2, rtol=1e-9, atol=0, equal_nan=True):
                        fails.append(('order_dependent', f'permuted carrier list changes {grp}.{a}'))
                        break
    return fails


def oracle_receiver(case, obs, fout):
    """each channel reaches the receiver with its own transmitter data: the per-channel transmitter data the receiving (and
    the source) transceiver works with, and the figures it derives from them, are those launched for that very channel.
    The receiver's figures are recomputed here from its raw values, the ROADM add/drop contributions it was given and the
    LAUNCHED tx_osnr (own formula, math.log10)."""
    import math
    fails = []
    by_id = {c['id']: c for c in case['chs']}
    if any(i not in by_id for i in fout) or 'rx' not in obs:
        return fails
    launched = [by_id[i] for i in fout]
    n = len(launched)
    rx = obs['rx']
    last = len(case['path']) - 1

    def close(a, b, tol=1e-9):
        return abs(a - b) <= tol * max(1.0, abs(a), abs(b))
    for attr, key in (('baud_rate', 'b'), ('tx_power', 'txp')):
        if attr in rx and (len(rx[attr]) != n or any(float(x) != float(c[key]) for x, c in zip(rx[attr], launched))):
            fails.append(('receiver_tx_data', f'receiver.{attr} is not the launched {key} of each received channel'))
    if obs.get('rx_labels') is not None and obs['rx_labels'] != [str(c['label']) for c in launched]:
        fails.append(('receiver_tx_data', 'receiver.propagated_labels are not the launched labels of the received channels'))
    want_osnr = [float(c['osnr']) for c in launched]
    upd = {}
    for k, args in obs.get('upd', []):
        upd.setdefault(k, []).append(args)
    for k, name in ((0, 'source transceiver'), (last, 'receiver')):
        if len(upd.get(k, [])) != 1:
            fails.append(('receiver_tx_data', f'{name}: update_snr called {len(upd.get(k, []))} times'))
            continue
        tx = upd[k][0][-1] if upd[k][0] else None
        txl = None if tx is None else [float(x) for x in tx]
        if txl is not None and len(txl) == 1 and n > 1:
            txl = txl * n
        if txl is None or len(txl) != n or any(a != b for a, b in zip(txl, want_osnr)):
            fails.append(('receiver_tx_osnr', f'{name} accounts tx_osnr {None if txl is None else txl[:6]}, launched for these '
                          f'channels: {want_osnr[:6]}'))
    # the receiver's figures
    if len(upd.get(last, [])) == 1 and all(a in rx for a in ('raw_snr', 'raw_osnr_ase', 'raw_snr_01nm', 'raw_osnr_ase_01nm')):
        roadm = [a for a in upd[last][0][:-1] if a is not None]
        for j in range(n):
            lin = 10 ** (-want_osnr[j] / 10)
            for a in roadm:
                lin += 10 ** (-float(a[j] if len(a) == n else a[0]) / 10)
            added = -10 * math.log10(lin)
            for fig, raw, bw in (('osnr_ase', 'raw_osnr_ase', float(launched[j]['b'])), ('snr', 'raw_snr', float(launched[j]['b'])),
                                 ('osnr_ase_01nm', 'raw_osnr_ase_01nm', 12.5e9), ('snr_01nm', 'raw_snr_01nm', 12.5e9)):
                r = float(rx[raw][j])
                if math.isinf(r) or math.isnan(r):
                    continue
                a2 = added - 10 * math.log10(bw / 12.5e9)
                want = -10 * math.log10(10 ** (-r / 10) + 10 ** (-a2 / 10))
                if not close(float(rx[fig][j]), want):
                    fails.append(('receiver_figures', f'receiver.{fig} of channel {fout[j]} is {float(rx[fig][j])!r}; with its own '
                                  f'tx_osnr {want_osnr[j]} dB it is {want!r}'))
                    return fails
    return fails


def kept_by_spec(case):
    chs = sorted(case['chs'], key=lambda c: Fraction(c['f']))
    amps = [d for d in case['path'] if d['t'] != 'P']
    if amps:
        return [c for c in chs if all(elem_keeps(d, c) for d in amps)]
    return [c for c in chs if fits(c, case['si'][:2])]


def single_channel_stage(case):
    """does some amplifier stage of the path (an Edfa, or one per-band amplifier of a Multiband_amplifier) receive
    exactly one of the kept channels?  (regression dimension: Edfa.interpol_params used to index channel_freq[1])"""
    kept = kept_by_spec(case)
    for d in case['path']:
        stages = [d['bands'][0]] if d['t'] == 'E' else [s['bands'][0] for s in d['subs']] if d['t'] == 'M' else []
        for b in stages:
            if sum(1 for c in kept if fits(c, b)) == 1:
                return True
    return False


def net_case(rng, eq, req, path, label):
    case = net_case1(rng, eq, req, path, label)
    if rng.random() < 0.12 and 'grid' not in case:
        # deliberately leave exactly one channel in one amplifier band
        kept = kept_by_spec(case)
        stages = [d['bands'][0] for d in case['path'] if d['t'] == 'E'] + \
                 [s['bands'][0] for d in case['path'] if d['t'] == 'M' for s in d['subs']]
        if kept and stages:
            b = rng.choice(stages)
            inside = [c for c in kept if fits(c, b)]
            if len(inside) > 1:
                keep = rng.choice(inside)
                drop = {c['id'] for c in inside if c is not keep}
                case['chs'] = [c for c in case['chs'] if c['id'] not in drop]
                case['perm'] = rng.sample(range(len(case['chs'])), len(case['chs']))
    return case


def net_case1(rng, eq, req, path, label):
    desc = describe_path(path)
    bs = path_band_edges(desc) or [SI_DEFAULT[:2]]
    bs = [[int(b[0]), int(b[1])] for b in bs]
    si = eq['SI']['default']
    case = {'kind': 'net', 'net': label, 'path': desc, 'si': [si.f_min, si.f_max, si.spacing]}
    if rng.random() < 0.2:
        # uniform grid from the request parameters
        lo = rng.choice([186 * T, 190 * T, 191 * T, 191300 * G, int(min(b[0] for b in bs)) - 100 * G])
        sp = rng.choice([50 * G, 75 * G, 100 * G, 62500000000])
        hi = lo + sp * rng.randint(3, 40)
        baud = rng.choice([32 * G, sp, sp - 1, 28 * G])
        n = int((hi - lo) // sp)
        from gnpy.core.utils import automatic_nch
        n = automatic_nch(float(lo), float(hi), float(sp))
        chs = [{'id': i, 'f': float(lo) + float(sp) * i, 'b': baud, 'w': sp, 'label': f'{baud * 1e-9 :.2f}G', 'osnr': 40,
                'txp': 0.001, 'dpdb': 0, 'ro': 0.15} for i in range(1, n + 1)]
        case['grid'] = [float(lo), float(hi), float(sp), float(baud), 0.15, 40, 0.001, 0]
        case['chs'] = chs
    else:
        case['chs'] = gen_carriers(rng, bs, nmax=rng.choice([6, 12, 24, 36]))
        # partitions (one per label) with their own tx_osnr, as a user-defined initial spectrum has; + id/1000 keeps it unique
        base = {lab: rng.choice([28, 33, 36.5, 40, 40, 45]) for lab in LABELS}
        for c in case['chs']:
            c['osnr'] = base[c['label']] + c['id'] * 0.001
        case['perm'] = rng.sample(range(len(case['chs'])), len(case['chs']))
    return case


def drive_net(case, eq, req, path):
    obs = run_real(eq, req, path, case['chs'], grid=case.get('grid'))
    obs2 = None
    if 'perm' in case and case['chs']:
        obs2 = run_real(eq, req, path, [case['chs'][k] for k in case['perm']])
    return obs, obs2


def strip_np(obs):
    return {k: v for k, v in obs.items() if k not in ('rx', 'si_num')}


# ------------------------------------------------------------------ run
KINDS = ['mk', 'demux', 'mux', 'fcr', 'filter', 'elem', 'fpath', 'cts', 'cols', 'grid', 'fcrg']
CORR = {'mk': 'corr:Channels.mk_si', 'demux': 'corr:Channels.demux', 'mux': 'corr:Channels.mux',
        'fcr': 'corr:Channels.find_common_range', 'filter': 'corr:Channels.filter_si',
        'elem': 'corr:Channels.elem_call', 'fpath': 'corr:Channels.propagate_path', 'net': 'corr:Channels.launch',
        'cts': 'corr:Channels.carriers_to_si', 'cols': 'corr:Channels.create_arbitrary_cols',
        'grid': 'corr:Channels.create_input_si', 'fcrg': 'corr:Channels.find_common_range_gen'}


def grid_compare(case, impl, model):
    """None = agree; 'not_judged' = the uniform grid touches exactly and float rounding of f_min + i*spacing decided
    the overlap test (tie rule); else a description of the disagreement"""
    if impl.startswith('E:') or model.startswith('E:'):
        if impl == model:
            return None
        n = grid_spec_n(case)
        if case['sp'] > 0 and n is not None and n >= 0 and impl == 'E:SpectrumError:overlap' and not grid_exact(case, n):
            return 'not_judged'
        return f'implementation {impl[:60]} / model {model[:60]}'
    ni, fi = impl.split(';')
    nm, fm = model.split(';')
    if ni != nm:
        return f'number of channels {ni} / model {nm}'
    fi = [float(x) for x in fi.split(',')] if fi else []
    fm = [Fraction(x) for x in fm.split(',')] if fm else []
    for k, (a, b) in enumerate(zip(fi, fm)):
        if abs(Fraction(a) - b) > abs(b) * Fraction(1, 10 ** 12):
            return f'frequency #{k + 1}: {a} / model {float(b)}'
    return None


def outcome_key(line):
    m = re.search(r'E0?:([A-Za-z]+(?::[a-z?]+)?)', line)
    return ('raise:' + m.group(1)) if m else 'ok'


def case_chs(case):
    if case['kind'] == 'mux':
        return [c for p in case['parts'] for c in p]
    return case.get('chs', [])


def case_bands(case):
    k = case['kind']
    if k == 'demux':
        return [case['band']]
    if k in ('fcr', 'fcrg'):
        return [[b.get('f_min'), b.get('f_max'), b.get('spacing')] for a in case['amps'] for b in a] + \
               [[case['dmin'], case['dmax'], case['dsp']]] + \
               [[b.get('f_min'), b.get('f_max'), b.get('spacing')] for b in (case.get('ddb') or [])]
    if k in ('filter', 'fpath', 'net'):
        return path_band_edges(case['path']) + [case['si']]
    if k == 'elem':
        return path_band_edges([case['elem']])
    return []


def rebuild_net(case):
    """replay / corpus: rebuild the designed network a 'net' case was generated on"""
    if case['net'] == 'example':
        from gnpy.topology.request import compute_constrained_path
        eq, net, req = example_net()
        r = copy.copy(req)
        r.source, r.destination = case['route']
        r.nodes_list, r.loose_list = [case['route'][1]], ['STRICT']
        return eq, r, compute_constrained_path(net, r)
    eq, net, req, path = build_net(case['desc'])
    return eq, req, path


def run(ctx):
    logging.disable(logging.CRITICAL)
    rng = ctx.rng
    # second tie: re-translate / template-match the band and selection code of /repo's source; the equivalence lemmas of
    # Proofs/ChannelsGen.v are then re-checked by check_props against what the code says now
    from . import pygen_c07
    gen_ok, gen_msg = pygen_c07.regenerate()
    ctx.proof = common.check_props('C07')
    if not gen_ok:
        ctx.proof['ok'] = False
        ctx.proof['log'] = 'harness/pygen_c07.py: ' + gen_msg + '\n' + ctx.proof.get('log', '')
        ctx.proof['failed_file'] = 'theories/Gen/ChannelsGen.v (translation of /repo source failed)'
    ctx.rule = ('function level: random carrier lists (1-36 carriers, mixed baud / slot, slot edges on band edges '
                '+-{0,1,2 Hz}, channels in gaps and outside, touching neighbours, random order) and random band sets '
                '(1-3 bands, touching / overlapping / degenerate; amplifier lists with duplicates, missing bounds, '
                'spacings) through the real constructor / demux / mux / find_common_range / filter_si / Edfa and '
                'Multiband_amplifier dispatch and through the Gallina model; network level: request.propagate on '
                'designed linear multi-OMS networks with random amplifier band edges and on the shipped multiband '
                'example.  A case is non-trivial when at least one channel is kept and at least one is dropped or '
                'rejected, or the call raises; distinct by content hash')
    cases = []
    for f in sorted(glob.glob(os.path.join(common.VERIF, 'corpus', 'C07', '*.json'))):
        c = json.load(open(f))
        c['_corpus'] = os.path.basename(f)
        cases.append(c)
    nets = []          # (case, eq, req, path)
    if ctx.replay:
        rec = json.load(open(ctx.replay))
        cases = [rec['case']]
    else:
        n = {'mk': ctx.scale(220, 3000), 'demux': ctx.scale(80, 1200), 'mux': ctx.scale(80, 1200),
             'fcr': ctx.scale(220, 3000), 'filter': ctx.scale(80, 1200), 'elem': ctx.scale(120, 1600),
             'fpath': ctx.scale(120, 1600), 'cts': ctx.scale(100, 1200), 'cols': ctx.scale(40, 400),
             'grid': ctx.scale(120, 1500), 'fcrg': ctx.scale(120, 1500)}
        for k in KINDS:
            cases += [gen_case(rng, k) for _ in range(n[k])]
    # network-level cases
    net_cases = [c for c in cases if c['kind'] == 'net']
    cases = [c for c in cases if c['kind'] != 'net']
    for c in net_cases:
        try:
            eq, req, path = rebuild_net(c)
            c['path'] = describe_path(path)
            sid = eq['SI']['default']
            c['si'] = [sid.f_min, sid.f_max, sid.spacing]
            nets.append((c, eq, req, path))
        except Exception as e:
            ctx.count('net_rebuild_failed')
            ctx.notes.append(f'corpus/replay net case could not be rebuilt: {type(e).__name__}: {e}')
    if not ctx.replay:
        from gnpy.topology.request import compute_constrained_path
        try:
            eq, net, req = example_net()
            for _ in range(ctx.scale(10, 80)):
                route = rng.choice(EXAMPLE_ROUTES)
                r = copy.copy(req)
                r.source, r.destination = route
                r.nodes_list, r.loose_list = [route[1]], ['STRICT']
                path = compute_constrained_path(net, r)
                c = net_case(rng, eq, r, path, 'example')
                c['route'] = list(route)
                nets.append((c, eq, r, path))
        except Exception as e:
            ctx.count('example_net_failed')
            ctx.notes.append(f'multiband example could not be designed: {type(e).__name__}: {e}')
        nb = 0
        for _ in range(ctx.scale(30, 300)):
            desc = gen_net(rng)
            try:
                eq, net, req, path = build_net(desc)
            except Exception as e:
                ctx.count('net_build_failed:' + type(e).__name__)
                if os.environ.get('C07_DEBUG'):
                    print('net build failed:', type(e).__name__, str(e)[:300], json.dumps(desc)[:400])
                continue
            nb += 1
            for _ in range(2):
                c = net_case(rng, eq, req, path, 'generated')
                c['desc'] = desc
                nets.append((c, eq, req, path))
    terms, meta = [], []
    dbg = os.environ.get('C07_DEBUG')
    import time as _t
    t0 = _t.time()
    if dbg:
        print(f'[t] proofs+generation {t0 - ctx.t0:.1f}s')
    # ---- function-level cases
    for c in cases:
        pub = {k: v for k, v in c.items() if not k.startswith('_')}
        if not exact_ok(case_chs(c), case_bands(c)):
            ctx.count('skipped_inexact')
            continue
        line, obs = drive(c)
        ctx.count('kind_' + c['kind'])
        if c['kind'] == 'mk':
            ctx.count('mk_defect_' + c['defect'])
            ctx.count('mk_via_' + c['via'])
        ctx.count('outcome_' + outcome_key(line))
        nontriv = line.startswith(('E', 'F:E')) or ('kept' in obs and 0 < len(obs['kept']) < len(c['chs'])) or \
            (c['kind'] in ('mk', 'mux', 'fcr', 'elem', 'demux', 'cts', 'cols', 'grid', 'fcrg') and len(line) > 2)
        ctx.case(pub, nontriv)
        for key, desc in oracle(c, line, obs):
            ctx.violation(key, desc, pub)
        terms.append(coq_term(c))
        meta.append((pub, canon_hist(line)))
    if dbg:
        print(f'[t] function-level drive {_t.time() - t0:.1f}s')
        t0 = _t.time()
    # ---- network-level cases
    for c, eq, req, path in nets:
        pub = {k: v for k, v in c.items() if not k.startswith('_')}
        if not exact_ok(c['chs'], case_bands(c)):
            ctx.count('skipped_inexact')
            continue
        obs, obs2 = drive_net(c, eq, req, path)
        ctx.count('kind_net_' + c['net'])
        ctx.count('net_spectrum_' + ('grid' if 'grid' in c else 'carriers'))
        types = {d['t'] for d in c['path'] if d['t'] != 'P'}
        ctx.count('net_path_' + {frozenset('E'): 'single_band', frozenset('M'): 'multi_band',
                                 frozenset('EM'): 'mixed', frozenset(): 'no_amp'}[frozenset(types)])
        if any(a['t'] == 'A' for sg in c.get('desc', {}).get('segs', []) for a in sg['amps']):
            ctx.count('net_auto_designed_multiband_oms')
        ctx.count('net_amplifiers_on_path', len([d for d in c['path'] if d['t'] != 'P']))
        ctx.count('net_channels_launched', len(c['chs']))
        if obs['filter']:
            ctx.count('net_channels_kept', len(obs['filter'][1]))
        if obs['exc']:
            ctx.count('net_outcome_' + obs['exc'])
        ctx.case(pub, bool(obs['filter']) and 0 < len(obs['filter'][1]) < len(c['chs']) or bool(obs['exc']))
        if single_channel_stage(c):
            ctx.count('net_single_channel_stage')
        for key, desc in oracle_net(c, obs, obs2):
            ctx.violation(key, desc, pub, impl=strip_np(obs))
        terms.append(coq_term(c))
        meta.append((pub, impl_line_net(c['path'], obs)))
    if dbg:
        print(f'[t] network-level drive {_t.time() - t0:.1f}s, {len(terms)} terms')
        t0 = _t.time()
    lines = common.coq_eval('C07', 'Prelude Model.Channels Run.C07', terms,
                            per_file=max(4, len(terms) // 64 + 1), prelude='Open Scope Q_scope.')
    if dbg:
        print(f'[t] coq_eval {_t.time() - t0:.1f}s')
    for (c, impl), model in zip(meta, lines):
        m = canon_hist(canon_model(model))
        if c['kind'] == 'grid':
            verdict = grid_compare(c, impl, m)
            if verdict == 'not_judged':
                ctx.count('grid_float_rounding_not_judged')
            elif verdict:
                ctx.corr_break(CORR['grid'], verdict, c, impl=impl[:200], model=m[:200])
            continue
        if m != impl:
            a, b = impl.split('|'), m.split('|')
            k = next((i for i in range(min(len(a), len(b))) if a[i] != b[i]), min(len(a), len(b)))
            ctx.corr_break(CORR[c['kind']], f'first difference at stage #{k} of the rendered result', c,
                           impl=a[k] if k < len(a) else None, model=b[k] if k < len(b) else None)
    ctx.assumptions += [
        'stand-in path elements (real Edfa / Multiband_amplifier instances created without __init__, holding only '
        'params.bands / amplifiers; Edfa.propagate replaced by a latency stamp) exercise the dispatch on arbitrary band '
        'sets; really designed elements are covered by the network-level cases',
        'channels are recognised in the output arrays by the tuple (frequency, baud_rate, slot_width, label, tx_osnr, '
        'tx_power, delta_pdb_per_channel, roll_off); tx_osnr is unique per launched carrier',
        'numpy.argsort is treated as a stable sort; equal frequencies are only generated with positive slot widths '
        '(rejected in any order)',
        'translator tie: harness/pygen_c07.py (fail-closed Python-ast -> Gallina for is_in_band, the overlap / exceed tests of '
        'SpectralInformation.__init__, the `any(select)` test of demuxed_spectral_information, the band intersection of '
        'find_common_range, calculate_spacing, get_spacing_from_band, automatic_nch, the grid frequency; template match of the '
        'numpy plumbing: [indices] / [select] / append(self.X, other.X) on every constructor array, mux, filter_si, '
        'find_elements_common_range, carriers_to_spectral_information, Edfa / Multiband_amplifier __call__, the params.bands '
        'assignment of network.set_egress_amplifier) is trusted to read the source faithfully',
    ]
    return common.finish(ctx, {})
