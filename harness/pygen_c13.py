"""Fail-closed translator tie for C13: /repo source -> coq/theories/Gen/VerdictGen.v (regenerated on every run of ./check C13).

Proofs/VerdictGen.v proves every generated definition equal to the hand-written model (Model/Verdict.v); Props/C13.v restates
them as C13_source_*.  An edit of the source that changes the meaning of a translated expression changes the generated term
and breaks its lemma; an edit that changes anything matched literally, or leaves the supported subset, makes the translation
fail (reported as a broken tie).  Reuses unify / match_template / find / strip_doc / Unsupported of harness/pygen.py.

What is TRANSLATED (holes of the templates, or whole small functions) and into what:
  gnpy/topology/request.py
    compute_path_with_disjunction   the two fixed-mode tests  `round(snr01nm_with_penalty[min_ind], 2) < pathreq.OSNR + ...sys_margins`
                                    (A->Z and Z->A) and their blocking reasons             -> g_fixed_blocked_fwd / _rev, g_fixed_reason_*
    propagate_and_optimize_mode     the (baud, offset) pair, the min_spacing filter, the filter of modes_to_explore, the sort
                                    key, the acceptance test `round(min(...), 2) > this_mode['OSNR'] + ...sys_margins`, the three
                                    blocking reasons                                      -> g_pair, g_fits, g_mode_filter, g_mode_key,
                                                                                             g_accept, g_reason_*
    BLOCKING_NOPATH / BLOCKING_NOMODE (module constants)                                   -> g_blocking_nopath / g_blocking_nomode
  gnpy/core/elements.py
    Transceiver._calc_penalty       numpy.interp(value, up_to_boundary, penalty_value, left=.., right=..) -> g_calc_penalty
    Transceiver.update_snr          the increment of the accumulation loop and the four snr_sum(...) assignments -> g_contribution, g_update1
    Roadm.set_roadm_paths           the roadm-osnr of an add / drop stage of the default model `add_drop_osnr + lin2db(2)`  -> g_add_drop_stage
  gnpy/core/utils.py
    snr_sum                         both statements, symbolically in 1/linear units            -> g_snr_sum
  gnpy/tools/json_io.py
    Transceiver.__init__            the test that decides the insertion of the (0, 0) point      -> g_needs_zero (g_normalise around it)
What is MATCHED LITERALLY against a template (every statement must be the expected one; not translated):
    the whole body of propagate_and_optimize_mode around the holes (set/sorted(reverse=True) of the pairs, restore of the
    designed gains, propagation, update_snr / calc_penalties / `del roadm_osnr[-1]` order, bookkeeping of last_explored_mode,
    the three exits), the whole body of propagate(), the fixed-mode blocks of compute_path_with_disjunction (snr01nm_with_penalty,
    argmin, `if not hasattr(pathreq, 'blocking_reason')`), the bookkeeping of the selected mode (both branches, roll-off
    included), update_snr's loop and `-lin2db`, Transceiver.calc_penalties, the head of Roadm.set_roadm_paths (`if path_type in
    ['add', 'drop']`), the penalty normalisation block of json_io.Transceiver.__init__.
dB arithmetic: a dB value e stands for its 1/linear I(e) (what the model stores):  I(-lin2db(x)) = L(x),  I(a - lin2db(r)) = I(a) * L(r),
I(a + lin2db(r)) = I(a) / L(r),  L(db2lin(-e)) = I(e),  L(a + b) = L(a) + L(b),  L(k) = k,  L(a / b) = a / b on plain numbers.  Anything else raises Unsupported.
"""
import ast
import os

from . import common
from .pygen import Unsupported, unify, match_template, find, strip_doc, dotted


def src(n):
    return ast.unparse(n)


class TrQ:
    """expressions over Q / met / bool; leaves are looked up by their source text"""

    def __init__(self, leaves, cmp_kind='q'):
        self.leaves = leaves
        self.cmp_kind = cmp_kind            # 'q': both sides Q;  'met_q': left a met, right a Q;  'q_met' the converse

    def q(self, n):
        t = src(n)
        if t in self.leaves:
            return self.leaves[t] if ' ' not in self.leaves[t] else '(' + self.leaves[t] + ')'
        if isinstance(n, ast.Constant) and isinstance(n.value, (int, float)) and not isinstance(n.value, bool):
            v = n.value
            if v != int(v):
                raise Unsupported(f'non-integer constant {v}')
            return f'({int(v)})' if v < 0 else str(int(v))
        if isinstance(n, ast.Call) and isinstance(n.func, ast.Name) and n.func.id == 'float' and len(n.args) == 1 \
                and not n.keywords:
            return self.q(n.args[0])
        if isinstance(n, ast.BinOp) and isinstance(n.op, (ast.Add, ast.Sub, ast.Mult, ast.Div)):
            op = {ast.Add: '+', ast.Sub: '-', ast.Mult: '*', ast.Div: '/'}[type(n.op)]
            return f'({self.q(n.left)} {op} {self.q(n.right)})'
        if isinstance(n, ast.Tuple):
            return '(' + ', '.join(self.q(x) for x in n.elts) + ')'
        raise Unsupported(f'expression {t}')

    def met(self, n):
        """round(<worst channel>, 2) -> met_round2 worst"""
        if isinstance(n, ast.Call) and isinstance(n.func, ast.Name) and n.func.id == 'round' and len(n.args) == 2 \
                and not n.keywords and isinstance(n.args[1], ast.Constant) and n.args[1].value == 2:
            t = src(n.args[0])
            if t in self.leaves and self.leaves[t] == 'worst':
                return '(met_round2 worst)'
        raise Unsupported(f'metric expression {src(n)}')

    def b(self, n):
        if isinstance(n, ast.BoolOp):
            op = '&&' if isinstance(n.op, ast.And) else '||'
            return '(' + f' {op} '.join(self.b(v) for v in n.values) + ')'
        if isinstance(n, ast.Compare) and len(n.ops) == 1:
            l, r, op = n.left, n.comparators[0], n.ops[0]
            if self.cmp_kind == 'met_q':
                a, c = self.met(l), f'(MFin {self.q(r)})'
                if isinstance(op, ast.Lt):
                    return f'(met_lt {a} {c})'
                if isinstance(op, ast.Gt):
                    return f'(met_lt {c} {a})'
                if isinstance(op, ast.LtE):
                    return f'(negb (met_lt {c} {a}))'
                if isinstance(op, ast.GtE):
                    return f'(negb (met_lt {a} {c}))'
                raise Unsupported(f'comparison {type(op).__name__} of the metric')
            a, c = self.q(l), self.q(r)
            if isinstance(op, ast.LtE):
                return f'(Qle_bool {a} {c})'
            if isinstance(op, ast.GtE):
                return f'(Qle_bool {c} {a})'
            if isinstance(op, ast.Lt):
                return f'(Qlt_bool {a} {c})'
            if isinstance(op, ast.Gt):
                return f'(Qlt_bool {c} {a})'
            if isinstance(op, ast.Eq):
                return f'(Qeq_bool {a} {c})'
            raise Unsupported(f'comparison {type(op).__name__}')
        raise Unsupported(f'condition {src(n)}')


def string_const(n, what):
    if isinstance(n, ast.Constant) and isinstance(n.value, str) and '"' not in n.value:
        return f'"{n.value}"%string'
    raise Unsupported(f'{what}: not a string constant ({src(n)})')


# ------------------------------------------------------------------ templates
FWD_TEMPLATE = """
propagate(total_path, pathreq, equipment)
snr01nm_with_penalty = total_path[-1].snr_01nm - total_path[-1].total_penalty
min_ind = argmin(snr01nm_with_penalty)
if H_cond:
    H_m1
    H_m2
    H_m3
    pathreq.blocking_reason = H_reason
"""

AUTO_TEMPLATE = """
total_path, mode = propagate_and_optimize_mode(total_path, pathreq, equipment)
try:
    if pathreq.blocking_reason in BLOCKING_NOPATH:
        total_path = []
    elif pathreq.blocking_reason in BLOCKING_NOMODE:
        pathreq.baud_rate = mode['baud_rate']
        pathreq.tsp_mode = mode['format']
        pathreq.format = mode['format']
        pathreq.OSNR = mode['OSNR']
        pathreq.tx_osnr = mode['tx_osnr']
        pathreq.bit_rate = mode['bit_rate']
        pathreq.penalties = mode['penalties']
        pathreq.offset_db = mode['equalization_offset_db']
        if pathreq.roll_off is None:
            pathreq.roll_off = equipment['SI']['default'].roll_off
except AttributeError:
    pathreq.baud_rate = mode['baud_rate']
    pathreq.tsp_mode = mode['format']
    pathreq.format = mode['format']
    pathreq.OSNR = mode['OSNR']
    pathreq.tx_osnr = mode['tx_osnr']
    pathreq.bit_rate = mode['bit_rate']
    pathreq.penalties = mode['penalties']
    pathreq.offset_db = mode['equalization_offset_db']
    if pathreq.roll_off is None:
        pathreq.roll_off = equipment['SI']['default'].roll_off
"""

REV_TEMPLATE = """
rev_p = deepcopy(reversed_path)
H_m1
H_m2
propagate(rev_p, pathreq, equipment)
propagated_reversed_path = rev_p
snr01nm_with_penalty = rev_p[-1].snr_01nm - rev_p[-1].total_penalty
min_ind = argmin(snr01nm_with_penalty)
if H_cond:
    H_a
    H_b
    H_c
    if not hasattr(pathreq, 'blocking_reason'):
        pathreq.blocking_reason = H_reason
"""

POM_TEMPLATE = """
baudrate_offset_to_explore = list(set([H_pair for this_mode in equipment['Transceiver'][req.tsp].mode if H_fits]))
baudrate_offset_to_explore = sorted(baudrate_offset_to_explore, reverse=True)
if baudrate_offset_to_explore:
    amps = H_amps
    designed_gains = [amp.effective_gain for amp in amps]
    for (this_br, this_offset) in baudrate_offset_to_explore:
        for amp, gain in zip(amps, designed_gains):
            amp.effective_gain = gain
        modes_to_explore = [this_mode for this_mode in equipment['Transceiver'][req.tsp].mode if H_filter]
        modes_to_explore = sorted(modes_to_explore, key=lambda x: H_key, reverse=True)
        if req.initial_spectrum is not None:
            H_s1
            H_s2
        spc_info = create_input_spectral_information(f_min=req.f_min, f_max=req.f_max,
                                                     roll_off=equipment['SI']['default'].roll_off,
                                                     baud_rate=this_br, spacing=req.spacing,
                                                     delta_pdb=this_offset, tx_osnr=req.tx_osnr,
                                                     tx_power=req.tx_power)
        spc_info = filter_si(path, equipment, spc_info)
        roadm_osnr = []
        for i, el in enumerate(path):
            if isinstance(el, Roadm):
                spc_info = el(spc_info, degree=path[i + 1].uid, from_degree=path[i - 1].uid)
                roadm_osnr.append(el.get_impairment('roadm-osnr', spc_info.frequency,
                                                    from_degree=path[i - 1].uid, degree=path[i + 1].uid))
            else:
                spc_info = el(spc_info)
        for this_mode in modes_to_explore:
            if path[-1].snr is not None:
                path[0].update_snr(this_mode['tx_osnr'])
                path[0].calc_penalties(this_mode['penalties'])
                roadm_osnr.append(this_mode['tx_osnr'])
                path[-1].update_snr(*roadm_osnr)
                del roadm_osnr[-1]
                path[-1].calc_penalties(this_mode['penalties'])
                if H_accept:
                    return path, this_mode
                else:
                    last_explored_mode = this_mode
            else:
                req.blocking_reason = H_r_nosnr
                return path, None
    snr01nm_with_penalty = path[-1].snr_01nm - path[-1].total_penalty
    min_ind = argmin(snr01nm_with_penalty)
    H_m1
    H_m2
    H_m3
    req.blocking_reason = H_r_nomode
    return path, last_explored_mode
else:
    H_w1
    H_w2
    req.blocking_reason = H_r_nobaud
    return [], None
"""

PROPAGATE_TEMPLATE = """
if req.initial_spectrum is not None:
    si = carriers_to_spectral_information(initial_spectrum=req.initial_spectrum, power=req.power)
else:
    si = create_input_spectral_information(f_min=req.f_min, f_max=req.f_max, roll_off=req.roll_off,
                                           baud_rate=req.baud_rate, spacing=req.spacing, tx_osnr=req.tx_osnr,
                                           tx_power=req.tx_power, delta_pdb=req.offset_db)
si = filter_si(path, equipment, si)
roadm_osnr = []
for i, el in enumerate(path):
    if isinstance(el, Roadm):
        si = el(si, degree=path[i + 1].uid, from_degree=path[i - 1].uid)
        roadm_osnr.append(el.get_impairment('roadm-osnr', si.frequency,
                                            from_degree=path[i - 1].uid, degree=path[i + 1].uid))
    else:
        si = el(si)
path[0].update_snr(si.tx_osnr)
path[0].calc_penalties(req.penalties)
roadm_osnr.append(si.tx_osnr)
path[-1].update_snr(*roadm_osnr)
path[-1].calc_penalties(req.penalties)
return si
"""

UPDATE_TEMPLATE = """
snr_added = 0
for s in args:
    if s is not None:
        snr_added += H_inc
snr_added = -lin2db(snr_added)
self.osnr_ase = H_a1
self.snr = H_a2
self.osnr_ase_01nm = H_a3
self.snr_01nm = H_a4
"""

CALC_PENALTIES_TEMPLATE = """
self.penalties = {impairment: self._calc_penalty(getattr(self, impairment), boundary_list)
                  for impairment, boundary_list in penalties.items()}
self.total_penalty = sum(list(self.penalties.values()), axis=0)
"""

ROADM_PATHS_TEMPLATE = """
roadm_global_impairment = {'impairment': [{'roadm-pmd': self.params.pmd, 'roadm-pdl': self.params.pdl,
                                           'frequency-range': {'lower-frequency': None, 'upper-frequency': None}}]}
if path_type in ['add', 'drop']:
    roadm_global_impairment['impairment'][0]['roadm-osnr'] = H_value
impairment = RoadmImpairment(roadm_global_impairment)
"""

PENALTY_INIT_TEMPLATE = """
for impairment in ('chromatic_dispersion', 'pmd', 'pdl'):
    imp_penalties = [p for p in penalties if impairment in p]
    if not imp_penalties:
        continue
    if all((H_positive for p in imp_penalties)):
        imp_penalties.insert(0, {impairment: 0, 'penalty_value': 0})
    imp_penalties.sort(key=lambda i: i[impairment])
    mode_params['penalties'][impairment] = {'up_to_boundary': [p[impairment] for p in imp_penalties],
                                            'penalty_value': [p['penalty_value'] for p in imp_penalties]}
"""

MODE_LEAVES = {"this_mode['baud_rate']": 'm_baud m', "this_mode['equalization_offset_db']": 'm_off m',
               "this_mode['min_spacing']": 'm_minsp m', "this_mode['OSNR']": 'm_osnr m',
               "this_mode['bit_rate']": 'm_bitrate m', 'req.spacing': 'sp', 'this_br': 'fst it', 'this_offset': 'snd it',
               "equipment['SI']['default'].sys_margins": 'margin'}


# ------------------------------------------------------------------ dB -> 1/linear symbolic translation
class TrDb:
    def __init__(self, inv_vars, lin_vars, num_vars):
        self.inv_vars, self.lin_vars, self.num_vars = inv_vars, lin_vars, num_vars

    def call(self, n, name, nargs=1):
        return isinstance(n, ast.Call) and isinstance(n.func, ast.Name) and n.func.id == name and len(n.args) == nargs \
            and not n.keywords

    def inv(self, n):
        """1/linear of a dB-valued expression"""
        t = src(n)
        if t in self.inv_vars:
            return self.inv_vars[t]
        if isinstance(n, ast.UnaryOp) and isinstance(n.op, ast.USub) and self.call(n.operand, 'lin2db'):
            return self.lin(n.operand.args[0])
        if isinstance(n, ast.BinOp) and isinstance(n.op, ast.Sub) and self.call(n.right, 'lin2db'):
            return f'({self.inv(n.left)} * {self.lin(n.right.args[0])})'
        if isinstance(n, ast.BinOp) and isinstance(n.op, ast.Add) and self.call(n.right, 'lin2db'):
            return f'({self.inv(n.left)} / {self.lin(n.right.args[0])})'
        raise Unsupported(f'dB expression {t}')

    def lin(self, n):
        """a linear (power-ratio) expression"""
        t = src(n)
        if t in self.lin_vars:
            return self.lin_vars[t]
        if isinstance(n, ast.Constant) and isinstance(n.value, int) and not isinstance(n.value, bool) and n.value > 0:
            return str(n.value)
        if self.call(n, 'db2lin') and isinstance(n.args[0], ast.UnaryOp) and isinstance(n.args[0].op, ast.USub):
            return self.inv(n.args[0].operand)
        if isinstance(n, ast.BinOp) and isinstance(n.op, ast.Add):
            return f'({self.lin(n.left)} + {self.lin(n.right)})'
        if isinstance(n, ast.BinOp) and isinstance(n.op, ast.Div) and src(n.left) in self.num_vars \
                and src(n.right) in self.num_vars:
            return f'({self.num_vars[src(n.left)]} / {self.num_vars[src(n.right)]})'
        raise Unsupported(f'linear expression {t}')


# ------------------------------------------------------------------ generation
def stmts_of(fn):
    return strip_doc(fn.body)


def gen_request(tree, out):
    fn = find(tree, 'compute_path_with_disjunction')
    loops = [s for s in fn.body if isinstance(s, ast.For) and src(s.iter) == 'enumerate(pathreqlist)']
    if len(loops) != 1:
        raise Unsupported('compute_path_with_disjunction: loop over the requests not found')
    guards = [s for s in loops[0].body if isinstance(s, ast.If) and src(s.test) == 'total_path']
    if len(guards) != 1:
        raise Unsupported('compute_path_with_disjunction: `if total_path:` not found')
    body = guards[0].body
    fixed = [s for s in body if isinstance(s, ast.If) and src(s.test) == 'pathreq.baud_rate is not None']
    rev = [s for s in body if isinstance(s, ast.If) and src(s.test) == 'pathreq.bidir and pathreq.baud_rate is not None']
    if len(fixed) != 1 or len(rev) != 1 or body.index(fixed[0]) > body.index(rev[0]):
        raise Unsupported('compute_path_with_disjunction: fixed-mode / reverse-direction blocks not found')
    others = [s for s in body if s is not fixed[0] and s is not rev[0]]
    if [src(s) for s in others] != ['reversed_path = find_reversed_path(pathlist[i])']:
        raise Unsupported('compute_path_with_disjunction: unexpected statements between the two verdicts')
    if [src(s) for s in rev[0].orelse] != ['propagated_reversed_path = []']:
        raise Unsupported('compute_path_with_disjunction: else-branch of the reverse-direction block')
    leaves = {'snr01nm_with_penalty[min_ind]': 'worst', 'pathreq.OSNR': 'osnr',
              "equipment['SI']['default'].sys_margins": 'margin'}
    tr = TrQ(leaves, 'met_q')
    bf = match_template(FWD_TEMPLATE, fixed[0].body, 'fixed-mode verdict (A->Z)')
    match_template(AUTO_TEMPLATE, fixed[0].orelse, 'bookkeeping of the automatically selected mode')
    br = match_template(REV_TEMPLATE, rev[0].body, 'fixed-mode verdict (Z->A)')
    out.append('(* gnpy/topology/request.py: compute_path_with_disjunction, verdict of a request whose mode is known *)')
    out.append(f"Definition g_fixed_blocked_fwd (osnr margin : Q) (worst : met) : bool :=\n  {tr.b(bf['H_cond'])}.")
    out.append(f"Definition g_fixed_reason_fwd : string := {string_const(bf['H_reason'], 'blocking reason')}.")
    out.append(f"Definition g_fixed_blocked_rev (osnr margin : Q) (worst : met) : bool :=\n  {tr.b(br['H_cond'])}.")
    out.append(f"Definition g_fixed_reason_rev : string := {string_const(br['H_reason'], 'blocking reason')}.")
    out.append('(* forward direction first; the reverse one only sets a reason when none is set (`if not hasattr(...)`) *)')
    out.append("""Definition g_decide_fixed (osnr margin : Q) (fwd : met) (rev : option met) : option string :=
  if g_fixed_blocked_fwd osnr margin fwd then Some g_fixed_reason_fwd else
  match rev with
  | Some r => if g_fixed_blocked_rev osnr margin r then Some g_fixed_reason_rev else None
  | None => None
  end.
""")
    # module constants
    for name in ('BLOCKING_NOPATH', 'BLOCKING_NOMODE'):
        asg = [s for s in tree.body if isinstance(s, ast.Assign) and src(s.targets[0]) == name]
        if len(asg) != 1 or not isinstance(asg[0].value, ast.List):
            raise Unsupported(f'{name} is not a list constant')
        items = '; '.join(string_const(x, name) for x in asg[0].value.elts)
        out.append(f'Definition g_{name.lower()} : list string := [{items}].')
    out.append('')
    # propagate(): literal
    match_template(PROPAGATE_TEMPLATE, stmts_of(find(tree, 'propagate')), 'propagate')
    # propagate_and_optimize_mode
    b = match_template(POM_TEMPLATE, stmts_of(find(tree, 'propagate_and_optimize_mode')), 'propagate_and_optimize_mode')
    tq = TrQ(MODE_LEAVES, 'q')
    out.append('(* gnpy/topology/request.py: propagate_and_optimize_mode *)')
    out.append(f"Definition g_pair (m : mode) : iter := {tq.q(b['H_pair'])}.")
    out.append(f"Definition g_fits (sp : Q) (m : mode) : bool := {tq.b(b['H_fits'])}.")
    out.append(f"Definition g_mode_filter (sp : Q) (it : iter) (m : mode) : bool :=\n  {tq.b(b['H_filter'])}.")
    key_leaves = {"x['bit_rate']": 'm_bitrate m', "x['equalization_offset_db']": 'm_off m', "x['baud_rate']": 'm_baud m',
                  "x['OSNR']": 'm_osnr m', "x['min_spacing']": 'm_minsp m'}
    out.append(f"Definition g_mode_key (m : mode) : Q * Q := {TrQ(key_leaves).q(b['H_key'])}.")
    acc = TrQ(dict(MODE_LEAVES, **{'min(path[-1].snr_01nm - path[-1].total_penalty)': 'worst'}), 'met_q')
    out.append(f"Definition g_accept (margin : Q) (m : mode) (worst : met) : bool :=\n  {acc.b(b['H_accept'])}.")
    for k, nm in (('H_r_nosnr', 'g_reason_nosnr'), ('H_r_nomode', 'g_reason_nomode'), ('H_r_nobaud', 'g_reason_nobaud')):
        out.append(f"Definition {nm} : string := {string_const(b[k], 'blocking reason')}.")
    out.append('(* set(...) + sorted(reverse=True) of the pairs, the filtered + sorted(key, reverse=True) modes: as the template has them *)')
    out.append("""Definition g_iters (lib : list mode) (sp : Q) : list iter :=
  sort_iters (dedup (map g_pair (filter (g_fits sp) lib))).
Definition g_key_gtb (a b : mode) : bool := iter_gtb (g_mode_key a) (g_mode_key b).
Fixpoint g_ins_mode (x : mode) (l : list mode) : list mode :=
  match l with [] => [x] | y :: t => if g_key_gtb y x then y :: g_ins_mode x t else x :: l end.
Definition g_modes_of (lib : list mode) (sp : Q) (it : iter) : list mode :=
  fold_right g_ins_mode [] (filter (g_mode_filter sp it) lib).
""")


def gen_elements(tree, utils_tree, out):
    fn = find(tree, 'Transceiver._calc_penalty')
    body = stmts_of(fn)
    if len(body) != 1 or not isinstance(body[0], ast.Return) or not isinstance(body[0].value, ast.Call) \
            or src(body[0].value.func) != 'interp':
        raise Unsupported('_calc_penalty is not a single `return interp(...)`')
    call = body[0].value
    if [src(a) for a in call.args] != ['impairment_value', "boundary_list['up_to_boundary']", "boundary_list['penalty_value']"]:
        raise Unsupported('_calc_penalty: positional arguments of interp')
    kw = {}
    for k in call.keywords:
        if k.arg not in ('left', 'right'):
            raise Unsupported(f'_calc_penalty: keyword {k.arg}')
        if src(k.value) in ("float('inf')", 'inf'):
            kw[k.arg] = '(Some PInf)'
        elif isinstance(k.value, ast.Constant) and isinstance(k.value.value, (int, float)) and k.value.value == int(k.value.value):
            kw[k.arg] = f'(Some (PFin {int(k.value.value)}))'
        else:
            raise Unsupported(f'_calc_penalty: value of {k.arg}')
    out.append('(* gnpy/core/elements.py: Transceiver._calc_penalty (an absent left / right keyword is numpy\'s default: None) *)')
    out.append(f"Definition g_calc_penalty (x : Q) (tab : table) : pen :=\n  interp_gen {kw.get('left', 'None')} {kw.get('right', 'None')} x tab.\n")
    # calc_penalties: literal (the receiver's penalties are REPLACED by those of the tables given, then summed)
    match_template(CALC_PENALTIES_TEMPLATE, stmts_of(find(tree, 'Transceiver.calc_penalties')), 'Transceiver.calc_penalties')
    # Roadm.set_roadm_paths: what an add / drop stage is worth without a detailed profile
    head = stmts_of(find(tree, 'Roadm.set_roadm_paths'))[:3]
    rb = match_template(ROADM_PATHS_TEMPLATE, head, 'Roadm.set_roadm_paths (default add/drop OSNR)')
    stage = TrDb({'self.params.add_drop_osnr': 'add_drop'}, {}, {}).inv(rb['H_value'])
    out.append('(* gnpy/core/elements.py: Roadm.set_roadm_paths, noise (1/linear) of ONE add or drop stage of the default model *)')
    out.append(f"Definition g_add_drop_stage (add_drop : Q) : Q := {stage}.\n")
    # snr_sum
    fn = find(utils_tree, 'snr_sum')
    if [a.arg for a in fn.args.args] != ['snr', 'bw', 'snr_added', 'bw_added']:
        raise Unsupported('snr_sum: parameters')
    if len(fn.args.defaults) != 1 or src(fn.args.defaults[0]) != '12500000000.0':
        raise Unsupported('snr_sum: default of bw_added')
    body = stmts_of(fn)
    if len(body) != 3 or not all(isinstance(s, ast.Assign) for s in body[:2]) or src(body[2]) != 'return snr' \
            or src(body[0].targets[0]) != 'snr_added' or src(body[1].targets[0]) != 'snr':
        raise Unsupported('snr_sum: statements')
    d1 = TrDb({'snr': 'snr', 'snr_added': 'snr_added'}, {}, {'bw': 'bw', 'bw_added': 'bw_added'})
    e1 = d1.inv(body[0].value)
    d2 = TrDb({'snr': 'snr', 'snr_added': 'snr_added1'}, {}, {})
    e2 = d2.inv(body[1].value)
    out.append('(* gnpy/core/utils.py: snr_sum, every dB value replaced by its 1/linear *)')
    out.append(f"Definition g_snr_sum (snr bw snr_added bw_added : Q) : Q :=\n  let snr_added1 := {e1} in\n  {e2}.\n")
    # update_snr
    fn = find(tree, 'Transceiver.update_snr')
    if fn.args.vararg is None or fn.args.vararg.arg != 'args' or [a.arg for a in fn.args.args] != ['self']:
        raise Unsupported('update_snr: parameters')
    b = match_template(UPDATE_TEMPLATE, stmts_of(fn), 'Transceiver.update_snr')
    inc = TrDb({'s': 's'}, {}, {}).lin(b['H_inc'])
    attrs = {'self.raw_osnr_ase': 'raw_osnr_bw c', 'self.raw_snr': 'raw_snr_bw c', 'self.raw_osnr_ase_01nm': 'raw_osnr_01 c',
             'self.raw_snr_01nm': 'raw_snr_01 c', 'self.osnr_ase': 'osnr_bw c', 'self.snr': 'snr_bw c',
             'self.osnr_ase_01nm': 'osnr_01 c', 'self.snr_01nm': 'snr_01 c', 'self.baud_rate': 'baud c',
             '12500000000.0': 'ref_bw', 'snr_added': 'added'}

    def ssum(n):
        if not (isinstance(n, ast.Call) and src(n.func) == 'snr_sum' and len(n.args) in (3, 4) and not n.keywords):
            raise Unsupported(f'update_snr: {src(n)} is not a call of snr_sum')
        args = []
        for a in n.args:
            if src(a) not in attrs:
                raise Unsupported(f'update_snr: argument {src(a)}')
            args.append('(' + attrs[src(a)] + ')')
        if len(args) == 3:
            args.append('ref_bw')                                  # default of bw_added (checked above)
        return 'g_snr_sum ' + ' '.join(args)
    out.append('(* gnpy/core/elements.py: Transceiver.update_snr *)')
    out.append(f"Definition g_contribution (s : Q) : Q := {inc}.")
    out.append(f"""Definition g_update1 (added : Q) (c : rxch) : rxch :=
  mkRx (baud c) (raw_osnr_bw c) (raw_snr_bw c) (raw_osnr_01 c) (raw_snr_01 c)
       ({ssum(b['H_a1'])})
       ({ssum(b['H_a2'])})
       ({ssum(b['H_a3'])})
       ({ssum(b['H_a4'])}).
""")


def gen_json_io(tree, out):
    fn = find(tree, 'Transceiver.__init__')
    loop = [s for s in fn.body if isinstance(s, ast.For) and src(s.iter) == 'self.mode']
    if len(loop) != 1:
        raise Unsupported('json_io.Transceiver.__init__: loop over the modes')
    head = [src(s) for s in loop[0].body[:3]]
    if head != ["penalties = mode_params.get('penalties')", "mode_params['penalties'] = {}",
                "mode_params['equalization_offset_db'] = mode_params.get('equalization_offset_db', 0)"]:
        raise Unsupported('json_io.Transceiver.__init__: head of the mode loop')
    blk = loop[0].body[3]
    if not (isinstance(blk, ast.If) and src(blk.test) == 'penalties' and not blk.orelse):
        raise Unsupported('json_io.Transceiver.__init__: `if penalties:`')
    b = match_template(PENALTY_INIT_TEMPLATE, blk.body, 'penalty normalisation')
    pos = TrQ({'p[impairment]': 'fst p'}).b(b['H_positive'])
    out.append('(* gnpy/tools/json_io.py: Transceiver.__init__, normalisation of one penalty table *)')
    out.append(f"Definition g_needs_zero (raw : table) : bool := forallb (fun p : Q * Q => {pos}) raw.")
    out.append("Definition g_normalise (raw : table) : table := sort_tab (if g_needs_zero raw then (0, 0) :: raw else raw).\n")


def generate(repo=None):
    repo = repo or common.REPO

    def tree(p):
        return ast.parse(open(os.path.join(repo, p)).read())
    out = ['(* GENERATED on every run by harness/pygen_c13.py from gnpy/topology/request.py, gnpy/core/elements.py,',
           '   gnpy/core/utils.py and gnpy/tools/json_io.py of /repo - do not edit. *)',
           'From Coq Require Import QArith.', 'From Verif Require Import Prelude Model.Verdict.', 'Open Scope Q_scope.', '']
    gen_request(tree('gnpy/topology/request.py'), out)
    gen_elements(tree('gnpy/core/elements.py'), tree('gnpy/core/utils.py'), out)
    gen_json_io(tree('gnpy/tools/json_io.py'), out)
    return '\n'.join(out)


def regenerate():
    """(Re)write coq/theories/Gen/VerdictGen.v when its content changed. Returns (ok, message)."""
    dst = os.path.join(common.COQ, 'theories', 'Gen', 'VerdictGen.v')
    try:
        txt = generate()
    except (Unsupported, SyntaxError, OSError) as e:
        return False, f'translation failed: {type(e).__name__}: {e}'
    os.makedirs(os.path.dirname(dst), exist_ok=True)
    if not os.path.exists(dst) or open(dst).read() != txt:
        with open(dst, 'w') as f:
            f.write(txt)
    return True, 'ok'


if __name__ == '__main__':
    print(generate())
