"""Translator tie for C11 / C12 (second tie between /repo's source and Model/Route.v, Model/Disjoint.v).

The path search itself is networkx and stays driven by the correspondence runs; what is tied here is the *decision code*
of gnpy around it.  On every run the fragments below are re-read from common.REPO, the bookkeeping around them is
matched against templates (harness.pygen.unify: every statement must be the expected one, holes H_x), the tests /
constants / branches in the holes are translated into terms of the hand-written models and written to
coq/theories/Gen/RouteGen.v and Gen/DisjointGen.v; Proofs/RouteGen.v and Proofs/DisjointGen.v prove each generated
definition equal to the model.  Anything outside the subset raises Unsupported (fail closed: broken tie).

gnpy/topology/request.py
  compute_constrained_path  whole body template-matched.  Translated: the malformed-list guard (`req.nodes_list[-1] !=
                            req.destination`), the list handed to explicit_path / ispart (`req.nodes_list[:-1]`), the
                            filter of the search (`ispart(nodes_list, path)`), the fall-back test (`'STRICT' not in
                            req.loose_list[:-1]`), the two blocking reasons                       -> g_ccp
  ispart                    whole body template-matched; translated: the order test (`pthb.index(elem) >= j`), the new
                            value of j, the three returned constants                                -> g_ispart_from
  explicit_path             the last four statements template-matched; translated: the rejection test -> g_explicit_reject
  find_reversed_path        whole body template-matched; translated: the filter of the OMS collection
                            (`not isinstance(el, Transceiver) and not isinstance(el, Roadm)`)       -> g_rev_keeps
  isdisjoint                whole body template-matched; translated: the two lists, the two constants -> g_isdisjoint
  compute_path_dsjctn       fragments located by template (each must occur exactly once):
                            the all_simple_paths call (cutoff constant)                             -> g_cutoff
                            step 2's conflict count and acceptance test                             -> g_step2_conflicts, g_step2_accept
                            step 4's loop over a solution (include test, strictness test)           -> g_step4_ok, g_step4_strict
                            step 5's loop (`if candidates[..]: ... else: msg = ..; raise DisjunctionError(msg)`) -> g_step5
  compare_reqs              whole body template-matched; translated: the two group tests, the shape test (`temp1 ==
                            temp2`), the list of compared attributes                                -> g_same_disj, g_compared_attrs
  correct_json_route_list   the two blocks stripping the own source / destination (the four pop positions -> g_clean_pops) and the
                            pop of an unusable LOOSE hop (matched literally)
  compare_reqs (also in RouteGen)  the compared attributes -> g_twin_attrs
gnpy/topology/topology_parameters.py
  BaseParams.update_attr    matched literally with the template of harness/pygen_c16.py (defaults copied per instance)
gnpy/tools/json_io.py
  requests_from_json        matched literally: route objects sorted by x['index'], lists read in that order
  network_from_json         the connection loop template-matched; translated: the test deciding that an edge carries a
                            length, the length expression, the placeholder weight                    -> g_edge_weight
"""
import ast
import os

from . import common
from .pygen import Tr, Unsupported, dotted, find, strip_doc, unify, match_template


# ------------------------------------------------------------------ expression translator
class RTr(Tr):
    """expressions of the routing code -> terms of Model/Route.v, Model/Disjoint.v.
    names: source variable (or dotted attribute) -> Gallina term"""

    def __init__(self, names, kinds=None):
        super().__init__(set(), {}, attr={}, names=names, monadic={})
        self.kinds = kinds or {}

    def name(self, n):
        d = dotted(n)
        if d in self.names:
            return self.names[d]
        raise Unsupported(f'name {d}')

    def e(self, n):
        if isinstance(n, (ast.Name, ast.Attribute)):
            return self.name(n)
        if isinstance(n, ast.Constant):
            if isinstance(n.value, str):
                return self.num(n.value)
            if isinstance(n.value, bool):
                return 'true' if n.value else 'false'
            if isinstance(n.value, int):
                return self.num(n.value)
            raise Unsupported(f'constant {n.value!r}')
        if isinstance(n, ast.Subscript):
            base = self.e(n.value)
            s = n.slice
            if isinstance(s, ast.UnaryOp) and isinstance(s.op, ast.USub) and isinstance(s.operand, ast.Constant) \
                    and s.operand.value == 1:
                return f'(LAST {base})'                        # x[-1]: only meaningful inside a comparison (see b)
            if isinstance(s, ast.Slice) and s.lower is None and s.step is None and isinstance(s.upper, ast.UnaryOp) \
                    and isinstance(s.upper.op, ast.USub) and isinstance(s.upper.operand, ast.Constant) \
                    and s.upper.operand.value == 1:
                return f'(removelast {base})'                  # x[:-1]
            raise Unsupported('subscript other than [-1] / [:-1]')
        if isinstance(n, ast.ListComp):
            # [e.uid for e in X]: the uids of X, i.e. X itself in the integer model
            if len(n.generators) == 1 and not n.generators[0].ifs and isinstance(n.generators[0].target, ast.Name) \
                    and isinstance(n.elt, ast.Attribute) and n.elt.attr == 'uid' and isinstance(n.elt.value, ast.Name) \
                    and n.elt.value.id == n.generators[0].target.id:
                return self.e(n.generators[0].iter)
            raise Unsupported('list comprehension other than [e.uid for e in X]')
        if isinstance(n, ast.BinOp) and isinstance(n.op, ast.Add):
            return f'({self.e(n.left)} + {self.e(n.right)})'
        if isinstance(n, ast.BinOp) and isinstance(n.op, (ast.Sub, ast.Mult)):
            op = '-' if isinstance(n.op, ast.Sub) else '*'
            return f'({self.e(n.left)} {op} {self.e(n.right)})'
        if isinstance(n, ast.Call):
            f = dotted(n.func)
            if f == 'isdisjoint' and len(n.args) == 2 and not n.keywords:
                return f'(isdisjoint {self.e(n.args[0])} {self.e(n.args[1])})'
            if f == 'pthb.index' and len(n.args) == 1 and dotted(n.args[0]) == 'elem':
                return 'i'                                     # inside `if elem in pthb:` -> the index found
            raise Unsupported(f'call of {f}')
        raise Unsupported(ast.dump(n)[:160])

    def b(self, n):
        if isinstance(n, ast.BoolOp):
            op = '&&' if isinstance(n.op, ast.And) else '||'
            return '(' + f' {op} '.join(self.b(v) for v in n.values) + ')'
        if isinstance(n, ast.UnaryOp) and isinstance(n.op, ast.Not):
            return f'(negb {self.b(n.operand)})'
        if isinstance(n, ast.Name) and dotted(n) in self.names and self.names[dotted(n)].startswith('BOOL:'):
            return self.names[dotted(n)][5:]                   # truthiness of a list the model has as a boolean
        if isinstance(n, ast.Subscript):
            d = ast.unparse(n)
            if d in self.names and self.names[d].startswith('BOOL:'):
                return self.names[d][5:]
            raise Unsupported(f'truthiness of {d}')
        if isinstance(n, ast.Call):
            f = dotted(n.func)
            if f == 'ispart' and len(n.args) == 2 and not n.keywords:
                return f'(ispart {self.e(n.args[0])} {self.e(n.args[1])})'
            if f == 'isinstance' and len(n.args) == 2 and not n.keywords:
                cls = dotted(n.args[1]) if isinstance(n.args[1], (ast.Name, ast.Attribute)) else None
                if cls in self.kinds:
                    return self.kinds[cls].format(x=self.e(n.args[0]))
                raise Unsupported(f'isinstance(.., {ast.unparse(n.args[1])}): class outside the kinds of the model')
            if f == 'all' and len(n.args) == 1:
                # all(network.has_edge(a, b) for a, b in pairwise(path)) -> walkb
                t = ast.parse('all(network.has_edge(a, b) for a, b in pairwise(H_p))').body[0].value
                bd = {}
                if unify(t, n, bd):
                    return f'(walkb (ngraph n) {self.e(bd["H_p"])})'
            raise Unsupported(f'condition call {ast.unparse(n)[:80]}')
        if isinstance(n, ast.Compare) and len(n.ops) == 1:
            l, r, op = n.left, n.comparators[0], n.ops[0]
            if isinstance(op, (ast.In, ast.NotIn)) and isinstance(l, ast.Constant) and l.value == 'STRICT':
                t = f'(existsb (fun b : bool => b) {self.e(r)})'
                return t if isinstance(op, ast.In) else f'(negb {t})'
            le, re_ = self.e(l), self.e(r)
            if le.startswith('(LAST '):
                # x[-1] compared with y: `last x d = y` with a default d that differs from y (IndexError aside)
                inner = le[6:-1]
                if isinstance(op, (ast.NotEq, ast.IsNot)):
                    return f'(negb (last {inner} ({re_} + 1) =? {re_}))'
                if isinstance(op, (ast.Eq, ast.Is)):
                    return f'(last {inner} ({re_} + 1) =? {re_})'
                raise Unsupported('comparison of x[-1]')
            if isinstance(op, ast.GtE):
                return f'({re_} <=? {le})%nat' if self.nat else f'({re_} <=? {le})'
            if isinstance(op, ast.Gt):
                return f'({re_} <? {le})%nat' if self.nat else f'({re_} <? {le})'
            if isinstance(op, ast.LtE):
                return f'({le} <=? {re_})%nat' if self.nat else f'({le} <=? {re_})'
            if isinstance(op, ast.Lt):
                return f'({le} <? {re_})%nat' if self.nat else f'({le} <? {re_})'
            if isinstance(op, ast.Eq):
                if le in self.sets and re_ in self.sets:
                    return self.sets_eq.format(a=le, b=re_)
                return f'({le} =? {re_})'
            if isinstance(op, ast.NotEq):
                return f'(negb ({le} =? {re_}))'
            raise Unsupported(f'comparison {type(op).__name__}')
        raise Unsupported('condition ' + ast.unparse(n)[:120])

    nat = False
    sets = ()
    sets_eq = ''


def const_bool(n, what):
    if isinstance(n, ast.Constant) and isinstance(n.value, bool):
        return 'true' if n.value else 'false'
    raise Unsupported(f'{what}: expected True / False')


def const_int(n, what):
    if isinstance(n, ast.Constant) and isinstance(n.value, int) and not isinstance(n.value, bool):
        return str(n.value)
    raise Unsupported(f'{what}: expected an integer constant, found {ast.unparse(n)}')


def const_str(n, what):
    if isinstance(n, ast.Constant) and isinstance(n.value, str) and '"' not in n.value and '\\' not in n.value:
        return f'"{n.value}"'
    raise Unsupported(f'{what}: expected a string constant')


def find_block(fn, template_src, what):
    """the template (one or more statements) must match exactly one window of consecutive statements somewhere in fn"""
    tmpl = ast.parse(template_src).body
    hits = []
    for node in ast.walk(fn):
        for field in ('body', 'orelse', 'finalbody'):
            blk = getattr(node, field, None)
            if not isinstance(blk, list) or not blk or not isinstance(blk[0], ast.stmt):
                continue
            for k in range(len(blk) - len(tmpl) + 1):
                binds = {}
                if unify(tmpl, blk[k:k + len(tmpl)], binds):
                    hits.append(binds)
    if len(hits) != 1:
        raise Unsupported(f'{what}: expected exactly one occurrence of the fragment, found {len(hits)}')
    return hits[0]


# ------------------------------------------------------------------ templates
CCP_TEMPLATE = """
if H_guard:
    H_msg
    raise ValueError()
trx = [n for n in network if isinstance(n, Transceiver)]
source = next(el for el in trx if el.uid == req.source)
destination = next(el for el in trx if el.uid == req.destination)
nodes_list = []
for node in H_incl:
    nodes_list.append(next(el for el in network if el.uid == node))
total_path = explicit_path(nodes_list, source, destination, network)
if total_path is not None:
    return total_path
try:
    path_generator = shortest_simple_paths(network, source, destination, weight='weight')
    total_path = next(path for path in path_generator if H_filter)
except NetworkXNoPath:
    H_m1
    H_l1
    req.blocking_reason = H_reason_none
    total_path = []
except StopIteration:
    H_l2
    if H_fallback:
        H_m2
        H_l3
        total_path = dijkstra_path(network, source, destination, weight='weight')
    else:
        H_m3
        H_l4
        req.blocking_reason = H_reason_constraint
        total_path = []
return total_path
"""

ISPART_TEMPLATE = """
j = 0
for elem in ptha:
    if elem in pthb:
        if H_cmp:
            j = H_newj
        else:
            return H_r1
    else:
        return H_r2
return H_r3
"""

EXPLICIT_TAIL = """
path.append(destination)
path = unique_ordered(path)
if H_reject:
    return None
return path
"""

FRP_TEMPLATE = """
p_oms = list(OrderedDict.fromkeys(reversed([el.oms.reversed_oms for el in pth if H_keep])))
reversed_path = [pth[-1]]
for oms in p_oms:
    if oms is not None:
        reversed_path.extend(oms.el_list)
        reversed_path = list(OrderedDict.fromkeys(reversed_path))
    else:
        H_msg
        raise ValueError(msg)
reversed_path.append(pth[0])
return reversed_path
"""

ISDISJOINT_TEMPLATE = """
edge1 = list(pairwise(H_a))
edge2 = list(pairwise(H_b))
for edge in edge1:
    if edge in edge2:
        return H_hit
return H_miss
"""

STEP2_TEMPLATE = """
all_disjoint = 0
for pth in cndt:
    all_disjoint += H_count
if H_accept:
    temp2.append(pth1)
    temp.append(temp2)
"""

STEP4_TEMPLATE = """
for pth in sol:
    if allpaths[id(pth)].req.nodes_list:
        if H_not_part:
            testispartok = False
            if H_strict:
                H_log
                testispartnokloose = False
                break
"""

STEP5_TEMPLATE = """
for dis in disjunctions_list:
    if H_has:
        for pth in candidates[dis.disjunction_id][0]:
            H_take
    else:
        msg = H_text
        raise H_exc
"""

COMPARE_TEMPLATE = """
dis1 = [d for d in disjlist if req1.request_id in d.disjunctions_req]
dis2 = [d for d in disjlist if req2.request_id in d.disjunctions_req]
same_disj = False
if H_both:
    temp1 = sorted(sorted(set(this_d.disjunctions_req) - {req1.request_id}) for this_d in dis1)
    temp2 = sorted(sorted(set(this_d.disjunctions_req) - {req2.request_id}) for this_d in dis2)
    if H_shape:
        same_disj = True
elif H_neither:
    same_disj = True
if H_all:
    return True
else:
    return False
"""

JSON_TEMPLATE = """
for cx in json_data['connections']:
    from_node, to_node = cx['from_node'], cx['to_node']
    try:
        if H_carries:
            edge_length = H_length
        else:
            edge_length = H_placeholder
        g.add_edge(nodes[from_node], nodes[to_node], weight=edge_length)
    except KeyError as exc:
        H_msg
        raise NetworkTopologyError(msg) from exc
"""

CLEAN_ENDS = """
if pathreq.nodes_list and pathreq.source == pathreq.nodes_list[0]:
    pathreq.loose_list.pop(H_p1)
    pathreq.nodes_list.pop(H_p2)
if pathreq.nodes_list and pathreq.destination == pathreq.nodes_list[-1]:
    pathreq.loose_list.pop(H_p3)
    pathreq.nodes_list.pop(H_p4)
"""

CLEAN_LOOSE = """
pathreq.loose_list.pop(H_where)
pathreq.nodes_list.remove(n_id)
"""

ROUTE_OBJECTS = """
try:
    nd_list = sorted(req['explicit-route-objects']['route-object-include-exclude'], key=lambda x: x['index'])
except KeyError:
    nd_list = []
"""

KINDS = {'Transceiver': '(is_trx n {x})', 'Roadm': '(is_roadm n {x})'}


def shared_fragments(repo, tree, out):
    """fragments carried by both generated files: route-list clean-up, twin test, request defaults, JSON route objects"""
    fn = find(tree, 'correct_json_route_list')
    b = find_block(fn, CLEAN_ENDS, 'correct_json_route_list (own source first / destination last)')
    pops = [const_int_signed(b[h], 'correct_json_route_list') for h in ('H_p1', 'H_p2', 'H_p3', 'H_p4')]
    b = find_block(fn, CLEAN_LOOSE, 'correct_json_route_list (unusable LOOSE hop)')
    if ast.unparse(b['H_where']) != 'pathreq.nodes_list.index(n_id)':
        raise Unsupported('correct_json_route_list: the hop type popped with an unusable LOOSE hop is not the one at '
                          '`pathreq.nodes_list.index(n_id)`: ' + ast.unparse(b['H_where']))
    out.append('(* request.py: correct_json_route_list: positions popped from loose_list / nodes_list when the own source is')
    out.append('   listed first, the own destination last (Python indices); an unusable LOOSE hop pops the hop type found at')
    out.append('   nodes_list.index(n_id) (matched literally) *)')
    out.append('Definition g_clean_pops : list Z := [' + '; '.join(pops) + '].\n')
    # compare_reqs: what makes two requests twins
    attrs = compared_attrs(tree)
    out.append('(* request.py: compare_reqs, the attributes that must be equal (plain `req1.x == req2.x`) *)')
    out.append('Definition g_twin_attrs : list string :=\n  [' + '; '.join(f'"{a}"' for a in attrs) + ']%string.\n')
    # request defaults are copied per instance
    from .pygen_c16 import UPDATE_ATTR
    ptree = ast.parse(open(os.path.join(repo, 'gnpy/topology/topology_parameters.py')).read())
    match_template(UPDATE_ATTR, strip_doc(find(ptree, 'BaseParams.update_attr').body), 'BaseParams.update_attr')
    out.append('(* topology_parameters.py: BaseParams.update_attr matched literally: list and dict defaults are deep-copied per')
    out.append('   instance, so no PathRequest shares nodes_list / loose_list with another one (batches are independent) *)\n')
    # JSON route objects are ordered by their numeric index
    jtree = ast.parse(open(os.path.join(repo, 'gnpy/tools/json_io.py')).read())
    jfn = find(jtree, 'requests_from_json')
    find_block(jfn, ROUTE_OBJECTS, 'requests_from_json (route objects sorted by x[\'index\'])')
    src = ast.unparse(jfn)
    for piece in ("'nodes_list': [n['num-unnum-hop']['node-id'] for n in nd_list]",
                  "'loose_list': [n['num-unnum-hop']['hop-type'] for n in nd_list]"):
        if src.count(piece) != 1:
            raise Unsupported('requests_from_json: ' + piece + ' not found')
    out.append('(* json_io.py: requests_from_json matched literally: the route objects are sorted by x[\'index\'] (numeric), the')
    out.append('   include list and the hop types are read from them in that order *)\n')


def const_int_signed(n, what):
    if isinstance(n, ast.UnaryOp) and isinstance(n.op, ast.USub) and isinstance(n.operand, ast.Constant) \
            and isinstance(n.operand.value, int):
        return f'(-{n.operand.value})'
    return const_int(n, what)


def compared_attrs(tree):
    b = match_template(COMPARE_TEMPLATE, no_comments_body(find(tree, 'compare_reqs')), 'compare_reqs')
    allc = b['H_all']
    if not (isinstance(allc, ast.BoolOp) and isinstance(allc.op, ast.And)):
        raise Unsupported('compare_reqs: final condition is not a conjunction')
    attrs = []
    for v in allc.values[:-1]:
        if not (isinstance(v, ast.Compare) and len(v.ops) == 1 and isinstance(v.ops[0], ast.Eq)
                and isinstance(v.left, ast.Attribute) and isinstance(v.comparators[0], ast.Attribute)
                and dotted(v.left.value) == 'req1' and dotted(v.comparators[0].value) == 'req2'
                and v.left.attr == v.comparators[0].attr):
            raise Unsupported('compare_reqs: a conjunct is not `req1.x == req2.x`: ' + ast.unparse(v))
        attrs.append(v.left.attr)
    if not (isinstance(allc.values[-1], ast.Name) and allc.values[-1].id == 'same_disj'):
        raise Unsupported('compare_reqs: the conjunction does not end with same_disj')
    return attrs


def no_comments_body(fn):
    return strip_doc(fn.body)


# ------------------------------------------------------------------ generation
def gen_route(repo):
    tree = ast.parse(open(os.path.join(repo, 'gnpy/topology/request.py')).read())
    jtree = ast.parse(open(os.path.join(repo, 'gnpy/tools/json_io.py')).read())
    out = ['(* GENERATED on every run by harness/pygen_c11.py from gnpy/topology/request.py and gnpy/tools/json_io.py of',
           '   /repo - do not edit. *)',
           'From Verif Require Import Prelude Model.Route.', 'Open Scope Z_scope.', '']
    # ---- compute_constrained_path
    b = match_template(CCP_TEMPLATE, no_comments_body(find(tree, 'compute_constrained_path')), 'compute_constrained_path')
    tr = RTr({'req.nodes_list': 'nodes_list', 'req.destination': 't', 'req.loose_list': 'strict_list',
              'nodes_list': 'inc', 'path': 'path'})
    guard, incl = tr.b(b['H_guard']), tr.e(b['H_incl'])
    filt, fallback = tr.b(b['H_filter']), tr.b(b['H_fallback'])
    r1, r2 = const_str(b['H_reason_none'], 'blocking reason'), const_str(b['H_reason_constraint'], 'blocking reason')
    out.append('(* request.py: compute_constrained_path *)')
    out.append(f"""Definition g_ccp (n : net) (s t : Z) (nodes_list : list Z) (strict_list : list bool) : res ccp :=
  if {guard} then Err "ValueError" else
  let inc := {incl} in
  match explicit_path n inc s t with
  | Some total_path => Ok (CExplicit total_path)
  | None => Ok (CSearch (search_by (ngraph n) s t (fun path => {filt}) {fallback} {r1} {r2}))
  end.
""")
    # ---- ispart
    b = match_template(ISPART_TEMPLATE, no_comments_body(find(tree, 'ispart')), 'ispart')
    tr = RTr({'j': 'j'})
    tr.nat = True
    cmp_, newj = tr.b(b['H_cmp']), tr.e(b['H_newj'])
    out.append('(* request.py: ispart (i = pthb.index(elem), None when elem is not in pthb) *)')
    out.append(f"""Fixpoint g_ispart_from (j : nat) (ptha pthb : list Z) : bool :=
  match ptha with
  | [] => {const_bool(b['H_r3'], 'ispart')}
  | elem :: rest =>
      match idx pthb elem with
      | None => {const_bool(b['H_r2'], 'ispart')}
      | Some i => if {cmp_} then g_ispart_from {newj} rest pthb else {const_bool(b['H_r1'], 'ispart')}
      end
  end.
""")
    # ---- explicit_path: the validation of the spelled path
    b = find_block(find(tree, 'explicit_path'), EXPLICIT_TAIL, 'explicit_path')
    tr = RTr({'path': 'path', 'destination': 't', 'node_list': 'node_list'})
    out.append('(* request.py: explicit_path, rejection test of the spelled path *)')
    out.append(f'Definition g_explicit_reject (n : net) (node_list : list Z) (t : Z) (path : list Z) : bool :=\n'
               f'  {tr.b(b["H_reject"])}.\n')
    # ---- find_reversed_path
    b = match_template(FRP_TEMPLATE, no_comments_body(find(tree, 'find_reversed_path')), 'find_reversed_path')
    tr = RTr({'el': 'el'}, KINDS)
    out.append('(* request.py: find_reversed_path, which elements of the path contribute their OMS *)')
    out.append(f'Definition g_rev_keeps (n : net) (el : Z) : bool :=\n  {tr.b(b["H_keep"])}.\n')
    # ---- network_from_json
    b = find_block(find(jtree, 'network_from_json'), JSON_TEMPLATE, 'network_from_json')
    carries = b['H_carries']
    t = ast.parse('isinstance(nodes[from_node], elements.Fiber)').body[0].value
    if not unify(t, carries, {}):
        raise Unsupported('network_from_json: the test deciding that an edge carries a length is not '
                          '`isinstance(nodes[from_node], elements.Fiber)`: ' + ast.unparse(carries))
    if not unify(ast.parse('nodes[from_node].params.length').body[0].value, b['H_length'], {}):
        raise Unsupported('network_from_json: edge length expression ' + ast.unparse(b['H_length']))
    ph = b['H_placeholder']
    if not (isinstance(ph, ast.Constant) and isinstance(ph.value, float)):
        raise Unsupported('network_from_json: placeholder weight is not a float constant')
    cm = ph.value * 100
    if abs(cm - round(cm)) > 1e-9:
        raise Unsupported('network_from_json: placeholder weight is not a whole number of centimetres')
    out.append('(* json_io.py: network_from_json, weight of the edge leaving a node (cm; is_fibre = isinstance(node, Fiber)) *)')
    out.append(f'Definition g_edge_weight (is_fibre : bool) (length_cm : Z) : Z :=\n'
               f'  if is_fibre then length_cm else {round(cm)}.\n')
    shared_fragments(repo, tree, out)
    # ---- compute_path_dsjctn step 4: the include clause of C11 for the members of a synchronisation vector
    ok, strict = step4_terms(find(tree, 'compute_path_dsjctn'))
    out.append('(* request.py: compute_path_dsjctn step 4 (full_path = the candidate, short_path = its ROADM short list) *)')
    out.append(f'Definition g_vector_include_ok (nodes_list full_path short_path : list Z) : bool :=\n  {ok}.')
    out.append(f'Definition g_vector_strict (strict_list : list bool) : bool :=\n  {strict}.\n')
    return '\n'.join(out)


def step4_terms(fn):
    b = find_block(fn, STEP4_TEMPLATE, 'compute_path_dsjctn step 4')
    tr = RTr({'allpaths[id(pth)].req.nodes_list': 'nodes_list', 'allpaths[id(pth)].pth': 'full_path', 'pth': 'short_path',
              'allpaths[id(pth)].req.loose_list': 'strict_list'})
    tr.name = lambda n, _tr=tr: _name_unparse(_tr, n)
    np_ = b['H_not_part']
    if not (isinstance(np_, ast.UnaryOp) and isinstance(np_.op, ast.Not)):
        raise Unsupported('compute_path_dsjctn step 4: the include test is not of the form `not ...`')
    return tr.b(np_.operand), tr.b(b['H_strict'])


def gen_disjoint(repo):
    tree = ast.parse(open(os.path.join(repo, 'gnpy/topology/request.py')).read())
    out = ['(* GENERATED on every run by harness/pygen_c11.py from gnpy/topology/request.py of /repo - do not edit. *)',
           'From Verif Require Import Prelude Model.Route Model.Disjoint.', 'Open Scope Z_scope.', '']
    # ---- isdisjoint
    b = match_template(ISDISJOINT_TEMPLATE, no_comments_body(find(tree, 'isdisjoint')), 'isdisjoint')
    tr = RTr({'pth1': 'pth1', 'pth2': 'pth2'})
    out.append('(* request.py: isdisjoint *)')
    out.append(f'Definition g_isdisjoint (pth1 pth2 : list Z) : Z :=\n  if any_in (pairwise {tr.e(b["H_a"])}) '
               f'(pairwise {tr.e(b["H_b"])}) then {const_int(b["H_hit"], "isdisjoint")} else '
               f'{const_int(b["H_miss"], "isdisjoint")}.\n')
    fn = find(tree, 'compute_path_dsjctn')
    # ---- cutoff of the candidate enumeration
    calls = [c for c in ast.walk(fn) if isinstance(c, ast.Call) and isinstance(c.func, ast.Name)
             and c.func.id == 'all_simple_paths']
    if len(calls) != 1:
        raise Unsupported('compute_path_dsjctn: expected one call of all_simple_paths')
    kw = {k.arg: k.value for k in calls[0].keywords}
    if set(kw) != {'source', 'target', 'cutoff'} or len(calls[0].args) != 1:
        raise Unsupported('compute_path_dsjctn: arguments of all_simple_paths')
    out.append('(* request.py: compute_path_dsjctn step 1, all_simple_paths(..., cutoff=...) *)')
    out.append(f'Definition g_cutoff : Z := {RTr({}).e(kw["cutoff"])}.\n')
    # ---- step 2
    b = find_block(fn, STEP2_TEMPLATE, 'compute_path_dsjctn step 2')
    tr = RTr({'pth1': 'pth1', 'pth1_reversed': 'pth1_reversed', 'pth': 'pth', 'all_disjoint': 'all_disjoint'})
    out.append('(* request.py: compute_path_dsjctn step 2 *)')
    out.append(f'Definition g_step2_conflicts (pth1 pth1_reversed pth : list Z) : Z :=\n  {tr.e(b["H_count"])}.')
    out.append(f'Definition g_step2_accept (all_disjoint : Z) : bool :=\n  {tr.b(b["H_accept"])}.\n')
    # ---- step 4
    ok4, strict4 = step4_terms(fn)
    out.append('(* request.py: compute_path_dsjctn step 4 (full_path = the candidate, short_path = its ROADM short list) *)')
    out.append(f'Definition g_step4_ok (nodes_list full_path short_path : list Z) : bool :=\n  {ok4}.')
    out.append(f'Definition g_step4_strict (strict_list : list bool) : bool :=\n  {strict4}.\n')
    # ---- step 5
    b = find_block(fn, STEP5_TEMPLATE, 'compute_path_dsjctn step 5')
    tr = RTr({'candidates[dis.disjunction_id]': 'BOOL:has_candidates'})
    exc = b['H_exc']
    if not (isinstance(exc, ast.Call) and isinstance(exc.func, ast.Name) and len(exc.args) == 1
            and isinstance(exc.args[0], ast.Name) and exc.args[0].id == 'msg'):
        raise Unsupported('compute_path_dsjctn step 5: raise')
    out.append('(* request.py: compute_path_dsjctn step 5 *)')
    out.append(f'Definition g_step5 (has_candidates : bool) : res unit :=\n  if {tr.b(b["H_has"])} then Ok tt '
               f'else Err "{exc.func.id}".\n')
    # ---- find_reversed_path (the reverse candidates of step 1): matched literally, its class filter translated
    b = match_template(FRP_TEMPLATE, no_comments_body(find(tree, 'find_reversed_path')), 'find_reversed_path')
    out.append('(* request.py: find_reversed_path matched literally (a crossed OMS without reverse OMS raises ValueError); filter: *)')
    out.append(f'Definition g_rev_keeps (n : net) (el : Z) : bool :=\n  {RTr({"el": "el"}, KINDS).b(b["H_keep"])}.\n')
    # ---- compare_reqs
    b = match_template(COMPARE_TEMPLATE, no_comments_body(find(tree, 'compare_reqs')), 'compare_reqs')
    tr = RTr({'dis1': 'BOOL:(in_some r1 gs)', 'dis2': 'BOOL:(in_some r2 gs)', 'temp1': '(shape r1 gs)',
              'temp2': '(shape r2 gs)'})
    tr.sets = ('(shape r1 gs)', '(shape r2 gs)')
    tr.sets_eq = '(ms_eq {a} {b})'
    out.append('(* request.py: compare_reqs, the test on the disjunction groups of the two requests *)')
    out.append(f"""Definition g_same_disj (r1 r2 : rid) (gs : list grp) : bool :=
  if {tr.b(b['H_both'])} then (if {tr.b(b['H_shape'])} then true else false)
  else if {tr.b(b['H_neither'])} then true else false.
""")
    allc = b['H_all']
    if not (isinstance(allc, ast.BoolOp) and isinstance(allc.op, ast.And)):
        raise Unsupported('compare_reqs: final condition is not a conjunction')
    attrs = []
    for v in allc.values[:-1]:
        t = {}
        if not (isinstance(v, ast.Compare) and len(v.ops) == 1 and isinstance(v.ops[0], ast.Eq)
                and isinstance(v.left, ast.Attribute) and isinstance(v.comparators[0], ast.Attribute)
                and dotted(v.left.value) == 'req1' and dotted(v.comparators[0].value) == 'req2'
                and v.left.attr == v.comparators[0].attr):
            raise Unsupported('compare_reqs: a conjunct is not `req1.x == req2.x`: ' + ast.unparse(v))
        attrs.append(v.left.attr)
    if not (isinstance(allc.values[-1], ast.Name) and allc.values[-1].id == 'same_disj'):
        raise Unsupported('compare_reqs: the conjunction does not end with same_disj')
    out.append('(* request.py: compare_reqs, the attributes that must be equal *)')
    out.append('Definition g_compared_attrs : list string :=\n  [' + '; '.join(f'"{a}"' for a in attrs) + ']%string.\n')
    shared_fragments(repo, tree, out)
    return '\n'.join(out)


def _name_unparse(tr, n):
    d = ast.unparse(n)
    if d in tr.names:
        return tr.names[d]
    raise Unsupported(f'name {d}')


def _write(name, txt):
    dst = os.path.join(common.COQ, 'theories', 'Gen', name)
    os.makedirs(os.path.dirname(dst), exist_ok=True)
    if not os.path.exists(dst) or open(dst).read() != txt:
        with open(dst, 'w') as f:
            f.write(txt)


def regenerate(which=('route', 'disjoint')):
    """(Re)write Gen/RouteGen.v / Gen/DisjointGen.v when their content changed.  Returns (ok, message).
    When a translation fails the previous generated file is replaced by a stub that does not define the g_ terms, so that
    the equivalence lemmas cannot be re-checked against stale text."""
    msgs = []
    for key, fname, gen in (('route', 'RouteGen.v', gen_route), ('disjoint', 'DisjointGen.v', gen_disjoint)):
        if key not in which:
            continue
        try:
            _write(fname, gen(common.REPO))
        except (Unsupported, SyntaxError, OSError) as e:
            msgs.append(f'{fname}: translation failed: {type(e).__name__}: {e}')
            _write(fname, f'(* GENERATED by harness/pygen_c11.py: translation of /repo FAILED *)\n'
                          f'(* {type(e).__name__}: {str(e)[:300].replace("*)", "* )")} *)\n')
    return (not msgs), ('; '.join(msgs) or 'ok')


if __name__ == '__main__':
    print(gen_route(common.REPO))
    print(gen_disjoint(common.REPO))
