"""Translator tie for C15: re-reads the OMS / spectrum-map primitives of gnpy/topology/spectrum_assignment.py from
/repo's source on every run and writes coq/theories/Gen/OmsGen.v; Proofs/OmsGen.v proves each generated definition equal
to the hand-written model Model/Oms.v (error details aside), Props/C15.v has the C15_source_* theorems.

Fail closed: anything outside what is listed here raises pygen.Unsupported and the check reports a broken tie.

What is TRANSLATED (expression by expression, by TrOms below) and what is only TEMPLATE-MATCHED (statement must be the
expected one; holes H_x are translated):
  frequency_to_n, nvalue_to_frequency : template `return <expr>`; the float expression is translated into exact rational
      arithmetic over Q (+ - * /, integer-valued float constants, int(x) = truncation toward zero `qtrunc`, an integer
      variable in a float expression = inject_Z) - equality of terms with the Q model, not of float results.
  Bitmap.__init__   : template = the attribute assignments in their order and the `if bitmap is None / elif / else raise`
      shape; translated holes = the four frequency_to_n calls, freq_index, the fresh bitmap, the length test.
  Bitmap.insert_left / insert_right : every statement translated: a sequence of `self.<field> = e` / `<local> = e`, read as
      successive updates of the record (bitmap -> cells, freq_index -> idx, n_min, n_max); `xs[0]` / `xs[-1]` raise
      IndexError on an empty list (monadic).
  create_oms_bitmap : template = locals, first band, the `while i < len(common_range)` loop advancing by one, the final pad;
      translated holes = the first segment, the two clamped band edges, the gap and FREE segments, the carried upper
      edge, the final pad.  `bitmap = bitmap + A + B` in the loop is emitted as the right-nested recursion
      (A ++ B) ++ <rest> (list concatenation is associative: trusted here, proved where the model is compared).
  align_grids       : template = min / max over the OMS list, the loop with two independent `if`s calling insert_left /
      insert_right, `return oms_list`; translated holes = the two generator bodies, both conditions, both pad lists.
  build_oms_list    : only its while loop (the walk from a ROADM to the next): template = add_element, the UNCONDITIONAL
      `nd_out.oms_id = oms_id; nd_out.oms = oms`, the advance of nd_in / nd_out; translated hole = the filter on the
      successor's uid.
  find_network_freq_range : template = the collection of the bands of all amplifiers and the two comprehensions;
      translated holes = the two projected keys; `min(..), max(..)` over the lists (ValueError when empty).
"""
import ast
import os

from . import common
from .pygen import Tr, Unsupported, dotted, find, strip_doc, match_template, unify

SRC = 'gnpy/topology/spectrum_assignment.py'
FIELDS = {'bitmap': ('cells', 'list'), 'freq_index': ('idx', 'list'), 'n_min': ('n_min', 'Z'), 'n_max': ('n_max', 'Z')}
SLOT = {'BitmapValue.UNUSABLE': 'SU', 'BitmapValue.OCCUPIED': 'SO', 'BitmapValue.FREE': 'SF'}


class TrOms(Tr):
    """Z expressions by e(), rational ones by q(), lists by l().  `cur` maps a source field of the bitmap object (or a
    local name) to the Gallina term holding its current value."""

    def __init__(self, obj=None, var='b', qvars=(), zvars=(), listvars=(), bandvars=()):
        super().__init__(known=set(), defaults={}, attr=dict(SLOT), names={'DEFAULT_GRID': 'default_grid'}, monadic={})
        self.obj = obj                      # source prefix of the bitmap object, e.g. 'self' or 'this_o.spectrum_bitmap'
        self.cur = {}
        if obj:
            for f, (g, _) in FIELDS.items():
                self.cur[f'{obj}.{f}'] = f'({g} {var})'
        self.qvars, self.zvars, self.lvars, self.bandvars = set(qvars), set(zvars), set(listvars), set(bandvars)

    # ---- kinds
    def is_list(self, n):
        if isinstance(n, ast.Name):
            return n.id in self.lvars
        if isinstance(n, ast.Attribute):
            d = dotted(n)
            return d in self.cur and FIELDS.get(d.split('.')[-1], ('', ''))[1] == 'list'
        if isinstance(n, ast.Call) and dotted(n.func) == 'list':
            return True
        if isinstance(n, ast.BinOp) and isinstance(n.op, ast.Mult) and isinstance(n.left, ast.List):
            return True
        if isinstance(n, ast.BinOp) and isinstance(n.op, ast.Add):
            return self.is_list(n.left) and self.is_list(n.right)
        return False

    # ---- lists
    def l(self, n):
        if isinstance(n, ast.Name) and n.id in self.lvars:
            return self.cur.get(n.id, n.id)
        if isinstance(n, ast.Attribute) and self.is_list(n):
            return self.cur[dotted(n)]
        if isinstance(n, ast.Call) and dotted(n.func) == 'list' and len(n.args) == 1 and isinstance(n.args[0], ast.Call) \
                and dotted(n.args[0].func) == 'range' and len(n.args[0].args) == 2 and not n.args[0].keywords:
            a, b = n.args[0].args
            return f'(zrange {self.e(a)} {self.e(b)})'
        if isinstance(n, ast.BinOp) and isinstance(n.op, ast.Mult) and isinstance(n.left, ast.List):
            if len(n.left.elts) != 1:
                raise Unsupported('list repetition of a non-singleton')
            return f'(rep {self.e(n.left.elts[0])} {self.e(n.right)})'
        if isinstance(n, ast.BinOp) and isinstance(n.op, ast.Add) and self.is_list(n):
            return f'({self.l(n.left)} ++ {self.l(n.right)})'
        raise Unsupported('list expression ' + ast.dump(n)[:120])

    # ---- integers
    def e(self, n):
        if isinstance(n, ast.Name):
            if n.id in self.qvars or n.id in self.lvars or n.id in self.bandvars:
                raise Unsupported(f'{n.id} used as an integer')
            if n.id in self.zvars or n.id in self.cur:
                return self.cur.get(n.id, n.id)
            raise Unsupported(f'unknown name {n.id}')
        if isinstance(n, ast.Attribute):
            d = dotted(n)
            if d in self.cur and not self.is_list(n):
                return self.cur[d]
            if d in self.attr:
                return self.attr[d]
            raise Unsupported(f'attribute {d}')
        if isinstance(n, ast.Call):
            f = dotted(n.func)
            if f == 'frequency_to_n' and len(n.args) in (1, 2) and not n.keywords:
                g = self.q(n.args[1]) if len(n.args) == 2 else 'default_grid'
                return f'(g_frequency_to_n {self.q(n.args[0])} {g})'
            if f in ('max', 'min') and len(n.args) == 2 and not n.keywords:
                return f'(Z.{f} {self.e(n.args[0])} {self.e(n.args[1])})'
            if f == 'len' and len(n.args) == 1:
                return f'(Z.of_nat (length {self.l(n.args[0])}))'
            if f == 'int' and len(n.args) == 1:
                return f'(qtrunc {self.q(n.args[0])})'
            raise Unsupported(f'call of {f}')
        if isinstance(n, ast.Subscript) and self.is_list(n.value):
            idx = n.slice
            base = self.l(n.value)
            self.fresh += 1
            v = f'm{self.fresh}'
            if isinstance(idx, ast.Constant) and idx.value == 0:
                self.pre.append((v, f'hd_res {base}'))
                return v
            if isinstance(idx, ast.UnaryOp) and isinstance(idx.op, ast.USub) and isinstance(idx.operand, ast.Constant) \
                    and idx.operand.value == 1:
                self.pre.append((v, f'last_res {base}'))
                return v
            raise Unsupported('subscript other than [0] / [-1]')
        if isinstance(n, ast.BinOp) and isinstance(n.op, (ast.Add, ast.Sub, ast.Mult)):
            if self.is_list(n.left) or self.is_list(n.right) or isinstance(n.left, ast.List):
                raise Unsupported('list used as an integer')
            op = {ast.Add: '+', ast.Sub: '-', ast.Mult: '*'}[type(n.op)]
            return f'({self.e(n.left)} {op} {self.e(n.right)})'
        if isinstance(n, (ast.Constant, ast.UnaryOp)):
            return super().e(n)
        raise Unsupported('integer expression ' + ast.dump(n)[:120])

    def b(self, n):
        if isinstance(n, ast.Compare) and len(n.ops) == 1 and isinstance(n.ops[0], (ast.Eq, ast.Lt, ast.LtE, ast.Gt, ast.GtE)):
            return super().b(n)
        raise Unsupported('condition ' + ast.dump(n)[:120])

    # ---- rationals (what the code computes in floats)
    def q(self, n):
        if isinstance(n, ast.Constant) and isinstance(n.value, (int, float)) and not isinstance(n.value, bool):
            if float(n.value) != int(n.value):
                raise Unsupported(f'non-integer constant {n.value!r}')
            return f'({int(n.value)} # 1)' if n.value >= 0 else f'(({int(n.value)}) # 1)'
        if isinstance(n, ast.Name):
            if n.id in self.qvars:
                return n.id
            if n.id in self.zvars:
                return f'(inject_Z {n.id})'
            if n.id in self.names:
                return self.names[n.id]
            raise Unsupported(f'unknown name {n.id} in a frequency expression')
        if isinstance(n, ast.Subscript) and isinstance(n.value, ast.Name) and n.value.id in self.bandvars \
                and isinstance(n.slice, ast.Constant) and n.slice.value in ('f_min', 'f_max'):
            return f"({'fst' if n.slice.value == 'f_min' else 'snd'} {n.value.id})"
        if isinstance(n, ast.BinOp) and isinstance(n.op, (ast.Add, ast.Sub, ast.Mult, ast.Div)):
            op = {ast.Add: '+', ast.Sub: '-', ast.Mult: '*', ast.Div: '/'}[type(n.op)]
            return f'({self.q(n.left)} {op} {self.q(n.right)})%Q'
        raise Unsupported('frequency expression ' + ast.dump(n)[:120])


def body_of(tree, qual):
    return strip_doc(find(tree, qual).body)


# ------------------------------------------------------------------ frequency <-> slot number
def gen_freq(tree):
    out = []
    fn = find(tree, 'frequency_to_n')
    if [a.arg for a in fn.args.args] != ['freq', 'grid'] or len(fn.args.defaults) != 1 \
            or dotted(fn.args.defaults[0]) != 'DEFAULT_GRID':
        raise Unsupported('signature of frequency_to_n')
    b = match_template('return H_e', strip_doc(fn.body), 'frequency_to_n')
    e = b['H_e']
    if not (isinstance(e, ast.Call) and isinstance(e.func, ast.Name) and e.func.id == 'int' and len(e.args) == 1):
        raise Unsupported('frequency_to_n is not int(<expr>)')
    tr = TrOms(qvars=('freq', 'grid'))
    out.append(f'(* {SRC}: frequency_to_n *)\nDefinition g_frequency_to_n (freq grid : Q) : Z :=\n  {tr.e(e)}.\n')
    fn = find(tree, 'nvalue_to_frequency')
    if [a.arg for a in fn.args.args] != ['nvalue', 'grid']:
        raise Unsupported('signature of nvalue_to_frequency')
    b = match_template('return H_e', strip_doc(fn.body), 'nvalue_to_frequency')
    tr = TrOms(qvars=('grid',), zvars=('nvalue',))
    out.append(f'(* {SRC}: nvalue_to_frequency *)\nDefinition g_nvalue_to_frequency (nvalue : Z) (grid : Q) : Q :=\n'
               f'  {tr.q(b["H_e"])}.\n')
    return out


# ------------------------------------------------------------------ Bitmap.__init__
INIT_T = """
n_min = H_nmin
n_max = H_nmax
self.n_min = n_min
self.n_max = n_max
self.freq_index_min = H_fimin
self.freq_index_max = H_fimax
self.freq_index = H_idx
self.guardband = guardband
if bitmap is None:
    self.bitmap = H_fresh
elif H_lencond:
    self.bitmap = bitmap
else:
    raise SpectrumError(H_msg)
"""


def gen_init(tree):
    fn = find(tree, 'Bitmap.__init__')
    if [a.arg for a in fn.args.args] != ['self', 'f_min', 'f_max', 'grid', 'guardband', 'bitmap']:
        raise Unsupported('signature of Bitmap.__init__')
    b = match_template(INIT_T, strip_doc(fn.body), 'Bitmap.__init__')
    tr = TrOms(qvars=('f_min', 'f_max', 'grid', 'guardband'), zvars=('n_min', 'n_max'), listvars=('bitmap',))
    tr.cur['self.freq_index'] = 'ix'
    nmin, nmax = tr.e(b['H_nmin']), tr.e(b['H_nmax'])
    fimin, fimax = tr.e(b['H_fimin']), tr.e(b['H_fimax'])
    idx, fresh, cond = tr.l(b['H_idx']), tr.l(b['H_fresh']), tr.b(b['H_lencond'])
    if tr.pre:
        raise Unsupported('partial operation in Bitmap.__init__')
    return [f"""(* {SRC}: Bitmap.__init__ (gb, the guard band in slots, is a derived field of the model's record) *)
Definition g_Bitmap_init (f_min f_max grid guardband : Q) (existing : option (list slot)) : res bitmap :=
  let n_min := {nmin} in
  let n_max := {nmax} in
  let fimin := {fimin} in
  let fimax := {fimax} in
  let ix := {idx} in
  match existing with
  | None => Ok (mkB n_min n_max fimin fimax (qtrunc (guardband / grid)) ix {fresh})
  | Some bitmap => if {cond} then Ok (mkB n_min n_max fimin fimax (qtrunc (guardband / grid)) ix bitmap)
                   else Err "SpectrumError"
  end.
"""]


# ------------------------------------------------------------------ insert_left / insert_right (every statement)
def gen_update_method(tree, name):
    fn = find(tree, f'Bitmap.{name}')
    if [a.arg for a in fn.args.args] != ['self', 'newbitmap']:
        raise Unsupported(f'signature of Bitmap.{name}')
    tr = TrOms(obj='self', var='b', listvars=('newbitmap',))
    lines, k = [], 0
    for s in strip_doc(fn.body):
        if not (isinstance(s, ast.Assign) and len(s.targets) == 1):
            raise Unsupported(f'Bitmap.{name}: statement other than an assignment')
        t = s.targets[0]
        if isinstance(t, ast.Attribute) and dotted(t) in tr.cur:
            key, is_list = dotted(t), FIELDS[t.attr][1] == 'list'
        elif isinstance(t, ast.Name):
            key, is_list = t.id, tr.is_list(s.value)
        else:
            raise Unsupported(f'Bitmap.{name}: assignment target')
        rhs = tr.l(s.value) if is_list else tr.e(s.value)
        for v, m in tr.pre:
            lines.append(f'let* {v} := {m} in')
        tr.pre = []
        k += 1
        var = f'v{k}'
        lines.append(f'let {var} := {rhs} in')
        tr.cur[key] = var
        if isinstance(t, ast.Name):
            (tr.lvars if is_list else tr.zvars).add(t.id)
    g = {f: tr.cur[f'self.{f}'] for f in FIELDS}
    body = '\n  '.join(lines)
    return [f"""(* {SRC}: Bitmap.{name} *)
Definition g_{name} (b : bitmap) (newbitmap : list slot) : res bitmap :=
  {body}
  Ok (mkB {g['n_min']} {g['n_max']} (fi_min b) (fi_max b) (gb b) {g['freq_index']} {g['bitmap']}).
"""]


# ------------------------------------------------------------------ create_oms_bitmap
COB_T = """
n_min = frequency_to_n(f_min, grid)
n_max = frequency_to_n(f_max, grid)
common_range = find_elements_common_range(oms.el_list, equipment)
band0 = common_range[0]
band0_n_min = H_b0min
band0_n_max = H_b0max
bitmap = H_first
i = 1
while i < len(common_range):
    band = common_range[i]
    band_n_min = H_lo
    band_n_max = H_hi
    bitmap = bitmap + H_gap + H_free
    band0_n_max = H_next
    i += 1
bitmap = bitmap + H_last
return bitmap
"""


def gen_cob(tree):
    fn = find(tree, 'create_oms_bitmap')
    if [a.arg for a in fn.args.args] != ['oms', 'equipment', 'f_min', 'f_max', 'grid']:
        raise Unsupported('signature of create_oms_bitmap')
    b = match_template(COB_T, strip_doc(fn.body), 'create_oms_bitmap')
    q = ('f_min', 'f_max', 'grid')
    t0 = TrOms(qvars=q, zvars=('n_min', 'n_max', 'band0_n_min', 'band0_n_max'), bandvars=('band0',))
    b0min, b0max, first = t0.e(b['H_b0min']), t0.e(b['H_b0max']), t0.l(b['H_first'])
    t1 = TrOms(qvars=q, zvars=('n_min', 'n_max', 'band0_n_max', 'band_n_min', 'band_n_max'), bandvars=('band',))
    lo, hi = t1.e(b['H_lo']), t1.e(b['H_hi'])
    gap, free, nxt, last = t1.l(b['H_gap']), t1.l(b['H_free']), t1.e(b['H_next']), t1.l(b['H_last'])
    if t0.pre or t1.pre:
        raise Unsupported('partial operation in create_oms_bitmap')
    return [f"""(* {SRC}: create_oms_bitmap - the loop over the further bands and the final pad *)
Fixpoint g_oms_loop (grid : Q) (n_min n_max band0_n_max : Z) (rest : list band) : list slot :=
  match rest with
  | [] => {last}
  | band :: rest' =>
      let band_n_min := {lo} in
      let band_n_max := {hi} in
      ({gap} ++ {free}) ++ g_oms_loop grid n_min n_max {nxt} rest'
  end.
(* {SRC}: create_oms_bitmap (common_range = find_elements_common_range(oms.el_list, equipment)) *)
Definition g_create_oms_bitmap (common_range : list band) (f_min f_max grid : Q) : res (list slot) :=
  let n_min := g_frequency_to_n f_min grid in
  let n_max := g_frequency_to_n f_max grid in
  match common_range with
  | [] => Err "IndexError"
  | band0 :: rest =>
      let band0_n_min := {b0min} in
      let band0_n_max := {b0max} in
      Ok ({first} ++ g_oms_loop grid n_min n_max band0_n_max rest)
  end.
"""]


# ------------------------------------------------------------------ align_grids
ALIGN_T = """
n_min = min(H_a for o in oms_list)
n_max = max(H_b for o in oms_list)
for this_o in oms_list:
    if H_c1:
        this_o.spectrum_bitmap.insert_left(H_l)
    if H_c2:
        this_o.spectrum_bitmap.insert_right(H_r)
return oms_list
"""


def gen_align(tree):
    fn = find(tree, 'align_grids')
    if [a.arg for a in fn.args.args] != ['oms_list']:
        raise Unsupported('signature of align_grids')
    b = match_template(ALIGN_T, strip_doc(fn.body), 'align_grids')
    to = TrOms(obj='o.spectrum_bitmap', var='o')
    fa, fb = to.e(b['H_a']), to.e(b['H_b'])
    t1 = TrOms(obj='this_o.spectrum_bitmap', var='b', zvars=('n_min', 'n_max'))
    t2 = TrOms(obj='this_o.spectrum_bitmap', var='b1', zvars=('n_min', 'n_max'))
    for t in (t1, t2):                      # the locals n_min / n_max must not capture the record projections
        t.cur['n_min'], t.cur['n_max'] = 'nmin', 'nmax'
    c1, l1 = t1.b(b['H_c1']), t1.l(b['H_l'])
    c2, l2 = t2.b(b['H_c2']), t2.l(b['H_r'])
    if to.pre or t1.pre or t2.pre:
        raise Unsupported('partial operation in align_grids')
    return [f"""(* {SRC}: align_grids - one OMS of the loop *)
Definition g_align_one (nmin nmax : Z) (b : bitmap) : res bitmap :=
  let* b1 := if {c1} then g_insert_left b {l1} else Ok b in
  if {c2} then g_insert_right b1 {l2} else Ok b1.
(* {SRC}: align_grids (min / max of an empty sequence: ValueError) *)
Definition g_align_grids (oms_list : list bitmap) : res (list bitmap) :=
  match oms_list with
  | [] => Err "ValueError"
  | o0 :: rest =>
      let nmin := fold_left Z.min (map (fun o => {fa}) rest) ((fun o => {fa}) o0) in
      let nmax := fold_left Z.max (map (fun o => {fb}) rest) ((fun o => {fb}) o0) in
      mapM (g_align_one nmin nmax) oms_list
  end.
"""]


# ------------------------------------------------------------------ find_network_freq_range
FNR_T = """
amp_bands = [band for n in network.nodes() if isinstance(n, (Edfa, Multiband_amplifier)) for band in n.params.bands]
min_frequencies = [H_lo for a in amp_bands]
max_frequencies = [H_hi for a in amp_bands]
return min(min_frequencies), max(max_frequencies)
"""


def gen_fnr(tree):
    fn = find(tree, 'find_network_freq_range')
    b = match_template(FNR_T, strip_doc(fn.body), 'find_network_freq_range')
    tr = TrOms(bandvars=('a',))
    lo, hi = tr.q(b['H_lo']), tr.q(b['H_hi'])
    return [f"""(* {SRC}: find_network_freq_range (amp_bands = the bands of all Edfa / Multiband_amplifier nodes, in node order) *)
Definition g_find_network_freq_range (amp_bands : list band) : res (Q * Q) :=
  let min_frequencies := map (fun a => {lo}) amp_bands in
  let max_frequencies := map (fun a => {hi}) amp_bands in
  match min_frequencies, max_frequencies with
  | x :: xs, y :: ys => Ok (fold_left qmin xs x, fold_left qmax ys y)
  | _, _ => Err "ValueError"
  end.
"""]


# ------------------------------------------------------------------ the walk of build_oms_list
WALK_T = """
while not isinstance(nd_out, Roadm):
    oms.add_element(nd_out)
    nd_out.oms_id = oms_id
    nd_out.oms = oms
    n_temp = nd_out
    nd_out = next(n[1] for n in network.edges([n_temp]) if H_keep)
    nd_in = n_temp
"""
WALK_UIDS = {'n[1].uid': 's', 'nd_in.uid': 'nd_in', 'nd_out.uid': 'nd_out', 'n_temp.uid': 'nd_out'}


def gen_walk(tree):
    fn = find(tree, 'build_oms_list')
    loops = [x for x in ast.walk(fn) if isinstance(x, ast.While)]
    if len(loops) != 1:
        raise Unsupported('build_oms_list: expected exactly one while loop (the walk to the next ROADM)')
    # the element is recorded in the OMS and its oms / oms_id are (re)written unconditionally at every step
    b = match_template(WALK_T, [loops[0]], 'the walk of build_oms_list')
    k = b['H_keep']
    if not (isinstance(k, ast.Compare) and len(k.ops) == 1 and isinstance(k.ops[0], (ast.NotEq, ast.Eq))):
        raise Unsupported('filter of the walk is not an (in)equality of uids')
    ops = []
    for x in (k.left, k.comparators[0]):
        d = ast.unparse(x)
        if d not in WALK_UIDS:
            raise Unsupported(f'filter of the walk: operand {d}')
        ops.append(WALK_UIDS[d])
    test = f'({ops[0]} =? {ops[1]})'
    if isinstance(k.ops[0], ast.NotEq):
        test = f'(negb {test})'
    return [f"""(* {SRC}: build_oms_list, one step of the walk: next(n[1] for n in network.edges([nd_out]) if <filter>)
   (the statements around it - add_element, nd_out.oms_id = oms_id, nd_out.oms = oms, unconditionally - are matched) *)
Definition g_walk_next (nd_in nd_out : Z) (succs : list Z) : res Z :=
  match filter (fun s => {test}) succs with
  | [] => Err "StopIteration"
  | nx :: _ => Ok nx
  end.
"""]


HEADER = """(* GENERATED on every run by harness/pygen_c15.py from gnpy/topology/spectrum_assignment.py of /repo - do not edit. *)
From Coq Require Import QArith.
From Verif Require Import Prelude Model.Spectrum Model.Oms.
Local Open Scope Z_scope.

(* xs[0] / xs[-1] *)
Definition hd_res (l : list Z) : res Z := match l with [] => Err "IndexError" | h :: _ => Ok h end.
Definition last_res (l : list Z) : res Z := match l with [] => Err "IndexError" | _ => Ok (List.last l 0) end.
"""


def generate(repo=None):
    repo = repo or common.REPO
    tree = ast.parse(open(os.path.join(repo, SRC)).read())
    out = [HEADER]
    out += gen_freq(tree)
    out += gen_init(tree)
    out += gen_update_method(tree, 'insert_left')
    out += gen_update_method(tree, 'insert_right')
    out += gen_cob(tree)
    out += gen_align(tree)
    out += gen_fnr(tree)
    out += gen_walk(tree)
    return '\n'.join(out)


def regenerate():
    """(Re)write coq/theories/Gen/OmsGen.v when its content changed. Returns (ok, message)."""
    dst = os.path.join(common.COQ, 'theories', 'Gen', 'OmsGen.v')
    try:
        txt = generate()
    except (Unsupported, SyntaxError, OSError) as e:
        return False, f'translation failed: {type(e).__name__}: {e}'
    os.makedirs(os.path.dirname(dst), exist_ok=True)
    if not os.path.exists(dst) or open(dst).read() != txt:
        with open(dst, 'w') as f:
            f.write(txt)
    return True, 'ok'


if __name__ == '__main__':
    print(generate())
