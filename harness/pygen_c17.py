"""Translator tie for C17 (second tie between /repo's source and Model/Redesign.v), built on harness/pygen.py and the
Q-expression translator of harness/pygen_c10.py.

On every run the functions below are re-read from <repo>; their bookkeeping is matched against templates (every statement
must be the expected one) and the value-carrying expressions (holes H_x) are translated into Gallina; the result is written
to coq/theories/Gen/RedesignGen.v and Proofs/RedesignGen.v proves each generated definition equal to the hand-written model
(Props/C17.v: C17_source_*).

  gnpy/core/elements.py
    Edfa.to_json                 template EDFA (tilt_target kept None / -0.0 exported as 0, the keys of the export and of
                                 its operational block in their order); TRANSLATED: the five operational values
                                 (`round(x, n) if x is not None else None` -> round_dec n under the option)
    Fiber.to_json                template FIBER (keys, per-frequency branch, pmd_coef exported iff params.pmd_coef_defined,
                                 the lumped-loss records); TRANSLATED: length [km], loss_coef [dB/km], the test that
                                 decides whether lumped_losses are exported
    Roadm.to_json                template ROADM (equalisation chain, keys, the independent per-degree `if`s);
                                 TRANSLATED: the test that decides whether design_bands are exported
    Multiband_amplifier.to_json, RamanFiber.to_json, Fused.to_json
                                 templates only (per band: gain_target rounded to 6 decimals, delta_p, tilt_target,
                                 out_voa, in_voa as they are)
  gnpy/core/parameters.py
    Parameters.asdict, FiberParams.asdict, FiberParams.pmd_coef_defined, the assignment of _pmd_coef_defined in
    FiberParams.__init__         templates only (frozen_params, also used by harness/pygen_c08.py for split_fiber);
                                 TRANSLATED: the list of FiberParams properties (= the keys asdict() copies)
    RamanParams / NLIParams      __init__ template (one attribute per argument, method lower-cased for NLIParams);
                                 TRANSLATED: the defaults of the signature, the keys of to_json (each `self.<key>`)
    SimParams.set_params         template only (both entries rebuilt, a missing one from {})
  gnpy/core/network.py
    compute_gain_power_and_tilt_target, set_one_amplifier, set_amplifier_voa
                                 templates CG / SO / VOA and translator TrP of harness/pygen_c09.py (not duplicated here:
                                 the redesign model Model/Redesign.v has its own amplifier stages, which get their own
                                 obligations); TRANSLATED: both dp expressions, the power-mode gain, the gain-mode dp
                                 derived back from an imposed gain, power_target, both saturation reductions, the
                                 automatic output VOA; the mode test and the returned (dp, voa) are template-fixed
    estimate_raman_gain          template ERG: the cached value returned first, SimParams saved (both entries, to_json)
                                 BEFORE set_params(sim_params), restored with set_params(save_sim_params) on the only
                                 exit path after the set, the estimate recorded only when a span input power was given,
                                 round(.., 2) returned; TRANSLATED: the sim_params dictionary in force during the solver call
Anything outside the subset raises Unsupported (fail closed).  Float constants are read as the decimal they are written as.
"""
import ast
import os
from fractions import Fraction

from . import common
from .pygen import Unsupported, find, match_template, strip_doc
from .pygen_c10 import TrQ, key_of

ELT = 'gnpy/core/elements.py'
PAR = 'gnpy/core/parameters.py'
NET = 'gnpy/core/network.py'

LOC = "{'location': self.metadata['location']._asdict()}"

EDFA = f"""
tilt_target = None
if self.tilt_target is not None:
    tilt_target = 0 if self.tilt_target == -0.0 else self.tilt_target
_to_json = {{
    'uid': self.uid,
    'type': type(self).__name__,
    'type_variety': self.params.type_variety,
    'operational': {{
        'gain_target': H_gain,
        'delta_p': H_dp,
        'tilt_target': H_tilt,
        'out_voa': H_voa,
        'in_voa': H_invoa
    }},
    'metadata': {LOC}
}}
return _to_json
"""

FIBER = f"""
params = {{
    'length': H_len,
    'length_units': 'km',
    'att_in': self.params.att_in,
    'con_in': self.params.con_in,
    'con_out': self.params.con_out
}}
if isinstance(self.params.loss_coef, ndarray):
    params["loss_coef_per_frequency"] = [
        {{"frequency": frequency, "loss_coef_value": round(loss * 1e3, 6)}}
        for frequency, loss in zip(self.params.f_loss_ref, self.params.loss_coef)]
else:
    params["loss_coef"] = H_lc
if self.params.pmd_coef_defined:
    params['pmd_coef'] = self.params.pmd_coef
if H_lumped:
    params['lumped_losses'] = [{{'position': lumped['position'], 'loss': lumped['loss']}}
                               for lumped in self.params.lumped_losses]
return {{'uid': self.uid,
        'type': type(self).__name__,
        'type_variety': self.type_variety,
        'params': params,
        'metadata': {LOC}
        }}
"""

ROADM = f"""
if self.target_pch_out_dbm is not None:
    equalisation, value = 'target_pch_out_db', self.target_pch_out_dbm
elif self.target_psd_out_mWperGHz is not None:
    equalisation, value = 'target_psd_out_mWperGHz', self.target_psd_out_mWperGHz
elif self.target_out_mWperSlotWidth is not None:
    equalisation, value = 'target_out_mWperSlotWidth', self.target_out_mWperSlotWidth
else:
    assert False, H_msg
to_json = {{
    'uid': self.uid,
    'type': type(self).__name__,
    'type_variety': self.type_variety,
    'params': {{
        equalisation: value,
        'restrictions': self.restrictions
    }},
    'metadata': {LOC}
}}
if self.per_degree_pch_out_dbm:
    to_json['params']['per_degree_pch_out_db'] = self.per_degree_pch_out_dbm
if self.per_degree_pch_psd:
    to_json['params']['per_degree_psd_out_mWperGHz'] = self.per_degree_pch_psd
if self.per_degree_pch_psw:
    to_json['params']['per_degree_psd_out_mWperSlotWidth'] = self.per_degree_pch_psw
if self.per_degree_impairments:
    to_json['params']['per_degree_impairments'] = list(self.per_degree_impairments.values())
if self.params.design_bands is not None:
    if H_bands:
        to_json['params']['design_bands'] = self.params.design_bands
if self.params.per_degree_design_bands:
    to_json['params']['per_degree_design_bands'] = self.params.per_degree_design_bands
return to_json
"""

MULTI = f"""
return {{'uid': self.uid,
        'type': type(self).__name__,
        'type_variety': self.params.type_variety,
        'amplifiers': [{{
            'type_variety': amp.params.type_variety,
            'operational': {{
                'gain_target': round(amp.effective_gain, 6) if amp.effective_gain else None,
                'delta_p': amp.delta_p,
                'tilt_target': amp.tilt_target,
                'out_voa': amp.out_voa,
                'in_voa': amp.in_voa
            }}}} for amp in self.amplifiers.values()
        ],
        'metadata': {LOC}
        }}
"""

RAMANFIBER = "return dict(super().to_json, operational=self.operational)"

FUSED = f"""
return {{'uid': self.uid,
        'type': type(self).__name__,
        'params': {{
            'loss': self.loss
        }},
        'metadata': {LOC}
        }}
"""

ASDICT = """
class_dict = self.__class__.__dict__
instance_dict = self.__dict__
new_dict = {}
for key in class_dict:
    if isinstance(class_dict[key], property):
        new_dict[key] = instance_dict['_' + key]
return new_dict
"""

FIBER_ASDICT = """
dictionary = super().asdict()
dictionary['loss_coef'] = self.loss_coef * 1e3
dictionary['length_units'] = 'm'
if len(self.lumped_losses) == 0:
    dictionary.pop('lumped_losses')
if not self.raman_coefficient:
    dictionary.pop('raman_coefficient')
else:
    raman_frequency_offset = \\
        self.raman_coefficient.frequency_offset[self.raman_coefficient.frequency_offset >= 0]
    dictionary['raman_coefficient'] = {'g0': self._g0.tolist(),
                                       'frequency_offset': raman_frequency_offset.tolist(),
                                       'reference_frequency': self._raman_reference_frequency}
return dictionary
"""

PMD_DEFINED = "self._pmd_coef_defined = kwargs.get('pmd_coef_defined', kwargs['pmd_coef'] is True)"
PMD_COEF = "self._pmd_coef = kwargs['pmd_coef']"

SET_PARAMS = """
cls._shared_dict['nli_params'] = NLIParams(**sim_params.get('nli_params', {}))
cls._shared_dict['raman_params'] = RamanParams(**sim_params.get('raman_params', {}))
"""

ERG = """
if isinstance(node, elements.RamanFiber):
    if hasattr(node, "estimated_gain"):
        return node.estimated_gain
    f_min = equipment['SI']['default'].f_min
    f_max = equipment['SI']['default'].f_max
    roll_off = equipment['SI']['default'].roll_off
    baud_rate = equipment['SI']['default'].baud_rate
    power = dbm2watt(power_dbm if power_dbm is not None else equipment['SI']['default'].power_dbm)
    spacing = equipment['SI']['default'].spacing
    tx_osnr = equipment['SI']['default'].tx_osnr
    spacing = spacing * 3
    power = power * 3
    sim_params = H_sim
    if hasattr(node, "estimated_gain"):
        return node.estimated_gain
    spectral_info = create_input_spectral_information(f_min=f_min, f_max=f_max, roll_off=roll_off,
                                                      baud_rate=baud_rate, tx_power=power, spacing=spacing,
                                                      tx_osnr=tx_osnr)
    pin = watt2dbm(sum(spectral_info.signal))
    attenuation_in_db = node.params.con_in + node.params.att_in
    spectral_info.apply_attenuation_db(attenuation_in_db)
    save_sim_params = {"raman_params": SimParams._shared_dict['raman_params'].to_json(),
                       "nli_params": SimParams._shared_dict['nli_params'].to_json()}
    SimParams.set_params(sim_params)
    stimulated_raman_scattering = RamanSolver.calculate_stimulated_raman_scattering(spectral_info, node)
    attenuation_fiber = stimulated_raman_scattering.loss_profile[:spectral_info.number_of_channels, -1]
    spectral_info.apply_attenuation_lin(attenuation_fiber)
    attenuation_out_db = node.params.con_out
    spectral_info.apply_attenuation_db(attenuation_out_db)
    pout = watt2dbm(sum(spectral_info.signal))
    estimated_loss = pin - pout
    estimated_gain = node.loss - estimated_loss
    if power_dbm is not None:
        node.estimated_gain = estimated_gain
    SimParams.set_params(save_sim_params)
    return round(estimated_gain, 2)
return 0.0
"""

HEADER = """(* GENERATED on every run by harness/pygen_c17.py from gnpy/core/elements.py, parameters.py and network.py of /repo -
   do not edit. *)
From Coq Require Import QArith Qminmax.
From Verif Require Import Prelude Model.Chain Model.Redesign.
Open Scope Q_scope.

(* names the translator of harness/pygen_c09.py uses, in terms of Model/Redesign.v *)
Definition c_voa_step (c : scfg) : Q := s_vstep c.
Definition c_voa_margin (c : scfg) : Q := s_margin c.
Definition round2float (x step : Q) : Q := r2f x step.
"""


class TrJ(TrQ):
    """TrQ + `e if x is not None else None` over an option (x in optvars: source key -> Gallina option variable; inside e
    the key stands for the value v), round(x, n) -> round_dec n, a bare optional key -> the option itself"""

    def __init__(self, attr, optvars):
        super().__init__(attr=attr, names={})
        self.optvars = optvars

    def e(self, n):
        if isinstance(n, ast.IfExp):
            t = n.test
            if isinstance(t, ast.Compare) and len(t.ops) == 1 and isinstance(t.ops[0], ast.IsNot) \
                    and isinstance(t.comparators[0], ast.Constant) and t.comparators[0].value is None \
                    and isinstance(n.orelse, ast.Constant) and n.orelse.value is None:
                k = key_of(t.left)
                if k not in self.optvars:
                    raise Unsupported(f'test of {k}')
                inner = TrJ(dict(self.attr, **{k: 'v'}), {})
                inner.names = dict(self.names, **{k: 'v'})
                return f'(match {self.optvars[k]} with Some v => Some {inner.e(n.body)} | None => None end)'
            raise Unsupported('conditional expression other than `e if x is not None else None`')
        if isinstance(n, ast.Call) and isinstance(n.func, ast.Name) and n.func.id == 'round' and len(n.args) == 2 \
                and isinstance(n.args[1], ast.Constant) and isinstance(n.args[1].value, int) and not n.keywords:
            return f'(round_dec {n.args[1].value} {self.e(n.args[0])})'
        if isinstance(n, (ast.Name, ast.Attribute)) and key_of(n) in self.optvars:
            return self.optvars[key_of(n)]
        if isinstance(n, ast.Name) and n.id in self.names:
            return self.names[n.id]
        return super().e(n)


def jv(node):
    """a Python literal of a keyword dictionary -> Model.Redesign.jv"""
    if isinstance(node, ast.Constant):
        v = node.value
        if v is None:
            return 'JNone'
        if isinstance(v, bool):
            return f'(JB {"true" if v else "false"})'
        if isinstance(v, int):
            return f'(JZ {v})' if v >= 0 else f'(JZ ({v}))'
        if isinstance(v, float):
            fr = Fraction(repr(v))
            if fr < 0:
                raise Unsupported('negative float')
            return f'(JQ (inject_Z {fr.numerator}))' if fr.denominator == 1 else f'(JQ ({fr.numerator} # {fr.denominator}))'
        if isinstance(v, str) and '"' not in v and '\\' not in v:
            return f'(JS "{v}")'
    raise Unsupported('literal ' + ast.dump(node)[:80])


def kw_of(d):
    if not isinstance(d, ast.Dict):
        raise Unsupported('not a dictionary literal')
    items = []
    for k, v in zip(d.keys, d.values):
        if not (isinstance(k, ast.Constant) and isinstance(k.value, str)):
            raise Unsupported('dictionary key')
        items.append(f'("{k.value}", {jv(v)})')
    return '[' + '; '.join(items) + ']%string'


def strlist(xs):
    return '[' + '; '.join(f'"{x}"' for x in xs) + ']%string'


def is_property(fn):
    return any(isinstance(d, ast.Name) and d.id == 'property' for d in fn.decorator_list)


def frozen_params(repo=None):
    """Parameters.asdict / FiberParams.asdict / pmd_coef(_defined) of gnpy/core/parameters.py against their templates;
    returns the names of the FiberParams properties in source order (the keys asdict() copies)"""
    repo = repo or common.REPO
    par = ast.parse(open(os.path.join(repo, PAR)).read())
    match_template(ASDICT, strip_doc(find(par, 'Parameters.asdict').body), 'Parameters.asdict')
    match_template(FIBER_ASDICT, strip_doc(find(par, 'FiberParams.asdict').body), 'FiberParams.asdict')
    cls = find(par, 'FiberParams')
    props = []
    for n in cls.body:
        if isinstance(n, ast.FunctionDef) and is_property(n):
            want = ast.parse(f'return self._{n.name}').body
            if ast.dump(strip_doc(n.body)[0]) != ast.dump(want[0]) or len(strip_doc(n.body)) != 1:
                raise Unsupported(f'FiberParams.{n.name} is not `return self._{n.name}`')
            props.append(n.name)
        elif isinstance(n, ast.Assign):
            raise Unsupported('class attribute in FiberParams')
    init = find(par, 'FiberParams.__init__')
    for src in (PMD_DEFINED, PMD_COEF):
        want = ast.dump(ast.parse(src).body[0])
        if sum(1 for s in ast.walk(init) if isinstance(s, ast.Assign) and ast.dump(s) == want) != 1:
            raise Unsupported(f'FiberParams.__init__: `{src}`')
    for s in ast.walk(init):
        if isinstance(s, ast.Assign) and any(isinstance(t, ast.Attribute) and key_of(t) == 'self.pmd_coef_defined' for t in s.targets):
            raise Unsupported('FiberParams.__init__ assigns pmd_coef_defined directly')
    return props


def params_class(par, name, lower=()):
    """__init__(self, k=default, ...) storing self.k = k (k.lower() for the names in `lower`), to_json returning
    {k: self.k}: returns (defaults kw term, keys)"""
    init = find(par, f'{name}.__init__')
    args = [a.arg for a in init.args.args]
    if args[0] != 'self' or len(init.args.defaults) != len(args) - 1 or init.args.kwarg or init.args.vararg or init.args.kwonlyargs:
        raise Unsupported(f'signature of {name}.__init__')
    body = strip_doc(init.body)
    want = [f'self.{a} = {a}.lower()' if a in lower else f'self.{a} = {a}' for a in args[1:]]
    if [ast.dump(s) for s in body] != [ast.dump(ast.parse(w).body[0]) for w in want]:
        raise Unsupported(f'{name}.__init__ does not store its arguments one by one')
    defaults = '[' + '; '.join(f'("{a}", {jv(d)})' for a, d in zip(args[1:], init.args.defaults)) + ']%string'
    tj = strip_doc(find(par, f'{name}.to_json').body)
    if len(tj) != 1 or not isinstance(tj[0], ast.Return) or not isinstance(tj[0].value, ast.Dict):
        raise Unsupported(f'{name}.to_json')
    keys = []
    for k, v in zip(tj[0].value.keys, tj[0].value.values):
        if not (isinstance(k, ast.Constant) and isinstance(k.value, str) and key_of(v) == f'self.{k.value}'):
            raise Unsupported(f'{name}.to_json: an entry is not "k": self.k')
        keys.append(k.value)
    return defaults, keys


def generate(repo=None):
    repo = repo or common.REPO
    elt = ast.parse(open(os.path.join(repo, ELT)).read())
    par = ast.parse(open(os.path.join(repo, PAR)).read())
    net = ast.parse(open(os.path.join(repo, NET)).read())
    out = [HEADER]

    # ---- Edfa.to_json
    fn = find(elt, 'Edfa.to_json')
    if not is_property(fn):
        raise Unsupported('Edfa.to_json is not a property')
    b = match_template(EDFA, strip_doc(fn.body), 'Edfa.to_json')
    opt = {'self.effective_gain': 'gain', 'self.delta_p': 'dp', 'tilt_target': 'tilt', 'self.out_voa': 'voa',
           'self.in_voa': 'in_voa'}
    t = TrJ({}, opt)
    out.append('(* elements.Edfa.to_json: the operational block (effective_gain, delta_p, tilt_target, out_voa, in_voa as '
               'options; the local tilt_target is self.tilt_target with -0.0 written 0) *)')
    for name, h in (('gain', 'H_gain'), ('dp', 'H_dp'), ('tilt', 'H_tilt'), ('voa', 'H_voa'), ('invoa', 'H_invoa')):
        out.append(f'Definition g_edfa_{name} (gain dp tilt voa in_voa : option Q) : option Q := {t.e(b[h])}.')
    out.append('')

    # ---- Fiber.to_json
    fn = find(elt, 'Fiber.to_json')
    b = match_template(FIBER, strip_doc(fn.body), 'Fiber.to_json')
    t = TrJ({'self.params.length': 'len', 'self.params.loss_coef': 'lc'}, {})
    out.append('(* elements.Fiber.to_json: length in km, loss_coef in dB/km, whether lumped_losses (n of them) are exported; '
               'pmd_coef exported iff params.pmd_coef_defined (template) *)')
    out.append(f'Definition g_fiber_len_km (len : Q) : Q := {t.e(b["H_len"])}.')
    out.append(f'Definition g_fiber_lc_km (lc : Q) : Q := {t.e(b["H_lc"])}.')
    out.append(f'Definition g_fiber_lumped_exported (n : Z) : bool := {len_test(b["H_lumped"], "self.params.lumped_losses")}.\n')

    # ---- Roadm.to_json
    b = match_template(ROADM, strip_doc(find(elt, 'Roadm.to_json').body), 'Roadm.to_json')
    out.append('(* elements.Roadm.to_json: whether the n node-level design bands are exported *)')
    out.append(f'Definition g_roadm_bands_exported (n : Z) : bool := {len_test(b["H_bands"], "self.params.design_bands")}.\n')

    # ---- the other exports: templates
    for qual, tmpl in (('Multiband_amplifier.to_json', MULTI), ('RamanFiber.to_json', RAMANFIBER), ('Fused.to_json', FUSED)):
        match_template(tmpl, strip_doc(find(elt, qual).body), qual)
        out.append(f'(* elements.{qual} matches its template *)')
    out.append('')

    # ---- parameters
    props = frozen_params(repo)
    out.append('(* parameters.FiberParams: its properties, i.e. the keys Parameters.asdict copies for a split fibre '
               '(asdict / FiberParams.asdict / pmd_coef_defined match their templates) *)')
    out.append(f'Definition g_fiberparams_properties : list string :=\n  {strlist(props)}.\n')
    rd, rk = params_class(par, 'RamanParams')
    nd, nk = params_class(par, 'NLIParams', lower=('method',))
    out.append('(* parameters.RamanParams / NLIParams: defaults of __init__, keys of to_json *)')
    out.append(f'Definition g_raman_defaults : kw := {rd}.')
    out.append(f'Definition g_raman_keys : list string := {strlist(rk)}.')
    out.append(f'Definition g_nli_defaults : kw := {nd}.')
    out.append(f'Definition g_nli_keys : list string := {strlist(nk)}.\n')
    fn = find(par, 'SimParams.set_params')
    match_template(SET_PARAMS, strip_doc(fn.body), 'SimParams.set_params')
    out.append('(* parameters.SimParams.set_params matches its template *)\n')

    # ---- amplifier design arithmetic: templates and translator of the C09 tie, obligations against Model/Redesign.v
    from .pygen_c09 import CG, SO, VOA, TrP
    tp = TrP()

    def same(node, src, what):
        if ast.dump(node) != ast.dump(ast.parse(src, mode='eval').body):
            raise Unsupported(f'{what} is no longer `{src}`')
    fn = find(net, 'compute_gain_power_and_tilt_target')
    if [a.arg for a in fn.args.args] != ['node', 'prev_node', 'next_node', 'power_mode', 'prev_voa', 'prev_dp',
                                         'pref_total_db', 'network', 'equipment', 'deviation_db', 'tilt_target']:
        raise Unsupported('signature of compute_gain_power_and_tilt_target')
    b = match_template(CG, strip_doc(fn.body), 'compute_gain_power_and_tilt_target')
    same(b['H_mode'], 'node.effective_gain is None or power_mode', 'the mode test of compute_gain_power_and_tilt_target')
    same(b['H_gain_gm'], 'node.effective_gain', 'the imposed gain of compute_gain_power_and_tilt_target')
    out.append('(* network.compute_gain_power_and_tilt_target (t = target_power(..), u = operational.delta_p; the gain-mode '
               'branch is taken iff a gain is imposed and power_mode is off: template) *)')
    out.append(f'Definition g_dp_rule (t voa : Q) : Q := {tp.e(b["H_dp_rule"])}.')
    out.append(f'Definition g_dp_user (u : Q) : Q := {tp.e(b["H_dp_user"])}.')
    out.append(f'Definition g_gain_pm (node_loss deviation_db dp prev_dp prev_voa in_voa : Q) : Q := {tp.e(b["H_gain_pm"])}.')
    out.append(f'Definition g_dp_gm (prev_dp node_loss deviation_db prev_voa gain_target in_voa : Q) : Q := {tp.e(b["H_dp_gm"])}.')
    out.append(f'Definition g_power_target (pref_total dp : Q) : Q := {tp.e(b["H_pt"])}.\n')
    b = match_template(SO, strip_doc(find(net, 'set_one_amplifier').body), 'set_one_amplifier')
    out.append('(* network.set_one_amplifier: power reduction of an amplifier with imposed type_variety; (dp, voa) returned '
               '(template) *)')
    out.append(f'Definition g_red_pm (p_max pref_total dp : Q) : Q := {tp.e(b["H_red_pm"])}.')
    out.append(f'Definition g_red_gm (p_max pref_total prev_dp node_loss prev_voa gain_target : Q) : Q :=\n'
               f'  let pout := {tp.e(b["H_pout"])} in {tp.e(b["H_red_gm"])}.\n')
    fn = find(net, 'set_amplifier_voa')
    if [a.arg for a in fn.args.args] != ['amp', 'power_target', 'power_mode', 'voa_margin', 'voa_step']:
        raise Unsupported('signature of set_amplifier_voa')
    b = match_template(VOA, strip_doc(fn.body), 'set_amplifier_voa')
    out.append('(* network.set_amplifier_voa: the automatic output VOA *)')
    out.append(f'Definition g_auto_voa (c : scfg) (pmax gmax pt gain : Q) : Q :=\n  let voa := {tp.e(b["H_raw"])} in\n'
               f'  let voa := {tp.e(b["H_voa"])} in\n  voa.\n')

    # ---- estimate_raman_gain
    fn = find(net, 'estimate_raman_gain')
    b = match_template(ERG, strip_doc(fn.body), 'estimate_raman_gain')
    sim = b['H_sim']
    if not isinstance(sim, ast.Dict) or not all(isinstance(k, ast.Constant) for k in sim.keys):
        raise Unsupported('estimate_raman_gain: sim_params')
    d = {k.value: v for k, v in zip(sim.keys, sim.values)}
    if set(d) - {'raman_params', 'nli_params'}:
        raise Unsupported('estimate_raman_gain: sim_params keys')

    def okw(k):
        return f'(Some {kw_of(d[k])})' if k in d else 'None'
    out.append('(* network.estimate_raman_gain: SimParams saved (to_json of both entries) before set_params(sim_params), '
               'restored before the rounded estimate is returned (template); the settings in force during the solver call *)')
    out.append(f'Definition g_during_nli : option kw := {okw("nli_params")}.')
    out.append(f'Definition g_during_raman : option kw := {okw("raman_params")}.')
    return '\n'.join(out) + '\n'


def len_test(node, key):
    """`len(<key>) > k` / `>= k` -> a test on n"""
    if isinstance(node, ast.Compare) and len(node.ops) == 1 and isinstance(node.left, ast.Call) \
            and isinstance(node.left.func, ast.Name) and node.left.func.id == 'len' and len(node.left.args) == 1 \
            and key_of(node.left.args[0]) == key and isinstance(node.comparators[0], ast.Constant) \
            and isinstance(node.comparators[0].value, int) and not isinstance(node.comparators[0].value, bool):
        k = node.comparators[0].value
        k = f'({k})' if k < 0 else str(k)
        op = node.ops[0]
        if isinstance(op, ast.Gt):
            return f'({k} <? n)%Z'
        if isinstance(op, ast.GtE):
            return f'({k} <=? n)%Z'
        if isinstance(op, ast.NotEq):
            return f'(negb ({k} =? n)%Z)'
    raise Unsupported('length test ' + ast.dump(node)[:120])


def regenerate():
    """(Re)write coq/theories/Gen/RedesignGen.v when its content changed. Returns (ok, message)."""
    dst = os.path.join(common.COQ, 'theories', 'Gen', 'RedesignGen.v')
    try:
        txt = generate()
    except (Unsupported, SyntaxError, OSError, KeyError, ImportError) as e:
        return False, f'translation failed: {type(e).__name__}: {e}'
    os.makedirs(os.path.dirname(dst), exist_ok=True)
    if not os.path.exists(dst) or open(dst).read() != txt:
        with open(dst, 'w') as f:
            f.write(txt)
    return True, 'ok'


if __name__ == '__main__':
    print(generate())
