"""Translator tie for C19: /repo source -> coq/theories/Gen/ResponseGen.v (regenerated on every run).

Second tie between gnpy's reporting code and Model/Response.v (the behavioural correspondence of harness/c19.py is the
first).  Proofs/ResponseGen.v proves every generated definition equal to the hand-written model, so an edit of the
source that changes a translated decision breaks a proof obligation, and an edit that leaves the supported shapes makes
the translation fail (reported as a broken tie).  Built on harness/pygen.py (unify / match_template / find / Unsupported).

What is read, from gnpy/topology/request.py unless said otherwise (T = translated into Gallina, M = matched statement by
statement against a template, the holes H_x being what is translated):
  BLOCKING_NOPATH / _NOMODE / _NOSPECTRUM, the *_STRING metric names      T  module constants -> g_BLOCKING_*, names
  ResultElement.pathresult        M  try/if/else/except skeleton;            T  the blocking class tested, the three dicts
  ResultElement.path_properties   M  inner def + if/else;                    T  the bidir test, the two dicts, the metric
                                     list: every entry {metric-type, accumulative-value}, each value one of
                                     round(mean|min|max(pth[-1].<array>), 2) | get_penalty_from_receiver(pth[-1], key) |
                                     req.power | req.path_bandwidth            -> g_expected_metrics
  ResultElement.detailed_path_json M the loop skeleton (index bookkeeping, appends, isinstance test);
                                  T  the hop / label / transponder dicts, the two ServiceError guards
  get_penalty_from_receiver       M  whole body (round(mean(..), 2), isinf test); T the two strings
  jsontocsv (the row loop)        M  whole loop body;  T the test deciding whether a blocked response carries path
                                     properties, the Pass? expression, the positions given to _get_srce_dest_trx
  _jsontopath_metric              T  which metric each returned value reads and whether it is rounded again
  _jsontoparams                   M  whole body (hop ids, label strings, mode lookup);  T the origin of each returned value,
                                     the two separators
  compare_reqs                    M  the synchronisation-group part;  T the chain of comparisons -> list of compared
                                     fields (each conjunct must be req1.F == req2.F, the last one same_disj)
  requests_aggregation            M  whole body;  T the absorb condition, the joined id, bandwidth sum, N / M concatenation
  gnpy/tools/worker_utils.py planning   T  the sequence of steps (callee, arguments, targets), logger calls skipped
Rules that are part of the trusted translator: a dict literal becomes JObj with the same keys in the same order;
`round(mean(a), 2)` of an array that may hold +inf followed by `isinf` becomes the model's `fins` case split;
try: <uses blocking_reason> except AttributeError becomes the match on `o_block`; `x != ''` on a CSV value is CEmpty.
"""
import ast
import os

from . import common
from .pygen import Unsupported, unify, match_template, strip_doc, find, dotted

REQ = 'gnpy/topology/request.py'
WU = 'gnpy/tools/worker_utils.py'

# the compared fields, in the order the harness builds `a_key` (harness/c19.py KEY_FIELDS must be this list)
ARRAYS = {'snr': 'r_snr', 'snr_01nm': 'r_snr01', 'osnr_ase': 'r_osnr', 'osnr_ase_01nm': 'r_osnr01'}
PENALTY_KEYS = {'pdl': 'r_pdl', 'chromatic_dispersion': 'r_cd', 'pmd': 'r_pmd'}


def slit(s):
    if '"' in s or '\\' in s or '\n' in s:
        raise Unsupported(f'string constant {s!r}')
    return f'"{s}"%string'


def module_constants(tree):
    """NAME = 'str' and NAME = ['str', ...] at module level (the last assignment wins, as in Python)"""
    strs, lists = {}, {}
    for s in tree.body:
        if isinstance(s, ast.Assign) and len(s.targets) == 1 and isinstance(s.targets[0], ast.Name):
            n, v = s.targets[0].id, s.value
            if isinstance(v, ast.Constant) and isinstance(v.value, str):
                strs[n] = v.value
            elif isinstance(v, ast.List) and all(isinstance(x, ast.Constant) and isinstance(x.value, str) for x in v.elts):
                lists[n] = [x.value for x in v.elts]
    return strs, lists


class J:
    """dict / list literals -> json terms.  leaf: source text -> Gallina json term; mon: source text -> (var, monadic
    Gallina call, json term of the var), hoisted in evaluation order"""

    def __init__(self, leaf, mon, consts):
        self.leaf, self.mon, self.consts = leaf, mon, consts
        self.pre = []

    def j(self, n):
        src = ast.unparse(n)
        if src in self.mon:
            var, call, term = self.mon[src]
            self.pre.append((var, call))
            return term
        if src in self.leaf:
            return self.leaf[src]
        if isinstance(n, ast.Dict):
            items = []
            for k, v in zip(n.keys, n.values):
                if not (isinstance(k, ast.Constant) and isinstance(k.value, str)):
                    raise Unsupported('dict key ' + ast.unparse(k) if k is not None else 'dict unpacking')
                items.append(f'({slit(k.value)}, {self.j(v)})')
            return 'JObj [' + '; '.join(items) + ']'
        if isinstance(n, ast.Constant) and isinstance(n.value, str):
            return f'JStr {slit(n.value)}'
        if isinstance(n, ast.Name) and n.id in self.consts:
            return f'JStr {slit(self.consts[n.id])}'
        if isinstance(n, ast.ListComp):
            want = ast.parse('[H_elt for n, m in zip(self.path_request.N, self.path_request.M)]').body[0].value
            b = {}
            if not unify(want, n, b):
                raise Unsupported('list comprehension ' + src)
            inner = J({'n': 'jint (fst p)', 'm': 'jint (snd p)'}, {}, self.consts)
            return f'JArr (map (fun p : Z * Z => {inner.j(b["H_elt"])}) nm)'
        raise Unsupported('json value ' + src)

    def wrap(self, term):
        for var, call in reversed(self.pre):
            term = f'let* {var} := {call} in\n  {term}'
        self.pre = []
        return term


def cond(n, atoms):
    """boolean conditions over a fixed vocabulary of atoms (source text -> Gallina bool)"""
    src = ast.unparse(n)
    if src in atoms:
        return atoms[src]
    if isinstance(n, ast.BoolOp):
        op = ' && ' if isinstance(n.op, ast.And) else ' || '
        return '(' + op.join(cond(v, atoms) for v in n.values) + ')'
    if isinstance(n, ast.UnaryOp) and isinstance(n.op, ast.Not):
        return f'(negb {cond(n.operand, atoms)})'
    raise Unsupported('condition ' + src)


# ------------------------------------------------------------------ ResultElement
PATHRESULT_TEMPLATE = """
try:
    if self.path_request.blocking_reason in H_class:
        response = H_d1
        return response
    else:
        response = H_d2
        return response
except AttributeError:
    response = H_d3
    return response
"""

PATH_PROPERTIES_TEMPLATE = """
def path_metric(pth, req):
    H_doc
    return H_metrics
if H_bidir:
    path_properties = H_d1
else:
    path_properties = H_d2
return path_properties
"""

DPJ_TEMPLATE = """
index = 0
pro_list = []
for element in self.computed_path:
    temp = H_hop
    pro_list.append(temp)
    index += 1
    if not hasattr(self.path_request, 'blocking_reason'):
        if H_guard1:
            raise ServiceError(H_msg1)
        temp = H_label
        pro_list.append(temp)
        index += 1
    elif H_guard2:
        raise ServiceError(H_msg2)
    if isinstance(element, Transceiver):
        temp = H_tsp
        pro_list.append(temp)
        index += 1
return pro_list
"""

PENALTY_TEMPLATE = """
if impairment in receiver.penalties:
    penalty_value = round(mean(receiver.penalties[impairment]), 2)
    if isinf(penalty_value):
        return H_inf
    return penalty_value
else:
    return H_none
"""


def metric_value(v):
    """one 'accumulative-value' of path_metric -> Gallina term of type option mval"""
    b = {}
    for fn, red in (('mean', 'qmean'), ('min', 'qmin_list'), ('max', 'qmax_list')):
        want = ast.parse(f'round({fn}(pth[-1].ATTR), 2)').body[0].value
        if isinstance(v, ast.Call) and ast.unparse(v.func) == 'round' and len(v.args) == 2 and not v.keywords \
                and isinstance(v.args[0], ast.Call) and isinstance(v.args[0].func, ast.Name) and v.args[0].func.id == fn \
                and len(v.args[0].args) == 1 and isinstance(v.args[0].args[0], ast.Attribute):
            arr = v.args[0].args[0]
            want.args[0].args[0].attr = arr.attr
            if unify(want, v, b):
                if arr.attr not in ARRAYS:
                    raise Unsupported(f'receiver array {arr.attr}')
                return f'mv_round ({red} ({ARRAYS[arr.attr]} r))'
    if isinstance(v, ast.Call) and ast.unparse(v.func) == 'get_penalty_from_receiver' and len(v.args) == 2 \
            and ast.unparse(v.args[0]) == 'pth[-1]' and isinstance(v.args[1], ast.Constant) and not v.keywords:
        if v.args[1].value not in PENALTY_KEYS:
            raise Unsupported(f'penalty key {v.args[1].value!r}')
        return f'g_penalty_val ({PENALTY_KEYS[v.args[1].value]} r)'
    src = ast.unparse(v)
    if src == 'req.power':
        return 'Some (MNum (o_power o))'
    if src == 'req.path_bandwidth':
        return 'Some (MNum (o_bw o))'
    raise Unsupported('metric value ' + src)


def gen_result_element(tree, consts, lists, out):
    cls = find(tree, 'ResultElement')
    # ---- get_penalty_from_receiver
    fn = find(tree, 'get_penalty_from_receiver')
    b = match_template(PENALTY_TEMPLATE, strip_doc(fn.body), 'get_penalty_from_receiver')
    for h in ('H_inf', 'H_none'):
        if not (isinstance(b[h], ast.Constant) and isinstance(b[h].value, str)):
            raise Unsupported('get_penalty_from_receiver returns a non-string for a non-number')
    out.append(f'''(* {REQ}: get_penalty_from_receiver (the receiver's array of one impairment; None = not in the dict) *)
Definition g_penalty_val (p : option (list xq)) : option mval :=
  match p with
  | None => Some (MStr {slit(b["H_none"].value)})
  | Some l => match fins l with
              | Some ql => mv_round (qmean ql)
              | None => Some (MStr {slit(b["H_inf"].value)})
              end
  end.
''')
    # ---- path_properties: metric list
    fn = find(tree, 'ResultElement.path_properties')
    b = match_template(PATH_PROPERTIES_TEMPLATE, strip_doc(fn.body), 'ResultElement.path_properties')
    if not isinstance(b['H_metrics'], ast.List):
        raise Unsupported('path_metric does not return a list literal')
    ents, keyset = [], None
    for d in b['H_metrics'].elts:
        if not (isinstance(d, ast.Dict) and len(d.keys) == 2 and all(isinstance(k, ast.Constant) for k in d.keys)):
            raise Unsupported('metric entry ' + ast.unparse(d))
        ks = [k.value for k in d.keys]
        if keyset is None:
            keyset = ks
        if ks != keyset:
            raise Unsupported('metric entries with different keys')
        name = d.values[0]
        if not (isinstance(name, ast.Name) and name.id in consts):
            raise Unsupported('metric type ' + ast.unparse(name))
        ents.append(f'({slit(consts[name.id])}, {metric_value(d.values[1])})')
    out.append(f'''(* {REQ}: ResultElement.path_properties, inner path_metric(pth, req): r = figures of pth[-1] *)
Definition g_metric_obj (nv : string * mval) : json :=
  JObj [({slit(keyset[0])}, JStr (fst nv)); ({slit(keyset[1])}, mval_json (snd nv))].
Definition g_expected_metrics (r : rxfig) (o : obs) : option (list (string * mval)) :=
  oseq [{(";" + chr(10) + "        ").join(ents)}].
Definition g_path_metric (r : option rxfig) (o : obs) : res json :=
  match r with
  | None => Err "IndexError:empty path"
  | Some rx => match g_expected_metrics rx o with
               | None => Err "ValueError:empty receiver array"
               | Some l => Ok (JArr (map g_metric_obj l))
               end
  end.
''')
    # ---- detailed_path_json
    fn = find(tree, 'ResultElement.detailed_path_json')
    d = match_template(DPJ_TEMPLATE, strip_doc(fn.body), 'ResultElement.detailed_path_json')
    jj = J({'index': 'jint index', 'element.uid': 'JStr uid'}, {}, consts)
    hop = jj.j(d['H_hop'])
    jj = J({'index': 'jint index'}, {}, consts)
    label = jj.j(d['H_label'])
    jj = J({'index': 'jint index', 'self.path_request.tsp': 'JStr ty', 'self.path_request.tsp_mode': 'ostr_json mode'}, {}, consts)
    tsp = jj.j(d['H_tsp'])
    atoms = {'self.path_request.M is None': 'isNone (o_M o)', 'self.path_request.N is None': 'isNone (o_N o)',
             'self.path_request.M is not None': 'negb (isNone (o_M o))',
             'self.path_request.N is not None': 'negb (isNone (o_N o))'}
    g1, g2 = cond(d['H_guard1'], atoms), cond(d['H_guard2'], atoms)
    out.append(f'''(* {REQ}: ResultElement.detailed_path_json *)
Definition g_hop_obj (index : Z) (uid : string) : json :=
  {hop}.
Definition g_label_obj (index : Z) (nm : list (Z * Z)) : json :=
  {label}.
Definition g_tsp_obj (index : Z) (ty : string) (mode : option string) : json :=
  {tsp}.
(* the loop: hop object; label object unless blocked; transponder object after a transceiver; index counts objects *)
Fixpoint g_dpj_loop (lab : option (list (Z * Z))) (ty : string) (mode : option string) (index : Z) (path : list hop)
  : list json :=
  match path with
  | [] => []
  | h :: t =>
      g_hop_obj index (h_uid h) ::
      match lab with
      | Some nm => g_label_obj (index + 1) nm ::
                   (if h_trx h then g_tsp_obj (index + 1 + 1) ty mode :: g_dpj_loop lab ty mode (index + 1 + 1 + 1) t
                    else g_dpj_loop lab ty mode (index + 1 + 1) t)
      | None => if h_trx h then g_tsp_obj (index + 1) ty mode :: g_dpj_loop lab ty mode (index + 1 + 1) t
                else g_dpj_loop lab ty mode (index + 1) t
      end
  end.
(* the two ServiceError guards *)
Definition g_labels_of (o : obs) : res (option (list (Z * Z))) :=
  match o_block o with
  | None => if {g1} then Err "ServiceError:request should have positive non null n and m values"
            else match o_N o, o_M o with
                 | Some n, Some m => Ok (Some (combine n m))
                 | _, _ => Err "ServiceError:request should have positive non null n and m values"
                 end
  | Some _ => if {g2} then Err "ServiceError:request should not have label M and N values at this point"
              else Ok None
  end.
Definition g_detailed_path_json (o : obs) : res (list json) :=
  match o_path o with
  | [] => Ok []
  | _ => let* lab := g_labels_of o in Ok (g_dpj_loop lab (o_tsp o) (o_mode o) 0 (o_path o))
  end.
''')
    # ---- path_properties: the two dicts
    bidir = cond(b['H_bidir'], {'self.path_request.bidir': 'o_bidir o'})
    mon = {'path_metric(self.computed_path, self.path_request)': ('pm', 'g_path_metric (o_fwd o) o', 'pm'),
           'path_metric(self.reversed_computed_path, self.path_request)': ('za', 'g_path_metric (o_rev o) o', 'za'),
           'self.detailed_path_json': ('pro', 'g_detailed_path_json o', 'JArr pro')}
    jj = J({}, mon, consts)
    d1 = jj.wrap('Ok (' + jj.j(b['H_d1']) + ')')
    d2 = jj.wrap('Ok (' + jj.j(b['H_d2']) + ')')
    out.append(f'''(* {REQ}: ResultElement.path_properties *)
Definition g_path_properties (o : obs) : res json :=
  if {bidir} then
  {d1}
  else
  {d2}.
''')
    # ---- pathresult
    fn = find(tree, 'ResultElement.pathresult')
    p = match_template(PATHRESULT_TEMPLATE, strip_doc(fn.body), 'ResultElement.pathresult')
    if not (isinstance(p['H_class'], ast.Name) and p['H_class'].id in lists):
        raise Unsupported('pathresult: blocking class ' + ast.unparse(p['H_class']))
    leaf = {'self.path_id': 'JStr (o_id o)', 'self.path_request.blocking_reason': 'JStr r'}
    mon = {'self.path_properties': ('pp', 'g_path_properties o', 'pp')}
    jj = J(leaf, mon, consts)
    r1 = jj.wrap('Ok (' + jj.j(p['H_d1']) + ')')
    r2 = jj.wrap('Ok (' + jj.j(p['H_d2']) + ')')
    jj = J({'self.path_id': 'JStr (o_id o)'}, mon, consts)
    r3 = jj.wrap('Ok (' + jj.j(p['H_d3']) + ')')
    out.append(f'''(* {REQ}: ResultElement.pathresult (AttributeError of a missing blocking_reason = served) *)
Definition g_pathresult (o : obs) : res json :=
  match o_block o with
  | Some r =>
      if mem_s r g_{p['H_class'].id} then
        {r1}
      else
        {r2}
  | None =>
      {r3}
  end.
''')


# ------------------------------------------------------------------ jsontocsv
CSV_LOOP_TEMPLATE = """
default_values = ['' for _ in range(26)]
values = dict(zip(fieldnames, default_values))
values['response-id'] = pth_el['response-id']
if 'no-path' in pth_el.keys():
    no_path_reason = pth_el['no-path']['no-path']
    values[pass_field] = no_path_reason
    if H_reports_path:
        no_path_properties = pth_el['no-path']['path-properties']
        values['source'], values['destination'], values['transponder-type'], values['transponder-mode'] = \\
            _get_srce_dest_trx(no_path_properties['path-route-objects'], H_e1, H_r1)
        jsontoparamsvalues, cost = _jsontoparams(pth_el['no-path'], values['transponder-type'],
                                                 values['transponder-mode'], equipment)
        values.update(dict(zip(jsontoparamsfields, jsontoparamsvalues)))
        if 'z-a-path-metric' in no_path_properties.keys():
            values.update(dict(zip(rev_path_metric_fields, _jsontopath_metric(no_path_properties['z-a-path-metric']))))
        values['path_bandwidth'] = ''
else:
    path_properties = pth_el['path-properties']
    values['source'], values['destination'], values['transponder-type'], values['transponder-mode'] = \\
        _get_srce_dest_trx(path_properties['path-route-objects'], H_e2, H_r2)
    jsontoparamsvalues, cost = _jsontoparams(pth_el, values['transponder-type'], values['transponder-mode'], equipment)
    values.update(dict(zip(jsontoparamsfields, jsontoparamsvalues)))
    minosnr = values['min required OSNR (inc. margin)']
    rsnr_min = values['SNR-0.1nm (min)']
    rsnr = values['SNR-0.1nm (average)']
    values[pass_field] = H_pass
    values[nb_tsp_field] = ceil(values['path_bandwidth'] / values[bit_rate_field])
    values['total cost'] = values[nb_tsp_field] * cost
    if 'z-a-path-metric' in path_properties.keys():
        values.update(dict(zip(rev_path_metric_fields, _jsontopath_metric(path_properties['z-a-path-metric']))))
mywriter.writerow(values)
"""


def cell_cmp(n):
    if isinstance(n, ast.Compare) and len(n.ops) == 1 and isinstance(n.left, ast.Name) \
            and isinstance(n.comparators[0], ast.Name):
        a, b = n.left.id, n.comparators[0].id
        op = {ast.GtE: 'cell_ge', ast.Gt: 'cell_gt', ast.LtE: 'cell_le', ast.Lt: 'cell_lt'}.get(type(n.ops[0]))
        if op:
            return f'{op} {a} {b}'
    raise Unsupported('comparison of CSV values ' + ast.unparse(n))


def position(n, back):
    if back:
        if isinstance(n, ast.UnaryOp) and isinstance(n.op, ast.USub) and isinstance(n.operand, ast.Constant) \
                and isinstance(n.operand.value, int):
            return str(n.operand.value)
    elif isinstance(n, ast.Constant) and isinstance(n.value, int) and n.value >= 0:
        return str(n.value)
    raise Unsupported('position ' + ast.unparse(n))


def gen_csv(tree, consts, lists, out):
    fn = find(tree, 'jsontocsv')
    loops = [s for s in fn.body if isinstance(s, ast.For) and ast.unparse(s.iter) == "json_data['response']"
             and ast.unparse(s.target) == 'pth_el' and not s.orelse]
    if len(loops) != 1:
        raise Unsupported('jsontocsv: the loop over the responses')
    b = match_template(CSV_LOOP_TEMPLATE, loops[0].body, 'jsontocsv')
    t = b['H_reports_path']
    if not (isinstance(t, ast.Compare) and len(t.ops) == 1 and ast.unparse(t.left) == 'no_path_reason'
            and isinstance(t.comparators[0], ast.Name) and t.comparators[0].id in lists
            and isinstance(t.ops[0], (ast.In, ast.NotIn))):
        raise Unsupported('jsontocsv: test on the blocking reason ' + ast.unparse(t))
    test = f'mem_s no_path_reason g_{t.comparators[0].id}'
    if isinstance(t.ops[0], ast.NotIn):
        test = f'negb ({test})'
    p = b['H_pass']
    if not (isinstance(p, ast.IfExp) and ast.unparse(p.test) == "rsnr_min != ''"):
        raise Unsupported('jsontocsv: pass flag ' + ast.unparse(p))
    out.append(f'''(* {REQ}: jsontocsv, decisions of one row *)
Definition g_csv_reports_path (no_path_reason : string) : bool := {test}.
Definition g_csv_pass (rsnr_min rsnr minosnr : cell) : res bool :=
  match rsnr_min with CEmpty => {cell_cmp(p.orelse)} | _ => {cell_cmp(p.body)} end.
(* (emitter position, receiver position counted from the end): blocked response, served response *)
Definition g_csv_positions : (nat * nat) * (nat * nat) :=
  (({position(b["H_e1"], False)}, {position(b["H_r1"], True)}), ({position(b["H_e2"], False)}, {position(b["H_r2"], True)}))%nat.
''')
    # ---- _jsontopath_metric
    fn = find(tree, '_jsontopath_metric')
    body = strip_doc(fn.body)
    var = {}
    for s in body[:-1]:
        w = {}
        if not (unify(ast.parse('H_v = read_property(path_metric, H_c)').body[0], s, w) and isinstance(w['H_v'], ast.Name)
                and isinstance(w['H_c'], ast.Name) and w['H_c'].id in consts):
            raise Unsupported('_jsontopath_metric: ' + ast.unparse(s))
        var[w['H_v'].id] = consts[w['H_c'].id]
    ret = body[-1]
    if not (isinstance(ret, ast.Return) and isinstance(ret.value, ast.Tuple)):
        raise Unsupported('_jsontopath_metric: return')
    cols = []
    for e in ret.value.elts:
        w = {}
        if isinstance(e, ast.Name) and e.id in var:
            cols.append((var[e.id], 'CRaw'))
        elif unify(ast.parse('round(H_x, 2)').body[0].value, e, w):
            x = w['H_x']
            if isinstance(x, ast.Name) and x.id in var:
                cols.append((var[x.id], 'CRound'))
            elif unify(ast.parse('watt2dbm(H_p)').body[0].value, x, w) and isinstance(w['H_p'], ast.Name) \
                    and w['H_p'].id in var:
                cols.append((var[w['H_p'].id], 'CRoundDbm'))
            elif unify(ast.parse('H_b * 1e-09').body[0].value, x, w) and isinstance(w['H_b'], ast.Name) \
                    and w['H_b'].id in var:
                cols.append((var[w['H_b'].id], 'CRoundGiga'))
            else:
                raise Unsupported('_jsontopath_metric: ' + ast.unparse(e))
        else:
            raise Unsupported('_jsontopath_metric: ' + ast.unparse(e))
    out.append(f'''(* {REQ}: _jsontopath_metric: the metric each returned value reads and how it is printed *)
Definition g_jsontopath_cols : list (string * colfmt) :=
  [{"; ".join(f"({slit(n)}, {f})" for n, f in cols)}].
''')


JSONTOPARAMS_TEMPLATE = """
temp = []
for elem in path_response['path-properties']['path-route-objects']:
    if 'num-unnum-hop' in elem['path-route-object']:
        temp.append(elem['path-route-object']['num-unnum-hop']['node-id'])
pth = H_sep1.join(temp)
temp2 = []
for elem in path_response['path-properties']['path-route-objects']:
    if 'label-hop' in elem['path-route-object'].keys():
        temp2.append(f'{[e["N"] for e in elem["path-route-object"]["label-hop"]]}, '
                     + f'{[e["M"] for e in elem["path-route-object"]["label-hop"]]}')
temp2 = list(OrderedDict.fromkeys(temp2))
sptrm = H_sep2.join(temp2)
if trx_mode is not None:
    [minosnr, baud_rate, bit_rate, cost] = \\
        next([m['OSNR'], round(m['baud_rate'] * 1e-9, 2), round(m['bit_rate'] * 1e-9, 2), m['cost']]
             for m in equipment['Transceiver'][trx_type].mode if m['format'] == trx_mode)
else:
    [minosnr, baud_rate, bit_rate, cost] = ['', '', '', '']
H_unpack = _jsontopath_metric(path_response['path-properties']['path-metric'])
return H_values, cost
"""


def gen_jsontoparams(tree, out):
    fn = find(tree, '_jsontoparams')
    b = match_template(JSONTOPARAMS_TEMPLATE, strip_doc(fn.body), '_jsontoparams')
    for h in ('H_sep1', 'H_sep2'):
        if not (isinstance(b[h], ast.Constant) and isinstance(b[h].value, str)):
            raise Unsupported('_jsontoparams: separator')
    up = b['H_unpack']
    if not (isinstance(up, ast.Tuple) and all(isinstance(x, ast.Name) for x in up.elts)):
        raise Unsupported('_jsontoparams: values unpacked from _jsontopath_metric')
    pos = {x.id: k for k, x in enumerate(up.elts)}
    fixed = {'pth': 'path', 'sptrm': 'spectrum', 'baud_rate': 'mode:baud_rate', 'bit_rate': 'mode:bit_rate',
             "minosnr + equipment['SI']['default'].sys_margins": 'mode:OSNR+margin'}
    if not isinstance(b['H_values'], ast.Tuple):
        raise Unsupported('_jsontoparams: returned values')
    vals = []
    for e in b['H_values'].elts:
        src = ast.unparse(e)
        if src in pos:
            vals.append(f'metric:{pos[src]}')
        elif src in fixed:
            vals.append(fixed[src])
        else:
            raise Unsupported('_jsontoparams: returned value ' + src)
    out.append(f'''(* {REQ}: _jsontoparams: where each of the returned values comes from (metric:k = k-th value of
   _jsontopath_metric, mode:x = attribute of the transceiver mode, path / spectrum = the joined hop ids / label strings);
   every label object is printed as "[N...], [M...]", duplicates removed, joined with the separator *)
Definition g_jsontoparams_values : list string := [{"; ".join(slit(v) for v in vals)}].
Definition g_csv_separators : string * string := ({slit(b["H_sep1"].value)}, {slit(b["H_sep2"].value)}).
''')


# ------------------------------------------------------------------ aggregation
COMPARE_TEMPLATE = """
dis1 = [d for d in disjlist if req1.request_id in d.disjunctions_req]
dis2 = [d for d in disjlist if req2.request_id in d.disjunctions_req]
same_disj = False
if dis1 and dis2:
    temp1 = sorted(sorted(set(this_d.disjunctions_req) - {req1.request_id}) for this_d in dis1)
    temp2 = sorted(sorted(set(this_d.disjunctions_req) - {req2.request_id}) for this_d in dis2)
    if temp1 == temp2:
        same_disj = True
elif not dis2 and not dis1:
    same_disj = True
if H_chain:
    return True
else:
    return False
"""

AGG_TEMPLATE = """
local_list = pathreqlist.copy()
for req in pathreqlist:
    for this_r in local_list:
        if H_absorb:
            this_r.path_bandwidth += req.path_bandwidth
            this_r.N = H_N
            this_r.M = H_M
            temp_r_id = this_r.request_id
            this_r.request_id = H_id
            local_list.remove(req)
            for this_d in disjlist:
                if req.request_id in this_d.disjunctions_req:
                    this_d.disjunctions_req.remove(req.request_id)
                    this_d.disjunctions_req.append(this_r.request_id)
            for this_d in disjlist.copy():
                if temp_r_id in this_d.disjunctions_req:
                    disjlist.remove(this_d)
            break
return local_list, disjlist
"""


def gen_aggregation(tree, out):
    fn = find(tree, 'compare_reqs')
    b = match_template(COMPARE_TEMPLATE, strip_doc(fn.body), 'compare_reqs')
    ch = b['H_chain']
    if not (isinstance(ch, ast.BoolOp) and isinstance(ch.op, ast.And) and ast.unparse(ch.values[-1]) == 'same_disj'):
        raise Unsupported('compare_reqs: the comparison chain')
    fields = []
    for c in ch.values[:-1]:
        if not (isinstance(c, ast.Compare) and len(c.ops) == 1 and isinstance(c.ops[0], ast.Eq)
                and isinstance(c.left, ast.Attribute) and isinstance(c.comparators[0], ast.Attribute)
                and ast.unparse(c.left.value) == 'req1' and ast.unparse(c.comparators[0].value) == 'req2'
                and c.left.attr == c.comparators[0].attr):
            raise Unsupported('compare_reqs: conjunct ' + ast.unparse(c))
        fields.append(c.left.attr)
    from . import c19
    if fields != c19.KEY_FIELDS:
        raise Unsupported(f'compare_reqs compares {fields}; the harness builds the key from {c19.KEY_FIELDS}')
    out.append(f'''(* {REQ}: compare_reqs: the attributes compared with ==, in order (then same_disj) *)
Definition g_compare_fields : list string := [{"; ".join(slit(f) for f in fields)}].
Definition g_compare_reqs (r1 r2 : areq) (disj : disjs) : bool :=
  key_eqb (a_key r1) (a_key r2) && same_disj (a_id r1) (a_id r2) disj.
''')
    fn = find(tree, 'requests_aggregation')
    b = match_template(AGG_TEMPLATE, strip_doc(fn.body), 'requests_aggregation')
    atoms = {'req.request_id != this_r.request_id': 'negb (String.eqb (a_id req) (a_id this_r))',
             'compare_reqs(req, this_r, disjlist)': 'g_compare_reqs req this_r disj',
             'this_r.tsp_mode is not None': 'a_mode_set this_r'}
    absorb = cond(b['H_absorb'], atoms)

    def cat(n, attr, field):
        if ast.unparse(n) == f'this_r.{attr} + req.{attr}':
            return f'({field} this_r ++ {field} req)'
        raise Unsupported(f'requests_aggregation: new {attr} ' + ast.unparse(n))
    w = {}
    if not (unify(ast.parse("H_sep.join((this_r.request_id, req.request_id))").body[0].value, b['H_id'], w)
            and isinstance(w['H_sep'], ast.Constant) and isinstance(w['H_sep'].value, str)):
        raise Unsupported('requests_aggregation: joined id ' + ast.unparse(b['H_id']))
    out.append(f'''(* {REQ}: requests_aggregation: who absorbs, and what the absorbing request becomes *)
Definition g_can_absorb (req : areq) (disj : disjs) (this_r : areq) : bool :=
  {absorb}.
Definition g_merge (this_r req : areq) : areq :=
  mkA (a_tag this_r) (a_id this_r ++ {slit(w["H_sep"].value)} ++ a_id req)%string (a_members this_r ++ a_members req)
      (a_key this_r) (a_mode_set this_r) (a_bw this_r + a_bw req)%Q
      {cat(b["H_N"], "N", "a_N")} {cat(b["H_M"], "M", "a_M")} (a_bidir this_r).
''')


# ------------------------------------------------------------------ planning
def gen_planning(tree, out):
    fn = find(tree, 'planning')
    steps = []
    body = strip_doc(fn.body)
    tail = ast.parse('''
for i, rq in enumerate(rqs):
    if hasattr(rq, 'OSNR') and rq.OSNR:
        rq.osnr_with_sys_margin = rq.OSNR + equipment["SI"]["default"].sys_margins
result = [ResultElement(rq, pth, rpth) for rq, pth, rpth in zip(rqs, propagatedpths, reversed_propagatedpths)]
return oms_list, propagatedpths, reversed_propagatedpths, rqs, dsjn, result
''').body
    if len(body) < len(tail) or not unify(tail, body[-len(tail):], {}):
        raise Unsupported('planning: the end of the function (margin loop, ResultElement list, return)')
    for s in body[:-len(tail)]:
        if isinstance(s, ast.Expr) and isinstance(s.value, ast.Call) and ast.unparse(s.value.func).startswith('logger.'):
            continue
        if isinstance(s, ast.Assign) and len(s.targets) == 1:
            t = s.targets[0]
            targets = [t.id] if isinstance(t, ast.Name) else [x.id for x in t.elts] if isinstance(t, ast.Tuple) and \
                all(isinstance(x, ast.Name) for x in t.elts) else None
            call = s.value
        elif isinstance(s, ast.Expr):
            targets, call = [], s.value
        else:
            raise Unsupported('planning: statement ' + ast.unparse(s)[:80])
        if targets is None or not (isinstance(call, ast.Call) and isinstance(call.func, ast.Name)):
            raise Unsupported('planning: statement ' + ast.unparse(s)[:80])
        args = []
        for a in call.args:
            if not isinstance(a, ast.Name):
                raise Unsupported('planning: argument ' + ast.unparse(a))
            args.append(a.id)
        for k in call.keywords:
            if not isinstance(k.value, ast.Name):
                raise Unsupported('planning: argument ' + ast.unparse(k.value))
            args.append(k.value.id)
        steps.append((call.func.id, args, targets))

    def sl(l):
        return '[' + '; '.join(slit(x) for x in l) + ']'
    out.append(f'''(* {WU}: planning: the steps in order (function, arguments, assigned names) *)
Definition g_planning_steps : list (string * list string * list string) :=
  [{(";" + chr(10) + "   ").join(f"({slit(f)}, {sl(a)}, {sl(t)})" for f, a, t in steps)}].
''')


HEADER = '''(* GENERATED on every run by harness/pygen_c19.py from the source files of /repo named below - do not edit. *)
From Verif Require Import Prelude Model.Response.
From Coq Require Import QArith.
Open Scope Z_scope.

(* ---- fixed vocabulary of the translator *)
Definition mv_round (x : option Q) : option mval := match x with Some m => Some (MNum (round2q m)) | None => None end.
Fixpoint oseq_acc (acc : list (string * mval)) (l : list (string * option mval)) : option (list (string * mval)) :=
  match l with
  | [] => Some (rev acc)
  | (k, Some v) :: t => oseq_acc ((k, v) :: acc) t
  | (_, None) :: _ => None
  end.
Definition oseq := oseq_acc [].
Definition cell_gt (a b : cell) : res bool :=
  match a, b with CNum x, CNum y => Ok (negb (Qle_bool x y)) | _, _ => Err "TypeError:>" end.
Definition cell_le (a b : cell) : res bool :=
  match a, b with CNum x, CNum y => Ok (Qle_bool x y) | _, _ => Err "TypeError:<=" end.
Definition cell_lt (a b : cell) : res bool :=
  match a, b with CNum x, CNum y => Ok (negb (Qle_bool y x)) | _, _ => Err "TypeError:<" end.
(* how _jsontopath_metric prints a metric: as read, rounded again, as dBm rounded, in Gbit/s rounded *)
Inductive colfmt := CRaw | CRound | CRoundDbm | CRoundGiga.
'''


def generate(repo=None):
    repo = repo or common.REPO
    tree = ast.parse(open(os.path.join(repo, REQ)).read())
    consts, lists = module_constants(tree)
    out = [HEADER]
    for name in ('BLOCKING_NOPATH', 'BLOCKING_NOMODE', 'BLOCKING_NOSPECTRUM'):
        if name not in lists:
            raise Unsupported(f'{name} is not a list of strings')
        out.append(f'Definition g_{name} : list string := [' + '; '.join(slit(x) for x in lists[name]) + '].')
    out.append('')
    gen_result_element(tree, consts, lists, out)
    gen_csv(tree, consts, lists, out)
    gen_jsontoparams(tree, out)
    gen_aggregation(tree, out)
    gen_planning(ast.parse(open(os.path.join(repo, WU)).read()), out)
    return '\n'.join(out)


def regenerate():
    """(Re)write coq/theories/Gen/ResponseGen.v when its content changed. Returns (ok, message)."""
    dst = os.path.join(common.COQ, 'theories', 'Gen', 'ResponseGen.v')
    try:
        txt = generate()
    except (Unsupported, SyntaxError, OSError, KeyError) as e:
        return False, f'translation failed: {type(e).__name__}: {e}'
    os.makedirs(os.path.dirname(dst), exist_ok=True)
    if not os.path.exists(dst) or open(dst).read() != txt:
        with open(dst, 'w') as f:
            f.write(txt)
    return True, 'ok'


if __name__ == '__main__':
    print(generate())
