"""Translator tie for C20: the "which field goes where" code of gnpy/tools/convert.py and gnpy/tools/service_sheet.py
is re-read from the source tree on every run, matched against templates with holes and translated into Gallina
(coq/theories/Gen/SheetGen.v); Proofs/SheetGen.v proves every generated definition equal to the hand-written model
(Model/Sheet.v).  Fail closed: a statement that is not the expected one, or a hole whose content is outside the small
expression language below, raises Unsupported (reported as a broken tie).

What is TRANSLATED (holes of the templates; a change of any of them changes the generated term):
  Link.default_values / Eqpt.default_values      every default value                      -> g_link_default, g_amp_default
  Link.update_attr / Eqpt.update_attr            what an empty west cell falls back to    -> g_mk_link, g_mk_eqpt
  Link.__eq__                                    the four end-point comparisons           -> g_link_eqv
  create_east/west_fiber_element                 the three uid fields, the two midpoint cities, type, length, loss,
                                                 con_in, con_out, the PMD test / value / length -> g_fiber_* East/West
  create_east/west_eqpt_element                  the two uid fields, the location city, the three type tests, the
                                                 variety and the five operational fields of both amplifier branches
                                                                                          -> g_amp_* East/West
  fiber_link                                     the orientation test and the six uid fields -> g_fiber_link_uid
  eqpt_in_city_to_city                           the row tests of the ROADM and ILA loops, the uid fields -> g_ein
  sanity_check                                   the self-loop, duplicate-ILA, FUSED-degree and ILA-correction conditions
                                                                                          -> g_sanity_check
  Request_element.__init__                       condition and value of spacing, power, channel count, bandwidth
                                                                                          -> g_spacing, g_power, g_nbch, g_bw
  corresp_next_node                              the classes passed over by the walk to the next site -> g_skipped_kind
  correct_xls_route_list                         the pop-source / pop-destination statements (as statements: an `elif`
                                                 nests the second test), the index written back -> g_pop_ends, g_writeback
What is only TEMPLATE-MATCHED (must stay exactly as it is, not translated): everything else in these functions (dict
literals' constant keys, loops, messages, logging, the duplicate-link / unreferenced / Eqpt checks of sanity_check, the
rest of correct_xls_route_list and of Request_element.__init__).
"""
import ast
import os
from fractions import Fraction

from . import common
from .pygen import Unsupported, unify, strip_doc, find


def src(n):
    return ast.unparse(n)


def match(template_src, stmts, what):
    tmpl = ast.parse(template_src).body
    binds = {}
    if not unify(tmpl, stmts, binds):
        # locate the first statement that differs, for the message
        k = 0
        for k, (a, b) in enumerate(zip(tmpl, stmts)):
            if not unify(a, b, {}):
                break
        got = src(stmts[k])[:160] if k < len(stmts) else '(end)'
        raise Unsupported(f'{what}: statement {k + 1} no longer has the expected shape: {got!r}')
    return binds


def qconst(v):
    if isinstance(v, bool) or not isinstance(v, (int, float)):
        raise Unsupported(f'numeric constant expected, got {v!r}')
    fr = Fraction(repr(v)) if isinstance(v, float) else Fraction(v)
    return f'({fr.numerator} # {fr.denominator})%Q' if fr.numerator >= 0 else f'((-{-fr.numerator}) # {fr.denominator})%Q'


def sconst(v):
    if not isinstance(v, str) or '"' in v:
        raise Unsupported(f'string constant expected, got {v!r}')
    return f'"{v}"%string'


class X:
    """expressions over a table of atoms: source text -> (Gallina term, type); types: s (string), q (Q), oq (option Q),
    os (option string), n (nat), l (list)"""

    def __init__(self, atoms):
        self.atoms = atoms

    def atom(self, n):
        t = src(n)
        if t in self.atoms:
            return self.atoms[t]
        raise Unsupported(f'expression {t!r} is not in the vocabulary of this function')

    def e(self, n, want=None):
        if isinstance(n, ast.Constant):
            if isinstance(n.value, str):
                return sconst(n.value)
            if n.value is None:
                return 'None'
            return qconst(n.value)
        if isinstance(n, ast.Call) and isinstance(n.func, ast.Attribute) and n.func.attr == 'lower' and not n.args:
            g, ty = self.atom(n.func.value)
            if ty != 's':
                raise Unsupported(f'.lower() of a non-string {src(n)}')
            return f'(lower {g})'
        if isinstance(n, ast.BinOp) and isinstance(n.op, ast.Mult):
            return f'(Qred ({self.e(n.left)} * {self.e(n.right)}))'
        if isinstance(n, ast.Call) and isinstance(n.func, ast.Name) and n.func.id == 'int' and len(n.args) == 1:
            return f'(qtrunc {self.e(n.args[0])})'
        if isinstance(n, ast.Call) and isinstance(n.func, ast.Name) and n.func.id == 'round' and len(n.args) == 2 \
                and isinstance(n.args[1], ast.Constant) and n.args[1].value == 3:
            return f'(round3 {self.e(n.args[0])})'
        return self.atom(n)[0]

    def b(self, n):
        if isinstance(n, ast.BoolOp):
            op = '&&' if isinstance(n.op, ast.And) else '||'
            return '(' + f' {op} '.join(self.b(v) for v in n.values) + ')'
        if isinstance(n, ast.UnaryOp) and isinstance(n.op, ast.Not):
            return f'(negb {self.b(n.operand)})'
        if isinstance(n, ast.Compare) and len(n.ops) == 1:
            l, r, op = n.left, n.comparators[0], n.ops[0]
            if isinstance(op, (ast.Is, ast.IsNot)) and isinstance(r, ast.Constant) and r.value is None:
                g, ty = self.atom(l)
                if ty not in ('oq', 'os'):
                    raise Unsupported(f'None test of {src(l)}')
                t = f'(is_some {g})'
                return t if isinstance(op, ast.IsNot) else f'(negb {t})'
            if isinstance(l, ast.Call) and isinstance(l.func, ast.Name) and l.func.id == 'len' and len(l.args) == 1 \
                    and isinstance(r, ast.Constant) and isinstance(r.value, int):
                g, ty = self.atom(l.args[0])
                if ty != 'l':
                    raise Unsupported(f'len of {src(l.args[0])}')
                k = r.value
                if isinstance(op, ast.NotEq):
                    return f'(negb (Nat.eqb (length {g}) {k}))'
                if isinstance(op, ast.Eq):
                    return f'(Nat.eqb (length {g}) {k})'
                if isinstance(op, ast.Gt):
                    return f'(Nat.ltb {k} (length {g}))'
                if isinstance(op, ast.Lt):
                    return f'(Nat.ltb (length {g}) {k})'
                if isinstance(op, ast.GtE):
                    return f'(Nat.leb {k} (length {g}))'
                if isinstance(op, ast.LtE):
                    return f'(Nat.leb (length {g}) {k})'
                raise Unsupported(f'comparison in {src(n)}')
            if isinstance(op, (ast.Eq, ast.NotEq)):
                key = (src(l), src(r))
                if key in self.atoms:           # whole comparisons of the vocabulary (node types)
                    t = self.atoms[key][0]
                else:
                    t = f'(seqb {self.e(l)} {self.e(r)})'
                return t if isinstance(op, ast.Eq) else f'(negb {t})'
            raise Unsupported(f'comparison {src(n)}')
        # truthiness
        g, ty = self.atom(n)
        if ty == 'oq':
            return f'(truthy_oq {g})'
        if ty == 'os':
            return f'(truthy_os {g})'
        if ty == 'l':
            return f'(negb (is_nil {g}))'
        raise Unsupported(f'truthiness of {src(n)}')


def same_hole(binds, names, what):
    texts = {src(binds[n]) for n in names}
    if len(texts) != 1:
        raise Unsupported(f'{what}: {sorted(texts)} should be one and the same expression')
    return binds[names[0]]


# ------------------------------------------------------------------ defaults and east -> west defaulting
SIDE_FIELDS = ['distance', 'fiber', 'lineic', 'con_in', 'con_out', 'pmd', 'cable']
SIDE_TYPES = {'distance': 'q', 'fiber': 's', 'lineic': 'q', 'con_in': 'oq', 'con_out': 'oq', 'pmd': 'oq', 'cable': 's'}
AMP_FIELDS = ['amp_type', 'amp_gain', 'amp_dp', 'tilt_vs_wavelength', 'att_out', 'att_in']
AMP_TYPES = {'amp_type': 's', 'amp_gain': 'oq', 'amp_dp': 'oq', 'tilt_vs_wavelength': 'oq', 'att_out': 'oq', 'att_in': 'q'}

UPDATE_ATTR = """
clean_kwargs = {k: v for k, v in kwargs.items() if v != '' and v is not None}
for k, v in self.default_values.items():
    H_e1 = clean_kwargs.get(k, v)
    setattr(self, k, H_e2)
    k = 'west' + k.rsplit('east', maxsplit=1)[-1]
    H_w1 = clean_kwargs.get(k, H_d)
    setattr(self, k, H_w2)
"""


def defaults_of(cls, fields, types, what):
    """the default_values dict of a data class -> Gallina record fields, in the record's order"""
    node = None
    for s in cls.body:
        if isinstance(s, ast.Assign) and len(s.targets) == 1 and isinstance(s.targets[0], ast.Name) \
                and s.targets[0].id == 'default_values' and isinstance(s.value, ast.Dict):
            node = s.value
    if node is None:
        raise Unsupported(f'{what}.default_values not found')
    keys = [k.value if isinstance(k, ast.Constant) else None for k in node.keys]
    if keys != ['from_city', 'to_city'] + ['east_' + f for f in fields]:
        raise Unsupported(f'{what}.default_values has keys {keys}')
    vals = dict(zip(keys, node.values))
    for k in ('from_city', 'to_city'):
        if not (isinstance(vals[k], ast.Constant) and vals[k].value == ''):
            raise Unsupported(f'{what}.default_values[{k!r}]')
    out = []
    for f in fields:
        v = vals['east_' + f]
        if not isinstance(v, ast.Constant):
            raise Unsupported(f'{what}.default_values: non-constant default of {f}')
        ty = types[f]
        if ty == 's':
            out.append(sconst(v.value))
        elif ty == 'q':
            out.append(qconst(v.value))
        else:
            out.append('None' if v.value is None else f'(Some {qconst(v.value)})')
    return out


def west_fallback(cls, what):
    """update_attr: 'east' when an empty west cell takes the (defaulted) east value, 'default' when the class default"""
    fn = find(ast.Module(body=cls.body, type_ignores=[]), 'update_attr')
    b = match(UPDATE_ATTR, strip_doc(fn.body), f'{what}.update_attr')
    for h in ('H_e1', 'H_e2', 'H_w1', 'H_w2', 'H_d'):
        if not isinstance(b[h], ast.Name):
            raise Unsupported(f'{what}.update_attr: {h} is not a variable')
    e1, e2, w1, w2, d = (b[h].id for h in ('H_e1', 'H_e2', 'H_w1', 'H_w2', 'H_d'))
    if e1 != e2 or w1 != w2:
        raise Unsupported(f'{what}.update_attr: the value stored is not the value just computed')
    if d == e1:
        return 'east'           # the variable that now holds the east value (v was overwritten, or v_east)
    if d == 'v' and e1 != 'v':
        return 'default'        # the loop variable still holds the class default
    raise Unsupported(f'{what}.update_attr: west falls back to {d!r}')


def gen_defaults(tree, out):
    link, eqpt = find(tree, 'Link'), find(tree, 'Eqpt')
    ld = defaults_of(link, SIDE_FIELDS, SIDE_TYPES, 'Link')
    ad = defaults_of(eqpt, AMP_FIELDS, AMP_TYPES, 'Eqpt')
    out.append('(* convert.py: Link.default_values, Eqpt.default_values *)')
    out.append(f'Definition g_link_default : side := mkSide {" ".join(ld)}.')
    out.append(f'Definition g_amp_default : amp := mkAmp {" ".join(ad)}.')
    out.append('(* convert.py: Link.update_attr, Eqpt.update_attr - every cell over what it falls back to *)')
    for name, cls, what in (('link', link, 'Link'), ('eqpt', eqpt, 'Eqpt')):
        fb = west_fallback(cls, what)
        base = 'e' if fb == 'east' else ('g_link_default' if name == 'link' else 'g_amp_default')
        if name == 'link':
            out.append('Definition g_mk_link (r : link_row) : link :=\n'
                       '  let e := fill_side g_link_default (lr_east r) in\n'
                       f'  mkLink (lr_from r) (lr_to r) e (fill_side {base} (lr_west r)).')
        else:
            out.append('Definition g_mk_eqpt (r : eqpt_row) : eqpt :=\n'
                       '  let e := fill_amp g_amp_default (er_east r) in\n'
                       f'  mkEqpt (er_from r) (er_to r) e (fill_amp {base} (er_west r)).')
    out.append('')


# ------------------------------------------------------------------ Link.__eq__
def gen_link_eq(tree, out):
    fn = find(tree, 'Link.__eq__')
    b = match('return H_a == H_b and H_c == H_d or H_e == H_f and H_g == H_h', strip_doc(fn.body), 'Link.__eq__')
    x = X({'self.from_city': ('(l_from a)', 's'), 'self.to_city': ('(l_to a)', 's'),
           'link.from_city': ('(l_from b)', 's'), 'link.to_city': ('(l_to b)', 's')})
    t = [x.e(b[h]) for h in ('H_a', 'H_b', 'H_c', 'H_d', 'H_e', 'H_f', 'H_g', 'H_h')]
    out.append('(* convert.py: Link.__eq__ *)')
    out.append(f'Definition g_link_eqv (a b : link) : bool :=\n  (seqb {t[0]} {t[1]} && seqb {t[2]} {t[3]}) || '
               f'(seqb {t[4]} {t[5]} && seqb {t[6]} {t[7]}).\n')


# ------------------------------------------------------------------ fibre elements
def link_atoms(var):
    a = {f'{var}.from_city': ('(l_from l)', 's'), f'{var}.to_city': ('(l_to l)', 's')}
    for side in ('east', 'west'):
        for f, ty in SIDE_TYPES.items():
            gf = {'distance': 's_dist', 'fiber': 's_fiber', 'lineic': 's_lineic', 'con_in': 's_con_in', 'con_out': 's_con_out',
                  'pmd': 's_pmd', 'cable': 's_cable'}[f]
            a[f'{var}.{side}_{f}'] = (f'({gf} (l_{side} l))', ty)
    return a


FIBER_EL = """
fiber_dict = {'uid': f'fiber ({H_a} \u2192 {H_b})-{H_k}',
              'metadata': {'location': midpoint(nodes_by_city[H_m1], nodes_by_city[H_m2])},
              'type': 'Fiber', 'type_variety': H_variety,
              'params': {'length': H_len, 'length_units': fiber.distance_units, 'loss_coef': H_loss,
                         'con_in': H_ci, 'con_out': H_co}}
if H_pc:
    fiber_dict['params']['pmd_coef'] = convert_pmd_lineic(H_pv, H_pl, fiber.distance_units)
return fiber_dict
"""


def gen_fibers(tree, out):
    out.append('(* convert.py: create_east_fiber_element, create_west_fiber_element *)')
    x = X(link_atoms('fiber'))
    for d, fname in (('East', 'create_east_fiber_element'), ('West', 'create_west_fiber_element')):
        b = match(FIBER_EL, strip_doc(find(tree, fname).body), fname)
        pc, pv = x.atom(b['H_pc']), x.atom(b['H_pv'])
        if pc[1] != 'oq' or pv[1] != 'oq':
            raise Unsupported(f'{fname}: PMD test / value')
        out.append(f'Definition g_fiber_uid_{d} (l : link) : uid := UFiber {x.e(b["H_a"])} {x.e(b["H_b"])} {x.e(b["H_k"])}.')
        out.append(f'Definition g_fiber_mid_{d} (l : link) : string * string := ({x.e(b["H_m1"])}, {x.e(b["H_m2"])}).')
        out.append(f'Definition g_fiber_content_{d} (l : link) : content :=\n'
                   f'  CFiber {x.e(b["H_variety"])} {x.e(b["H_len"])} {x.e(b["H_loss"])} {x.e(b["H_ci"])} {x.e(b["H_co"])}\n'
                   f'         (pmd2_parts {pc[0]} {pv[0]} {x.e(b["H_pl"])}).')
    out.append('')


# ------------------------------------------------------------------ amplifier elements of an Eqpt row
def eqpt_atoms(var):
    a = {f'{var}.from_city': ('(e_from e)', 's'), f'{var}.to_city': ('(e_to e)', 's')}
    gf = {'amp_type': 'a_type', 'amp_gain': 'a_gain', 'amp_dp': 'a_dp', 'tilt_vs_wavelength': 'a_tilt',
          'att_out': 'a_att_out', 'att_in': 'a_att_in'}
    for side in ('east', 'west'):
        for f, ty in AMP_TYPES.items():
            a[f'{var}.{side}_{f}'] = (f'({gf[f]} (e_{side} e))', ty)
    return a


OPER = "{'gain_target': %s, 'delta_p': %s, 'tilt_target': %s, 'out_voa': %s, 'in_voa': %s}"
LOC = """{'location': {'city': nodes_by_city[H_c1].city, 'region': nodes_by_city[H_c2].region,
                                  'latitude': nodes_by_city[H_c3].latitude, 'longitude': nodes_by_city[H_c4].longitude}}"""
EAST_EQPT = f"""
eqpt = {{'uid': f'east edfa in {{H_a}} to {{H_z}}', 'metadata': {LOC}}}
if H_t1.lower() != '' and H_t2.lower() != 'fused':
    eqpt['type'] = 'Edfa'
    eqpt['type_variety'] = f'{{H_v}}'
    eqpt['operational'] = {OPER % ('H_g1', 'H_d1', 'H_l1', 'H_o1', 'H_i1')}
elif H_t3.lower() == '':
    eqpt['type'] = 'Edfa'
    eqpt['operational'] = {OPER % ('H_g2', 'H_d2', 'H_l2', 'H_o2', 'H_i2')}
elif H_t4.lower() == 'fused':
    eqpt['type'] = 'Fused'
    eqpt['params'] = {{'loss': 0}}
return eqpt
"""
WEST_EQPT = f"""
eqpt = {{'uid': f'west edfa in {{H_a}} to {{H_z}}', 'metadata': {LOC}, 'type': 'Edfa'}}
if H_t1.lower() != '' and H_t2.lower() != 'fused':
    eqpt['type_variety'] = f'{{H_v}}'
    eqpt['operational'] = {OPER % ('H_g1', 'H_d1', 'H_l1', 'H_o1', 'H_i1')}
elif H_t3.lower() == '':
    eqpt['operational'] = {OPER % ('H_g2', 'H_d2', 'H_l2', 'H_o2', 'H_i2')}
elif H_t4.lower() == 'fused':
    eqpt['type'] = 'Fused'
    eqpt['params'] = {{'loss': 0}}
return eqpt
"""


def gen_eqpt_elements(tree, out):
    out.append('(* convert.py: create_east_eqpt_element, create_west_eqpt_element *)')
    x = X(eqpt_atoms('node'))
    for d, fname, tmpl in (('East', 'create_east_eqpt_element', EAST_EQPT), ('West', 'create_west_eqpt_element', WEST_EQPT)):
        b = match(tmpl, strip_doc(find(tree, fname).body), fname)
        city = x.e(same_hole(b, ['H_c1', 'H_c2', 'H_c3', 'H_c4'], f'{fname}: location'))
        t = [x.e(b[h]) for h in ('H_t1', 'H_t2', 'H_t3', 'H_t4')]

        def oper(k):
            return 'mkOper ' + ' '.join(x.e(b[f'H_{c}{k}']) for c in 'gdlo') + f' {x.e(b[f"H_i{k}"])}'
        out.append(f'Definition g_amp_uid_{d} (e : eqpt) : uid := UEdfaTo {d} {x.e(b["H_a"])} {x.e(b["H_z"])}.')
        out.append(f'Definition g_amp_city_{d} (e : eqpt) : string := {city}.')
        out.append(f'Definition g_amp_content_{d} (e : eqpt) : content :=\n'
                   f'  if negb (seqb (lower {t[0]}) "") && negb (seqb (lower {t[1]}) "fused")\n'
                   f'  then CEdfa (Some {x.e(b["H_v"])}) ({oper(1)})\n'
                   f'  else if seqb (lower {t[2]}) "" then CEdfa None ({oper(2)})\n'
                   f'  else if seqb (lower {t[3]}) "fused" then CFused true\n'
                   f'  else CTrx.   (* no branch taken: the element would have no type *)')
    out.append('')


# ------------------------------------------------------------------ fiber_link
FIBER_LINK = """
source_dest = (from_city, to_city)
links = links_by_city[from_city]
link = next((li for li in links if li.from_city in source_dest and li.to_city in source_dest))
if H_c1 == H_c2:
    fiber = f'fiber ({H_a} \u2192 {H_b})-{H_k}'
else:
    fiber = f'fiber ({H_a2} \u2192 {H_b2})-{H_k2}'
return fiber
"""


def gen_fiber_link(tree, out):
    b = match(FIBER_LINK, strip_doc(find(tree, 'fiber_link').body), 'fiber_link')
    at = link_atoms('link')
    at['from_city'] = ('f', 's')
    at['to_city'] = ('t', 's')
    x = X(at)
    out.append('(* convert.py: fiber_link - the uid built for the link found *)')
    out.append(f'Definition g_fiber_link_uid (f t : string) (l : link) : uid :=\n'
               f'  if seqb {x.e(b["H_c1"])} {x.e(b["H_c2"])} then UFiber {x.e(b["H_a"])} {x.e(b["H_b"])} {x.e(b["H_k"])}\n'
               f'  else UFiber {x.e(b["H_a2"])} {x.e(b["H_b2"])} {x.e(b["H_k2"])}.\n')


# ------------------------------------------------------------------ eqpt_in_city_to_city
EIN = """
rev_direction = 'west' if direction == 'east' else 'east'
return_eqpt = ''
if in_city in eqpts_by_city:
    for e in eqpts_by_city[in_city]:
        if nodes_by_city[in_city].node_type.lower() == 'roadm':
            if H_roadm:
                return_eqpt = f'{direction} edfa in {H_ra} to {H_rz}'
        elif nodes_by_city[in_city].node_type.lower() == 'ila':
            if H_ila:
                direction = rev_direction
            return_eqpt = f'{direction} edfa in {H_ia} to {H_iz}'
elif nodes_by_city[in_city].node_type.lower() == 'ila':
    return_eqpt = f'{direction} edfa in {H_c}'
if nodes_by_city[in_city].node_type.lower() == 'fused':
    return_eqpt = f'{direction} fused spans in {H_f}'
return return_eqpt
"""


def gen_ein(tree, out):
    b = match(EIN, strip_doc(find(tree, 'eqpt_in_city_to_city').body), 'eqpt_in_city_to_city')
    x = X({'e.from_city': ('(e_from e)', 's'), 'e.to_city': ('(e_to e)', 's'), 'to_city': ('to_', 's'), 'in_city': ('c', 's')})
    out.append('(* convert.py: eqpt_in_city_to_city *)')
    out.append(f"""Definition g_ein (c to_ : string) (es : list eqpt) (t : ntype) (d : dir) : option uid :=
  let mine := eqpts_of c es in
  let r :=
    match mine with
    | [] => match t with TIla => Some (UEdfa d {x.e(b['H_c'])}) | _ => None end
    | _ =>
        match t with
        | TRoadm => fold_left (fun acc e => if {x.b(b['H_roadm'])} then Some (UEdfaTo d {x.e(b['H_ra'])} {x.e(b['H_rz'])}) else acc)
                              mine None
        | TIla => snd (fold_left (fun st e => let d' := if {x.b(b['H_ila'])} then rev_dir d else fst st in
                                             (d', Some (UEdfaTo d' {x.e(b['H_ia'])} {x.e(b['H_iz'])})))
                                 mine (d, None))
        | TFused => None
        end
    end in
  match t with TFused => Some (UFused d {x.e(b['H_f'])}) | _ => r end.
""")


# ------------------------------------------------------------------ sanity_check
SANITY = """
self_links = [link for link in links if H_self]
if self_links:
    msg = 'XLS error: ' + f'links {_format_items([(d.from_city, d.to_city) for d in self_links])} connect a node to itself'
    raise NetworkTopologyError(msg)
duplicate_links = []
for l1 in links:
    for l2 in links:
        if l1 is not l2 and l1 == l2 and (l2 not in duplicate_links):
            H_warn1
            duplicate_links.append(l1)
if duplicate_links:
    msg = 'XLS error: ' + f'links {_format_items([(d.from_city, d.to_city) for d in duplicate_links])} are duplicate'
    raise NetworkTopologyError(msg)
unreferenced_nodes = [n for n in nodes_by_city if n not in links_by_city]
if unreferenced_nodes:
    H_msg1
    raise NetworkTopologyError(msg)
wrong_eqpt_from = [n for n in eqpts_by_city if n not in nodes_by_city]
wrong_eqpt_to = [n.to_city for destinations in eqpts_by_city.values() for n in destinations if n.to_city not in nodes_by_city]
wrong_eqpt = wrong_eqpt_from + wrong_eqpt_to
if wrong_eqpt:
    H_msg2
    raise NetworkTopologyError(msg)
bad_eqpt = []
possible_links = [f'{e.from_city}|{e.to_city}' for e in links] + [f'{e.to_city}|{e.from_city}' for e in links]
possible_eqpt = []
duplicate_eqpt = []
duplicate_ila = []
for city, eqpts in eqpts_by_city.items():
    for eqpt in eqpts:
        nodea_nodez = f'{eqpt.from_city}|{eqpt.to_city}'
        nodez_nodea = f'{eqpt.to_city}|{eqpt.from_city}'
        if nodea_nodez not in possible_links or nodez_nodea not in possible_links:
            bad_eqpt.append([eqpt.from_city, eqpt.to_city])
        elif nodea_nodez in possible_eqpt:
            duplicate_eqpt.append([eqpt.from_city, eqpt.to_city])
        else:
            possible_eqpt.append(nodea_nodez)
    if H_dupila:
        duplicate_ila.append(city)
if bad_eqpt:
    H_msg3
    raise NetworkTopologyError(msg)
if duplicate_eqpt:
    H_msg4
    raise NetworkTopologyError(msg)
if duplicate_ila:
    H_msg5
    raise NetworkTopologyError(msg)
wrong_fused = [city for city, link in links_by_city.items() if H_fused]
if wrong_fused:
    msg = 'XLS error: FUSED nodes must have exactly two links:' + _format_items(wrong_fused)
    raise NetworkTopologyError(msg)
for city, link in links_by_city.items():
    if H_ila:
        H_warn2
        nodes_by_city[city].node_type = 'ROADM'
        for n in nodes:
            if n.city == city:
                n.node_type = 'ROADM'
return (nodes, links)
"""


def gen_sanity(tree, out):
    b = match(SANITY, strip_doc(find(tree, 'sanity_check').body), 'sanity_check')
    for h in ('H_msg1', 'H_msg2', 'H_msg3', 'H_msg4', 'H_msg5'):
        s = b[h]
        if not (isinstance(s, ast.Assign) and len(s.targets) == 1 and src(s.targets[0]) == 'msg'):
            raise Unsupported(f'sanity_check: {h} is not the assignment of the message')
    for h in ('H_warn1', 'H_warn2'):
        if not src(b[h]).startswith('_logger.warning('):
            raise Unsupported(f'sanity_check: {h} is not the warning')
    ty = 'nodes_by_city[city].node_type'
    node_atoms = {
        (ty + '.lower()', "'ila'"): ('(ntype_eqb (n_type n) TIla)', 'b'), (ty + '.lower()', "'fused'"): ('(ntype_eqb (n_type n) TFused)', 'b'),
        (ty + '.lower()', "'roadm'"): ('(ntype_eqb (n_type n) TRoadm)', 'b'),
        (ty, "'ILA'"): ('(ntype_eqb (n_type n) TIla)', 'b'), (ty, "'FUSED'"): ('(ntype_eqb (n_type n) TFused)', 'b'),
        (ty, "'ROADM'"): ('(ntype_eqb (n_type n) TRoadm)', 'b'),
        'link': ('(links_of (n_city n) ls)', 'l'), 'eqpts': ('(eqpts_of (n_city n) es)', 'l'),
    }
    xs = X({'link.from_city': ('(l_from l)', 's'), 'link.to_city': ('(l_to l)', 's')})
    xn = X(node_atoms)
    out.append('(* convert.py: sanity_check - the conditions of the self-loop, duplicate-ILA, FUSED-degree rules and of the '
               'ILA -> ROADM correction *)')
    out.append(f"""Definition g_correct_type (ls : list link) (n : node) : node :=
  if {xn.b(b['H_ila'])} then set_type n TRoadm else n.
Definition g_sanity_check (ns : list node) (ls : list link) (es : list eqpt) : res (list node) :=
  if existsb (fun l => {xs.b(b['H_self'])}) ls then Err "NetworkTopologyError:self_loop_link"
  else if dup_links ls then Err "NetworkTopologyError:duplicate_link"
  else if existsb (fun n => negb (has_links (n_city n) ls)) ns then Err "NetworkTopologyError:unreferenced_node"
  else if existsb (fun e => negb (smem (e_from e) (cities ns)) || negb (smem (e_to e) (cities ns))) es
  then Err "NetworkTopologyError:eqpt_unknown_node"
  else if existsb (bad_eqpt ls) es then Err "NetworkTopologyError:eqpt_unknown_link"
  else if dupb (map (fun e => pair_key (e_from e) (e_to e)) es) then Err "NetworkTopologyError:duplicate_eqpt"
  else if existsb (fun n => {xn.b(b['H_dupila'])}) ns then Err "NetworkTopologyError:duplicate_ila"
  else if existsb (fun n => {xn.b(b['H_fused'])}) ns then Err "NetworkTopologyError:fused_degree"
  else Ok (map (g_correct_type ls) ns).
""")


# ------------------------------------------------------------------ Request_element: units
def gen_request(tree, out):
    fn = find(tree, 'Request_element.__init__')
    body = strip_doc(fn.body)
    at = {'request_param.spacing': ('(q_spacing r)', 'oq'), 'request_param.power': ('(q_power r)', 'oq'),
          'request_param.nb_channel': ('(q_nbch r)', 'oq'), 'request_param.path_bandwidth': ('(q_bw r)', 'oq')}

    def fragment(tmpl, what):
        """the statements of the template must occur, contiguously and exactly once, in __init__"""
        t = ast.parse(tmpl).body
        hits = []
        for i in range(len(body) - len(t) + 1):
            bd = {}
            if unify(t, body[i:i + len(t)], bd):
                hits.append(bd)
        if len(hits) != 1:
            raise Unsupported(f'Request_element.__init__: {what}: {len(hits)} places have the expected shape')
        return hits[0]

    def cond_value(c, v, what):
        """`if <cond on cell>: x = <value of cell>`: condition and value must be about one and the same cell"""
        cells = {src(n) for n in ast.walk(c) if src(n) in at} | {src(n) for n in ast.walk(v) if src(n) in at}
        if len(cells) != 1:
            raise Unsupported(f'Request_element.__init__: {what} mixes the cells {sorted(cells)}')
        cell = cells.pop()
        x = X({cell: ('x', 'q')})
        xc = X({cell: ('(Some x)', 'oq')})
        return at[cell][0], xc.b(c), x.e(v)
    out.append('(* service_sheet.py: Request_element.__init__ - spacing (GHz), power (dBm), channel count, bandwidth (Gbit/s) *)')
    b = fragment("if H_c:\n    self.spacing = H_v\nelse:\n    H_msg\n    raise ServiceError(msg)", 'spacing')
    cell, c, v = cond_value(b['H_c'], b['H_v'], 'spacing')
    out.append(f'Definition g_spacing (r : req_row) : option Q :=\n  match {cell} with Some x => if {c} then Some {v} else None | None => None end.')
    b = fragment("self.power = None\nif H_c:\n    self.power = db2lin(H_v) * 0.001", 'power')
    cell, c, v = cond_value(b['H_c'], b['H_v'], 'power')
    out.append(f'Definition g_power_dbm (r : req_row) : option Q :=\n  match {cell} with Some x => if {c} then Some {v} else None | None => None end.')
    b = fragment("self.nb_channel = None\nif H_c:\n    self.nb_channel = H_v", 'nb_channel')
    cell, c, v = cond_value(b['H_c'], b['H_v'], 'nb_channel')
    out.append(f'Definition g_nbch (r : req_row) : option Z :=\n  match {cell} with Some x => if {c} then Some {v} else None | None => None end.')
    b = fragment("self.path_bandwidth = H_z\nif H_c:\n    self.path_bandwidth = H_v", 'path_bandwidth')
    cell, c, v = cond_value(b['H_c'], b['H_v'], 'path_bandwidth')
    out.append(f'Definition g_bw (r : req_row) : Q :=\n  match {cell} with Some x => if {c} then {v} else {X({}).e(b["H_z"])} | None => {X({}).e(b["H_z"])} end.\n')


# ------------------------------------------------------------------ correct_xls_route_list: the two pops, the write-back
ROUTE_LOOP = """
check_end_points(pathreq, network)
H_POPS
temp = deepcopy(pathreq)
for i, n_id in enumerate(temp.nodes_list):
    if n_id not in trxfibertype:
        nodes_suggestion = find_node_sugestion(n_id, corresp_roadm, corresp_fused, corresp_ila, network)
        try:
            if len(nodes_suggestion) > 1:
                new_n = next((n for n in nodes_suggestion if n in next_node and next_node[n] in temp.nodes_list[i:] + [pathreq.destination] and (next_node[n] not in temp.nodes_list[:i])))
            elif len(nodes_suggestion) == 1:
                new_n = nodes_suggestion[0]
            else:
                if temp.loose == 'LOOSE':
                    H_m1
                    print(msg)
                    logger.info(msg)
                    pathreq.nodes_list.remove(n_id)
                    continue
                H_m2
                raise ServiceError(msg)
            if new_n != n_id:
                H_m3
                logger.info(msg)
                pathreq.nodes_list[H_idx] = new_n
        except StopIteration:
            H_m4
            logger.info(msg)
            pathreq.nodes_list.remove(n_id)
    elif temp.loose == 'LOOSE':
        H_m5
        logger.warning(msg)
        pathreq.nodes_list.remove(n_id)
    else:
        H_m6
        raise ServiceError(msg)
"""


def gen_route(tree, out):
    fn = find(tree, 'correct_xls_route_list')
    body = strip_doc(fn.body)
    loop = body[-2] if len(body) >= 2 else None
    if not (isinstance(loop, ast.For) and src(loop.target) == 'pathreq' and src(loop.iter) == 'pathreqlist'
            and src(body[-1]) == 'return pathreqlist'):
        raise Unsupported('correct_xls_route_list: the loop over the requests is not where it was')
    stmts = loop.body
    # H_POPS stands for the statements between check_end_points and `temp = deepcopy(pathreq)`
    k = next((i for i, s in enumerate(stmts) if src(s) == 'temp = deepcopy(pathreq)'), None)
    if k is None or k < 1 or src(stmts[0]) != 'check_end_points(pathreq, network)':
        raise Unsupported('correct_xls_route_list: head of the loop body')
    pops = stmts[1:k]
    tmpl = ROUTE_LOOP.replace('H_POPS\n', '')
    b = match(tmpl, [stmts[0]] + stmts[k:], 'correct_xls_route_list (loop body)')
    for h in ('H_m1', 'H_m2', 'H_m3', 'H_m4', 'H_m5', 'H_m6'):
        if not (isinstance(b[h], ast.Assign) and src(b[h].targets[0]) == 'msg'):
            raise Unsupported(f'correct_xls_route_list: {h} is not the assignment of the message')
    idx = src(b['H_idx'])
    if idx == 'pathreq.nodes_list.index(n_id)':
        wb = 'replace_first n s live'
    elif idx == 'i':
        wb = 'replace_at i s live'
    else:
        raise Unsupported(f'correct_xls_route_list: corrected name written at {idx!r}')
    conds = {'pathreq.nodes_list and pathreq.source == pathreq.nodes_list[0]': 'head_is src l',
             'pathreq.nodes_list and pathreq.destination == pathreq.nodes_list[-1]': 'last_is dst l'}
    acts = {'pathreq.nodes_list.pop(0)': 'tl l', 'pathreq.nodes_list.pop(-1)': 'removelast l'}

    def stmts_term(ss):
        """a sequence of `if c: pop` statements on the list l (an elif / else nests inside the `else`)"""
        if not ss:
            return 'l'
        s, rest = ss[0], ss[1:]
        if not isinstance(s, ast.If) or src(s.test) not in conds or len(s.body) != 1 or src(s.body[0]) not in acts:
            raise Unsupported('correct_xls_route_list: statement before the copy: ' + src(s)[:120])
        other = stmts_term(s.orelse) if s.orelse else 'l'
        here = f'(if {conds[src(s.test)]} then {acts[src(s.body[0])]} else {other})'
        return here if not rest else f'(let l := {here} in {stmts_term(rest)})'
    out.append('(* service_sheet.py: correct_xls_route_list - popping the own source / destination, writing a corrected name back *)')
    out.append(f'Definition g_pop_ends (src dst : string) (l : list string) : list string :=\n  {stmts_term(pops)}.')
    out.append(f'Definition g_writeback (i : nat) (n s : string) (live : list string) : list string := {wb}.\n')


# ------------------------------------------------------------------ corresp_next_node: what the walk to the next site skips
NEXT_NODE = """
next_node = {}
for ila_key, ila_list in corresp_ila.items():
    temp = copy(ila_list)
    for ila_elem in ila_list:
        correct_ila_name = next((n.uid for n in network.nodes() if ila_elem in n.uid))
        temp.remove(ila_elem)
        temp.append(correct_ila_name)
        ila_nd = next((n for n in network.nodes() if ila_elem in n.uid))
        next_nd = next(network.successors(ila_nd))
        while isinstance(next_nd, H_kinds):
            next_nd = next(network.successors(next_nd))
        for key, val in corresp_roadm.items():
            if next_nd.uid in val:
                next_node[correct_ila_name] = key
                break
        if correct_ila_name not in next_node:
            for key, val in corresp_ila.items():
                if [e for e in val if e in next_nd.uid]:
                    next_node[correct_ila_name] = key
                    break
    corresp_ila[ila_key] = temp
return (corresp_ila, next_node)
"""
KINDS = {'Fiber': 'KFiber', 'Fused': 'KFused', 'Edfa': 'KEdfa', 'Roadm': 'KRoadm', 'Transceiver': 'KTrx'}


def gen_next_node(tree, out):
    b = match(NEXT_NODE, strip_doc(find(tree, 'corresp_next_node').body), 'corresp_next_node')
    k = b['H_kinds']
    names = [k] if isinstance(k, ast.Name) else list(k.elts) if isinstance(k, ast.Tuple) else None
    if not names or not all(isinstance(x, ast.Name) and x.id in KINDS for x in names):
        raise Unsupported(f'corresp_next_node: classes skipped by the walk: {src(k)}')
    pats = ' | '.join(dict.fromkeys(KINDS[x.id] for x in names))
    out.append('(* convert.py: corresp_next_node - the element classes the walk to the next ROADM / amplifier passes over *)')
    out.append(f'Definition g_skipped_kind (k : ekind) : bool := match k with {pats} => true | _ => false end.\n')


PREAMBLE = """(* GENERATED on every run by harness/pygen_c20.py from gnpy/tools/convert.py and gnpy/tools/service_sheet.py of the
   source tree - do not edit. *)
From Coq Require Import QArith.
From Verif Require Import Prelude Model.Sheet.
Open Scope Z_scope.

(* vocabulary of the translation (definitions only) *)
Definition is_some {A} (o : option A) : bool := match o with Some _ => true | None => false end.
Definition is_nil {A} (l : list A) : bool := match l with [] => true | _ => false end.
Definition truthy_oq (o : option Q) : bool := match o with Some q => negb (Qeq_bool q 0) | None => false end.
Definition truthy_os (o : option string) : bool := match o with Some s => negb (seqb s "") | None => false end.
(* one side of an Eqpt row over the values it falls back to *)
Definition fill_amp (d : amp) (r : amp_row) : amp :=
  mkAmp (ostr (a_type d) (ar_type r)) (oor (ar_gain r) (a_gain d)) (oor (ar_dp r) (a_dp d)) (oor (ar_tilt r) (a_tilt d))
        (oor (ar_att_out r) (a_att_out d)) (odef (a_att_in d) (ar_att_in r)).
(* `if c: params['pmd_coef'] = convert_pmd_lineic(v, len, 'km')`, carried squared *)
Definition pmd2_parts (c v : option Q) (len : Q) : option Q :=
  if truthy_oq c then match v with Some p => Some (Qred (p * p / (inject_Z (10 ^ 24)) / (len * 1000))) | None => None end
  else None.
Definition head_is (x : string) (l : list string) : bool := match l with y :: _ => seqb x y | [] => false end.
Definition last_is (x : string) (l : list string) : bool := match last_s l with Some y => seqb x y | None => false end.
Fixpoint replace_at (i : nat) (s : string) (l : list string) : list string :=
  match l, i with [], _ => [] | _ :: t, O => s :: t | x :: t, S k => x :: replace_at k s t end.
"""


def generate(repo=None):
    repo = repo or common.REPO
    conv = ast.parse(open(os.path.join(repo, 'gnpy/tools/convert.py'), encoding='utf-8').read())
    svc = ast.parse(open(os.path.join(repo, 'gnpy/tools/service_sheet.py'), encoding='utf-8').read())
    out = [PREAMBLE]
    gen_defaults(conv, out)
    gen_link_eq(conv, out)
    gen_fibers(conv, out)
    gen_eqpt_elements(conv, out)
    gen_fiber_link(conv, out)
    gen_ein(conv, out)
    gen_sanity(conv, out)
    gen_next_node(conv, out)
    gen_request(svc, out)
    gen_route(svc, out)
    return '\n'.join(out)


def regenerate():
    """(Re)write coq/theories/Gen/SheetGen.v when its content changed. Returns (ok, message)."""
    dst = os.path.join(common.COQ, 'theories', 'Gen', 'SheetGen.v')
    try:
        txt = generate()
    except (Unsupported, SyntaxError, OSError) as e:
        return False, f'translation failed: {type(e).__name__}: {e}'
    os.makedirs(os.path.dirname(dst), exist_ok=True)
    if not os.path.exists(dst) or open(dst, encoding='utf-8').read() != txt:
        with open(dst, 'w', encoding='utf-8') as f:
            f.write(txt)
    return True, 'ok'


if __name__ == '__main__':
    print(generate())
