"""Shared machinery of the /verif checks: Coq build + bridge, evidence, replays, known findings, verdicts.

Every check module `harness/cNN.py` exposes `run(ctx)`; it reports through `ctx`:
  ctx.count(...)           exploration counters
  ctx.violation(...)       the property fails on the implementation for a concrete input (oracle)
  ctx.corr_break(...)      model and implementation disagree on a concrete input (correspondence)
and `finish(ctx)` turns that into KNOWN-FINDING / VIOLATION lines, the evidence file and the exit code.
"""
import fcntl
import hashlib
import json
import os
import random
import re
import subprocess
import sys
import time
from fractions import Fraction

VERIF = os.path.dirname(os.path.dirname(os.path.abspath(__file__)))
REPO = os.environ.get('VERIF_REPO', '/repo')
COQ = os.path.join(VERIF, 'coq')
WORK = os.path.join(VERIF, 'work')
GUARD = 'GNPY_VERIF'


def setup_gnpy_path():
    """gnpy is always imported from /repo's working tree, never from an installed copy."""
    if REPO not in sys.path:
        sys.path.insert(0, REPO)
    os.environ[GUARD] = '1'
    import gnpy  # noqa
    assert os.path.realpath(gnpy.__file__).startswith(os.path.realpath(REPO)), gnpy.__file__


# ------------------------------------------------------------------ Coq build
def _run(cmd, cwd, timeout):
    try:
        p = subprocess.run(cmd, cwd=cwd, stdout=subprocess.PIPE, stderr=subprocess.STDOUT, timeout=timeout,
                           text=True, errors='replace')
        return p.returncode, p.stdout
    except subprocess.TimeoutExpired as e:
        return 124, (e.stdout or '') + '\nTIMEOUT'


def coq_build(targets=None, timeout=3000, lock_name='all'):
    """Full .vo build of the requested targets (no-op when up to date).  The (re)generation of the Makefile is
    serialised by a global file lock; the build itself by a per-property lock, so that one property's slow proof
    does not hold up the checks of the others."""
    os.makedirs(WORK, exist_ok=True)
    with open(os.path.join(VERIF, '.build.lock'), 'w') as lk:
        fcntl.flock(lk, fcntl.LOCK_EX)
        mk = os.path.join(COQ, 'Makefile')
        cp = os.path.join(COQ, '_CoqProject')
        if not os.path.exists(mk) or os.path.getmtime(mk) < os.path.getmtime(cp):
            rc, out = _run(['coq_makefile', '-f', '_CoqProject', '-o', 'Makefile'], COQ, 120)
            if rc:
                return False, out
    with open(os.path.join(WORK, f'.build.{lock_name}.lock'), 'w') as lk:
        fcntl.flock(lk, fcntl.LOCK_EX)
        cmd = ['make', '-j16'] + (targets or [])
        rc, out = _run(cmd, COQ, timeout)
        return rc == 0, out


FORBIDDEN = re.compile(r'\b(Admitted|admit|Axiom|Axioms|Parameter|Parameters|Conjecture|Hypothesis|Variable|'
                       r'Admit Obligations|bypass_check|Unset Guard Checking|Unset Positivity Checking|'
                       r'Unset Universe Checking|type-in-type|impredicative-set|native_compute)\b')


def scan_forbidden():
    """No axioms / admits / disabled checks anywhere in the development (Variables/Hypotheses are only
    legal inside Sections; the development uses none)."""
    hits = []
    for root, _, files in os.walk(os.path.join(COQ, 'theories')):
        for f in files:
            if f.endswith('.v'):
                path = os.path.join(root, f)
                txt = open(path).read()
                txt = re.sub(r'\(\*.*?\*\)', '', txt, flags=re.S)
                for m in FORBIDDEN.finditer(txt):
                    hits.append(f'{os.path.relpath(path, COQ)}: {m.group(0)}')
    return hits


def check_props(prop):
    """Re-check the property file Props/<prop>.v against the freshly built models and proofs, and collect
    the `Print Assumptions` reports.  Returns dict(ok, theorems, assumptions, log)."""
    src = os.path.join(COQ, 'theories', 'Props', f'{prop}.v')
    res = {'ok': False, 'theorems': [], 'assumptions': {}, 'log': '', 'checker_cmd': ''}
    if not os.path.exists(src):
        res['log'] = f'missing {src}'
        return res
    # build only what this property depends on, so that one property's broken proof never stops another's check
    tg = [f'theories/Props/{prop}.vo']
    if os.path.exists(os.path.join(COQ, 'theories', 'Run', f'{prop}.v')):
        tg.append(f'theories/Run/{prop}.vo')
    ok, out = coq_build(tg, lock_name=prop)
    if not ok:
        res['log'] = out[-4000:]
        # name the first file that fails
        m = re.search(r'File "\./(theories/[^"]+)"', out)
        res['failed_file'] = m.group(1) if m else None
        return res
    wd = os.path.join(WORK, prop)
    os.makedirs(wd, exist_ok=True)
    cmd = ['coqc', '-Q', os.path.join(COQ, 'theories'), 'Verif', '-o', os.path.join(wd, f'{prop}.vo'), src]
    rc, out = _run(cmd, wd, 900)
    res['checker_cmd'] = 'cd coq && make -j16 ' + ' '.join(tg) + ' && ' + ' '.join(cmd)
    res['log'] = out[-6000:]
    txt = re.sub(r'\(\*.*?\*\)', '', open(src).read(), flags=re.S)
    res['theorems'] = re.findall(r'^\s*(?:Theorem|Example)\s+(\w+)', txt, flags=re.M)
    # parse Print Assumptions blocks
    cur = None
    printed = re.findall(r'Print Assumptions\s+(\w+)', txt)
    blocks = re.split(r'(?m)^(?=Closed under the global context|Axioms:)', out)
    blocks = [b for b in blocks if b.startswith('Closed under') or b.startswith('Axioms:')]
    for name, b in zip(printed, blocks):
        if b.startswith('Closed under'):
            res['assumptions'][name] = []
        else:
            res['assumptions'][name] = sorted(set(re.findall(r'^([A-Za-z_][\w.\']*)\s*:', b, flags=re.M)) - {'Axioms'})
    res['ok'] = rc == 0 and not scan_forbidden() and len(blocks) == len(printed)
    if rc == 0 and scan_forbidden():
        res['log'] += '\nforbidden: ' + '; '.join(scan_forbidden())
    return res


# ------------------------------------------------------------------ Coq bridge
def _parse_redirect(path):
    txt = open(path).read()
    i = txt.index('= "')
    j = txt.rindex('"')
    body = txt[i + 3:j]
    return body.replace('""', '"')


def _unlimit_stack():
    import resource
    try:
        resource.setrlimit(resource.RLIMIT_STACK, (resource.RLIM_INFINITY, resource.RLIM_INFINITY))
    except (ValueError, OSError):
        pass


def coq_eval(prop, imports, terms, per_file=250, timeout=900, tag='cases', prelude=''):
    """Evaluate closed Gallina terms of type `string` by vm_compute, sharded over coqc processes.
    Returns the list of resulting strings (one per term; newlines inside a result are not allowed)."""
    if not terms:
        return []
    wd = os.path.join(WORK, prop)
    os.makedirs(wd, exist_ok=True)
    # file names are private to this process, so that overlapping runs of one property never touch each other's
    # shards; leftovers of earlier runs are purged when older than two hours
    now = time.time()
    for f in os.listdir(wd):
        fp = os.path.join(wd, f)
        try:
            if (f.startswith(tag + '_') or f.startswith('.' + tag + '_')) and now - os.path.getmtime(fp) > 7200:
                os.unlink(fp)
        except OSError:
            pass
    tag = f'{tag}_{os.getpid()}'
    shards = [terms[i:i + per_file] for i in range(0, len(terms), per_file)]
    names = []
    for k, sh in enumerate(shards):
        name = f'{tag}_{k}'
        names.append(name)
        with open(os.path.join(wd, name + '.v'), 'w') as f:
            f.write(f'From Verif Require Import {imports}.\nOpen Scope Z_scope.\n{prelude}\n')
            f.write('Definition out : string := lines [\n')
            f.write(';\n'.join(f'({t})' for t in sh))
            f.write('\n].\n')
            f.write(f'Redirect "{name}" Eval vm_compute in out.\n')
    procs = []
    results = [None] * len(shards)
    pending = list(enumerate(names))
    running = []
    # as many coqc processes as the machine can take right now (each may need ~1 GB): 16 when idle, fewer under load
    try:
        load = os.getloadavg()[0]
    except OSError:
        load = 0.0
    maxp = 16 if load < 10 else 8 if load < 24 else 4
    retried = set()
    deadline = time.time() + timeout
    while pending or running:
        while pending and len(running) < maxp:
            k, name = pending.pop(0)
            p = subprocess.Popen(['coqc', '-Q', os.path.join(COQ, 'theories'), 'Verif', name + '.v'], cwd=wd,
                                 stdout=subprocess.PIPE, stderr=subprocess.STDOUT, text=True, errors='replace',
                                 preexec_fn=_unlimit_stack)
            running.append((k, name, p))
        still = []
        for k, name, p in running:
            if p.poll() is None:
                if time.time() > deadline:
                    p.kill()
                    raise RuntimeError(f'coqc timeout on {name}')
                still.append((k, name, p))
            else:
                out = p.stdout.read()
                if p.returncode != 0 and not out.strip() and k not in retried:
                    # killed without a message (typically by the OOM killer on a loaded machine): run it once more,
                    # alone at the end of the queue
                    retried.add(k)
                    pending.append((k, name))
                    maxp = max(2, maxp // 2)
                    continue
                if p.returncode != 0:
                    raise RuntimeError(f'coqc failed on {wd}/{name}.v:\n{out[-3000:]}')
                body = _parse_redirect(os.path.join(wd, name + '.out'))
                rows = body.split('\n')
                if len(rows) != len(shards[k]):
                    raise RuntimeError(f'{name}: {len(rows)} rows for {len(shards[k])} cases')
                results[k] = rows
        running = still
        if running:
            time.sleep(0.05)
    for f in os.listdir(wd):
        if f.startswith(tag + '_') or f.startswith('.' + tag + '_'):
            try:
                os.unlink(os.path.join(wd, f))
            except OSError:
                pass
    return [r for rows in results for r in rows]


# ------------------------------------------------------------------ Gallina literal emitters
def zlit(z):
    z = int(z)
    return f'({z})' if z < 0 else str(z)


def ozlit(z):
    return 'None' if z is None else f'(Some {zlit(z)})'


def listlit(items):
    return '[' + '; '.join(items) + ']'


def qlit(x):
    """exact rational value of a float / Fraction / int as a Gallina Q literal  (n # d)"""
    fr = Fraction(x)
    return f'(({fr.numerator}) # {fr.denominator})' if fr.numerator < 0 else f'({fr.numerator} # {fr.denominator})'


def strlit(s):
    return '"' + str(s).replace('"', '""') + '"'


# ------------------------------------------------------------------ context, verdicts, evidence
class Ctx:
    def __init__(self, prop, tier, seed, replay=None):
        self.prop, self.tier, self.seed, self.replay = prop, tier, seed, replay
        self.rng = random.Random(seed)
        self.t0 = time.time()
        self.counters = {}
        self.samples = []
        self.violations = []      # property fails on the implementation (concrete input)
        self.corr_breaks = []     # model != implementation (concrete input)
        self.proof = None
        self.distinct = set()
        self.evaluations = 0
        self.rule = ''
        self.notes = []
        self.assumptions = []
        self.extra = {}

    @property
    def thorough(self):
        return self.tier == 'thorough'

    def scale(self, quick, thorough):
        return thorough if self.thorough else quick

    def count(self, key, n=1):
        self.counters[key] = self.counters.get(key, 0) + n

    def case(self, obj, nontrivial=True):
        """register an explored case (for evaluations / distinct_nontrivial)"""
        self.evaluations += 1
        if nontrivial:
            self.distinct.add(hashlib.sha1(json.dumps(obj, sort_keys=True, default=str).encode()).hexdigest())
        if len(self.samples) < 3:
            self.samples.append(obj)

    def violation(self, key, desc, case, **kw):
        self.violations.append(dict(kind='property-violation', key=key, description=desc, case=case, **kw))

    def corr_break(self, corr, desc, case, impl=None, model=None, **kw):
        self.corr_breaks.append(dict(kind='correspondence-break', correspondence=corr, description=desc, case=case,
                                     impl=impl, model=model, **kw))


def load_known():
    p = os.path.join(VERIF, 'known_findings.json')
    if not os.path.exists(p):
        return []
    return json.load(open(p))['findings']


def _write_replay(ctx, rec, k):
    d = os.path.join(VERIF, 'replays', ctx.prop)
    os.makedirs(d, exist_ok=True)
    path = os.path.join(d, f'{ctx.tier}_{ctx.seed}_{k}.json')
    rec = dict(rec, property=ctx.prop, seed=ctx.seed, tier=ctx.tier)
    with open(path, 'w') as f:
        json.dump(rec, f, indent=1, default=str)
    return path


def finish(ctx, matchers=None):
    """Decide the run.  matchers: {finding key: predicate(violation record) -> bool} for open known findings."""
    matchers = matchers or {}
    known = [k for k in load_known() if k['property'] == ctx.prop and k['status'] == 'open']
    lines, nviol, k = [], 0, 0
    seen_known = set()
    reported = set()
    for v in ctx.violations:
        hit = None
        for kf in known:
            pred = matchers.get(kf['key'])
            if pred and pred(v):
                hit = kf
                break
        if hit:
            if hit['key'] not in seen_known:
                seen_known.add(hit['key'])
                lines.append(f"KNOWN-FINDING: property={ctx.prop} {hit['key']}: {hit['description']}")
            continue
        if v['key'] in reported:
            continue
        reported.add(v['key'])
        path = _write_replay(ctx, v, k)
        k += 1
        nviol += 1
        lines.append(f'VIOLATION property={ctx.prop} replay={path}')
    proof_ok = ctx.proof is None or ctx.proof.get('ok')
    if nviol == 0:
        # broken tie without a failing input: the property is no longer shown to hold
        if not proof_ok:
            rec = dict(kind='proof-break', theorem_file=f'coq/theories/Props/{ctx.prop}.v',
                       failed_file=ctx.proof.get('failed_file'), log=ctx.proof.get('log', '')[-3000:],
                       note='no failing input found by the search on the implementation')
            path = _write_replay(ctx, rec, k)
            k += 1
            nviol += 1
            lines.append(f'VIOLATION property={ctx.prop} replay={path} no-failing-input-found')
        elif ctx.corr_breaks:
            by = {}
            for c in ctx.corr_breaks:
                by.setdefault(c['correspondence'], c)
            for corr, c in by.items():
                c = dict(c, note=f'correspondence {corr} no longer checks; the property oracle held on every input tried',
                         n_disagreements=sum(1 for x in ctx.corr_breaks if x['correspondence'] == corr))
                path = _write_replay(ctx, c, k)
                k += 1
                nviol += 1
                lines.append(f'VIOLATION property={ctx.prop} replay={path} no-failing-input-found')
    for ln in lines:
        print(ln)
    write_evidence(ctx, nviol)
    wall = time.time() - ctx.t0
    print(f'[{ctx.prop}] tier={ctx.tier} seed={ctx.seed} evaluations={ctx.evaluations} '
          f'distinct={len(ctx.distinct)} violations={nviol} known={len(seen_known)} '
          f'corr_breaks={len(ctx.corr_breaks)} proof_ok={proof_ok} wall={wall:.1f}s')
    return 1 if nviol else 0


STD_TRUST = [
    'Coq 8.16.1 kernel and vm_compute (no native_compute)',
    'the hand-written Gallina model is tied to /repo only by the correspondence run of this check '
    '(generators, gnpy drivers, canonicalisation, Coq text emitter/parser are trusted)',
]


def write_evidence(ctx, nviol):
    pr = ctx.proof or {}
    reported = sorted({a for l in pr.get('assumptions', {}).values() for a in l})
    prims = [a for a in reported if a.split('.')[0] in ('PrimFloat', 'PrimInt63', 'Uint63', 'Float64', 'FloatOps')
             or a in ('float', 'int')]
    axioms = [a for a in reported if a not in prims]
    tb = list(STD_TRUST)
    if axioms:
        tb.append('axioms reported by Print Assumptions (all declared by the Coq standard library, none by this '
                  'development): ' + ', '.join(axioms))
    if prims:
        tb.append('kernel primitives (native 63-bit integers / binary64 floats, not axioms) used by the finite '
                  'floating-point theorem: ' + ', '.join(prims))
    if not axioms:
        tb.append('Print Assumptions: no axiom under any property theorem'
                  + (' (apart from the primitives above)' if prims else ' (closed under the global context)'))
    tb += ctx.assumptions
    nthm = len(pr.get('theorems', []))
    cov = {
        'obligations': max(nthm, 1),
        'discharged': nthm if pr.get('ok') else 0,
        'checker_cmd': pr.get('checker_cmd', ''),
        'trusted_base': tb,
        'theorems': pr.get('theorems', []),
        'print_assumptions': pr.get('assumptions', {}),
        'evaluations': ctx.evaluations,
        'distinct_nontrivial': len(ctx.distinct),
        'rule': ctx.rule,
        'samples': ctx.samples or ['(none)'],
        'counters': ctx.counters,
        'correspondence_disagreements': len(ctx.corr_breaks),
        'oracle_failures': len(ctx.violations),
        'notes': ctx.notes,
    }
    cov.update(ctx.extra)
    ev = {
        'property_id': ctx.prop, 'tier': ctx.tier, 'seed': ctx.seed, 'level': 'proof',
        'coverage': cov, 'assumptions': tb, 'wall_s': round(time.time() - ctx.t0, 2), 'violations': nviol,
    }
    os.makedirs(os.path.join(VERIF, 'evidence'), exist_ok=True)
    with open(os.path.join(VERIF, 'evidence', f'{ctx.prop}.json'), 'w') as f:
        json.dump(ev, f, indent=1, default=str)
