"""C02 — signal quality never improves along a path; passive elements leave it unchanged.

Tie: the tracing correspondence of harness/c01.py — on random designed networks every element __call__ is
wrapped, the primitive SpectralInformation updates each element really applies are logged, the logged sequence
must be an instance of the element kind's program (Model.SI.eprog_okb: Roadm/Fused = attenuations only,
Fiber = att;add_nli;att;att, RamanFiber = att;add_nli;add_ase;att;att, Edfa = demux;att?;add_ase;gain,
Multiband = per band Edfa then mux, Transceiver = nothing) and replaying it in the model from the snapshot before
the element must give the snapshot after it; plus random histories of the public info.py operations.
Oracle (on the implementation's own observations, every channel): OSNR_ASE, SNR_NLI and GSNR bit-identical across
Transceiver / Roadm / Fused and across every attenuation / gain (connector, padding, VOA, fibre loss);
an amplifier changes only the ASE side, a non-Raman fibre only the NLI side; nothing ever improves, element to
element and end to end.  The for-all part is Props/C02.v.
"""
import numpy as np

from . import c01, common

PROP = 'C02'
SLACK = 1e-12       # float rounding allowance on cross-multiplied comparisons


def _le(x, y, scale):
    return x <= y + SLACK * scale


def ratio_not_better(sn, dn, so, do):
    """new ratio sn/dn <= old ratio so/do, cross-multiplied (a zero denominator is +inf): sn*do <= so*dn"""
    lhs, rhs = sn * do, so * dn
    return lhs <= rhs + SLACK * np.maximum(np.abs(lhs), np.abs(rhs))


def ratio_same(sn, dn, so, do):
    lhs, rhs = sn * do, so * dn
    return np.abs(lhs - rhs) <= SLACK * np.maximum(np.abs(lhs), np.abs(rhs))


def first_bad(ok):
    ok = np.asarray(ok)
    return None if ok.all() else int(np.argmin(ok))


def align(b, a):
    """indices into b of the channels of a (by frequency); None if a channel of a is not in b"""
    pos = {f: i for i, f in enumerate(b['f'].tolist())}
    try:
        return np.array([pos[f] for f in a['f'].tolist()], dtype=int)
    except KeyError:
        return None


def quality_failures(claim, b, a, where):
    """one of the clauses of the statement between two aligned states (same channels, same order):
    'same'  : the three shares bit-identical;
    'ase'   : SNR_NLI unchanged, OSNR_ASE and GSNR not better;
    'nli'   : OSNR_ASE unchanged, SNR_NLI and GSNR not better;
    'any'   : none of the three better"""
    out = []

    def chk(key, ok, what):
        i = first_bad(ok)
        if i is not None:
            out.append((key, f'{where}: {what} (channel #{i}: shares {b["s"][i]!r},{b["a"][i]!r},{b["n"][i]!r} -> '
                             f'{a["s"][i]!r},{a["a"][i]!r},{a["n"][i]!r})'))
    if claim == 'same':
        chk('passive_changed_quality', (a['s'] == b['s']) & (a['a'] == b['a']) & (a['n'] == b['n']),
            'shares not bit-identical across a passive element / loss')
        return out
    chk('osnr_improved', ratio_not_better(a['s'], a['a'], b['s'], b['a']), 'OSNR_ASE improved')
    chk('snr_nli_improved', ratio_not_better(a['s'], a['n'], b['s'], b['n']), 'SNR_NLI improved')
    chk('gsnr_improved', ratio_not_better(a['s'], a['a'] + a['n'], b['s'], b['a'] + b['n']), 'GSNR improved')
    if claim == 'ase':
        chk('amplifier_changed_snr_nli', ratio_same(a['s'], a['n'], b['s'], b['n']), 'SNR_NLI changed where only ASE is added')
    if claim == 'nli':
        chk('fibre_changed_osnr', ratio_same(a['s'], a['a'], b['s'], b['a']), 'OSNR_ASE changed where only NLI is added')
    return out


CLAIM = {'Transceiver': 'same', 'Roadm': 'same', 'Fused': 'same', 'Fiber': 'nli', 'RamanFiber': 'any', 'Edfa': 'ase',
         'Multiband_amplifier': 'ase'}
PRIM_CLAIM = {'apply_attenuation_lin': 'same', 'apply_attenuation_db': 'same', 'apply_gain_lin': 'same',
              'apply_gain_db': 'same', 'add_ase': 'ase', 'add_nli': 'nli'}


def sub(sn, idx):
    return {k: v[idx] for k, v in sn.items()}


def path_oracle(res):
    fails = []
    first = None
    scope = True
    for c in res['calls']:
        where = f'{c["kind"]} {c["uid"]}'
        fails += c01.alias_failures(c)
        # every primitive update inside the element (connector / padding / VOA / fibre loss, noise additions)
        for k, e in enumerate(c['log']):
            if e['op'] not in PRIM_CLAIM or 'a' not in e:
                continue
            if e['op'] == 'add_nli':
                x = np.broadcast_to(e['arg'], e['b']['p'].shape) if e['arg'].ndim == 0 or \
                    e['arg'].shape in ((1,), e['b']['p'].shape) else None
                # out of scope only when the first-order NLI estimate exceeds the channel power; a negative increment
                # computed by gnpy itself is judged
                scope = scope and x is not None and bool(np.all((x <= e['b']['p']) | (x < 0)))
            if scope:
                fails += quality_failures(PRIM_CLAIM[e['op']], e['b'], e['a'], f'{where} update #{k + 1} {e["op"]}')
        b, a = c['before'], c['after']
        if a is None or not scope:
            continue
        if not c01.snap_finite(a):
            fails += c01.state_failures(a, 'after ' + where)
            scope = False
            continue
        idx = align(b, a)
        if idx is None:
            fails.append(('channel_created', f'{where}: a channel leaves the element that did not enter it'))
            continue
        fails += quality_failures(CLAIM[c['kind']], sub(b, idx), a, where)
        if first is None:
            first = b
        # end to end so far: not better than at launch
        idx0 = align(first, a)
        if idx0 is not None:
            fails += [(k + '_vs_launch', d) for k, d in quality_failures('any', sub(first, idx0), a, where + ' vs launch')]
    res['out_of_scope'] = not scope
    # the reported figures: the noise added at the transceiver can only lower them
    for u in (res['updates'] if scope else []):
        el, fig = u['el'], u['fig']
        if fig is None:
            continue
        with np.errstate(all='ignore'):
            for nm, raw in (('snr', 'raw_snr'), ('osnr_ase', 'raw_osnr_ase'), ('snr_01nm', 'raw_snr_01nm'),
                            ('osnr_ase_01nm', 'raw_osnr_ase_01nm')):
                v, r = fig[nm], fig[raw]
                i = first_bad(~(v > r + 1e-9))
                if i is not None:
                    fails.append(('reported_improved', f'{el.uid}: reported {nm} {v[i]!r} dB above the propagated value {r[i]!r} dB'))
    return fails


def hist_oracle(case, init, steps):
    fails = []
    if isinstance(init, str):
        return fails
    scope = True
    for k, st in enumerate(steps):
        c = st['c']
        op = c['op']
        where = f'op #{k + 1} {op}'
        scope = scope and c01.in_scope_step(st)
        for d in st.get('alias', []):
            fails.append(('aliasing', f'{where} changed an object it was not applied to: {d}'))
        if st['out'] != 'ok' or not scope or st['after'] is None or op == 'switch':
            continue
        b, a = st['before'], st['after']
        if not c01.snap_finite(a):
            fails += c01.state_failures(a, 'after ' + where)
            continue
        if op in ('att_lin', 'att_db', 'gain_lin', 'gain_db'):
            fails += quality_failures('same', b, a, where)
        elif op == 'ase':
            fails += quality_failures('ase', b, a, where)
        elif op == 'nli':
            fails += quality_failures('nli', b, a, where)
        else:
            # demux / split+merge / sum: surviving channels keep their shares bit-identically
            src = b if op != 'add' else {kk: np.concatenate([b[kk], st['other'][kk]]) for kk in b}
            pos = {}
            for i, f in enumerate(src['f'].tolist()):
                pos.setdefault(f, i)
            if all(f in pos for f in a['f'].tolist()):
                idx = np.array([pos[f] for f in a['f'].tolist()], dtype=int)
                fails += quality_failures('same', sub(src, idx), a, where)
            else:
                fails.append(('channel_created', f'{where}: a channel appears that was in neither operand'))
    return fails


def run(ctx):
    # second tie: re-translate the share / power updates, the derived figures and the selection tests of
    # gnpy/core/info.py from /repo's source and re-match the rest against templates; the equivalence lemmas of
    # Proofs/SIGen.v are then re-checked by check_props against what the code says now
    from . import pygen_c01
    gen_ok, gen_msg = pygen_c01.regenerate()
    ctx.proof = common.check_props(PROP)
    if not gen_ok:
        ctx.proof['ok'] = False
        ctx.proof['log'] = 'harness/pygen_c01.py: ' + gen_msg + '\n' + ctx.proof.get('log', '')
        ctx.proof['failed_file'] = 'theories/Gen/SIGen.v (translation of /repo source failed)'
    ctx.assumptions.append(
        'translator tie: harness/pygen_c01.py (fail-closed Python-ast -> Gallina: add_nli, add_ase, apply_attenuation_lin/db, '
        'apply_gain_lin/db, signal/ase/nli/snr_lin/snr_nli/gsnr, is_in_band and the two validity tests of the constructor are '
        'translated into per-channel functions over Q, numpy element-wise arithmetic read as the arithmetic of one channel, '
        'db2lin abstract; the constructor (argsort + indexing of every array), pch getter/setter, select_channels, __add__, '
        'demuxed/muxed_spectral_information, the dB views, Transceiver._calc_snr/update_snr and utils.snr_sum are matched '
        'statement by statement against templates; Multiband_amplifier.__call__ / Edfa.__call__ (templates of pygen_c07), '
        'Roadm / Edfa (+ noise_profile) / Fiber / RamanFiber .propagate (whole-body templates of pygen_c06 / c04 / c03), '
        'Fused.propagate, Transceiver.__call__ and the __call__ wrappers are template-matched and the primitives each body '
        'applies are extracted into g_program_<kind>) is trusted')
    ctx.rule = ('random designed networks (meshes, ROADM-less lines, multiband C+L, Raman on/off; every amplifier model of '
                'the shipped libraries; fused sites, connector / padding / VOA losses; mixed-rate launched spectra) propagated '
                'under a tracer: per element the logged primitive updates must be an instance of the kind\'s program and their '
                'model replay must reproduce the snapshot after the element; plus random histories of info.py operations; a '
                'path is non-trivial with >= 4 elements incl. fibre and amplifier, a history with >= 3 operation kinds; '
                'distinct by content hash')
    c01.IMPORTS = 'Prelude Model.SI Run.C02'
    c01.run_all(ctx, PROP, hist_oracle, path_oracle, 8, ctx.scale(100, 1000), ctx.scale(10, 100), ctx.scale(32, 320))
    return common.finish(ctx, {})
