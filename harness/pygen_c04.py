"""Translator tie for C04: the decision-critical scalar arithmetic of the amplifier code of /repo is re-read on every run,
translated (fail closed) into Gallina terms over the `Num` structure and written to coq/theories/Gen/AmpGen.v;
Proofs/AmpGen.v proves every generated definition equal to the hand-written model Model/Amp.v (for every Num, so also for
the instance NumR the theorems are about and the instance NumF that is executed).

What is TRANSLATED (expressions / branch structure become Gallina):
  Edfa._nf                    pad, the padded gain, dg, every branch of the type_def chain (variable_gain: g1a and the
                              two-coil formula; fixed_gain; openroadm and openroadm_preamp: the 50 GHz input power and the
                              OSNR mask; openroadm_booster: -inf; advanced_model: the polyval argument), the returned
                              (nf_avg + pad, pad)                                                     -> g_nf
  Edfa._calc_nf               dual stage: g1, g2, the gains handed to the two stages, the cascade formula; single stage:
                              the gain handed to _nf; the ripple added per channel                    -> g_calc_nf_avg, g_nf_channel
  Edfa.interpol_params        pin_db, slot_width, the saturation clamp                                 -> g_pin_db, g_slot_width, g_eff_gain
  Edfa.noise_profile          h * baud_rate * frequency * db2lin(nf)                                   -> g_ase_in
  Edfa.propagate              the gain handed to apply_gain_db                                         -> g_channel_gain_db
  Edfa._gain_profile          targ_slope, dgts1, the per-channel first estimate, voa, the per-channel tilted profile,
                              the total output power, dgts2, the flatness test, xlow/xhigh, slope1/slope2 and the
                              three-way choice of dgts3                                                -> g_targ_slope ... g_secant
  info.is_in_band             the two edge comparisons                                                 -> g_in_band
  json_io._update_dual_stage  p_max, gain_flatmax of a dual stage and the gain_min test                -> g_dual_p_max, g_dual_gain_flatmax, g_dual_rejected
  science_utils.estimate_nf_model   the whole function (guards, 2x2 solve, clipping branch, acceptance tests) -> g_estimate_nf_model
What is TEMPLATE-MATCHED (every statement must be the expected one; holes H_x are the translated parts): the numpy
interpolation / bookkeeping statements of SpectralInformation.__init__ (sorting of every per-channel array), interpol_params, _calc_nf, _gain_profile, propagate, __call__,
demuxed_spectral_information (the arguments handed to is_in_band) and _update_dual_stage.
Anything outside this raises Unsupported: the tie is then reported as broken.
Number conventions: int 0 -> nzero, 1 -> none, k -> #k; a float literal is written dec m e with m without trailing zeros
(50e9 -> dec 5 10, 0.05 -> dec 5 (-2)); an integral float below 10^6 is treated as that integer.
"""
import ast
import os
from decimal import Decimal

from . import common
from .pygen import Unsupported, dotted, unify, match_template, find, strip_doc

ELEMENTS = 'gnpy/core/elements.py'
INFO = 'gnpy/core/info.py'
JSON_IO = 'gnpy/tools/json_io.py'
SCIENCE = 'gnpy/core/science_utils.py'

CALLS = {'lin2db': 'lin2db', 'db2lin': 'db2lin', 'watt2dbm': 'watt2dbm', 'polyval': 'polyval', 'abs': 'nabs'}


def key_of(n):
    """dotted name, with constant subscripts:  self.channel_freq[1]"""
    if isinstance(n, ast.Subscript) and isinstance(n.slice, ast.Constant):
        return f'{key_of(n.value)}[{n.slice.value!r}]'
    return dotted(n)


class NumTr:
    """expressions over floats -> terms over `Num` (num_scope)"""

    def __init__(self, attr=None, names=None, optvars=(), listvars=()):
        self.attr = attr or {}
        self.names = names or {}
        self.optvars = set(optvars)      # names holding an NF that may be -inf: option T
        self.listvars = set(listvars)    # names holding a per-channel vector

    def const(self, v):
        if isinstance(v, bool) or not isinstance(v, (int, float)):
            raise Unsupported(f'constant {v!r}')
        if isinstance(v, float):
            if v != v or v in (float('inf'), float('-inf')):
                raise Unsupported('non-finite constant')
            if v == int(v) and abs(v) < 10 ** 6:
                v = int(v)
            else:
                d = Decimal(repr(v))
                sign, digits, exp = d.as_tuple()
                m = int(''.join(map(str, digits)))
                while m % 10 == 0 and m:
                    m //= 10
                    exp += 1
                m = -m if sign else m
                ms = f'({m})' if m < 0 else str(m)
                es = f'({exp})' if exp < 0 else str(exp)
                return f'(dec {ms} {es})'
        if v == 0:
            return 'nzero'
        if v == 1:
            return 'none'
        return f'#{v}' if v > 0 else f'#({v})'

    def is_opt(self, n):
        return isinstance(n, ast.Name) and n.id in self.optvars

    def e(self, n):
        if isinstance(n, ast.Constant):
            return self.const(n.value)
        if isinstance(n, ast.Name):
            if n.id in self.optvars:
                raise Unsupported(f'{n.id} (may be -inf) used outside db2lin / + / -')
            return self.names.get(n.id, n.id)
        if isinstance(n, (ast.Attribute, ast.Subscript)):
            k = key_of(n)
            if k in self.attr:
                return self.attr[k]
            raise Unsupported(f'attribute {k}')
        if isinstance(n, ast.UnaryOp) and isinstance(n.op, ast.USub):
            return f'(- {self.e(n.operand)})'
        if isinstance(n, ast.BinOp) and isinstance(n.op, (ast.Add, ast.Sub, ast.Mult, ast.Div)):
            op = {ast.Add: '+', ast.Sub: '-', ast.Mult: '*', ast.Div: '/'}[type(n.op)]
            return f'({self.e(n.left)} {op} {self.e(n.right)})'
        if isinstance(n, ast.IfExp):
            return f'(if {self.b(n.test)} then {self.e(n.body)} else {self.e(n.orelse)})'
        if isinstance(n, ast.Call):
            f = dotted(n.func)
            if f == 'array' and len(n.args) == 1 and not n.keywords:      # array(x): the value itself
                return self.e(n.args[0])
            if f in ('min', 'max') and len(n.args) == 2 and not n.keywords:
                return f"({'nmin' if f == 'min' else 'nmax'} {self.e(n.args[0])} {self.e(n.args[1])})"
            if f == 'clip' and len(n.args) == 3 and not n.keywords:          # numpy.clip(x, lo, hi)
                return f'(nmin (nmax {self.e(n.args[0])} {self.e(n.args[1])}) {self.e(n.args[2])})'
            if f == 'db2lin' and len(n.args) == 1 and self.opt_e(n.args[0]) is not None:
                return f'(odb2lin {self.opt_e(n.args[0])})'
            if f == 'db2lin' and len(n.args) == 1 and isinstance(n.args[0], ast.Name) and n.args[0].id in self.listvars:
                return f'(map db2lin {n.args[0].id})'
            if f == 'mean' and len(n.args) == 1 and not n.keywords:
                return f'(nmean {self.e(n.args[0])})'
            if f in CALLS and not n.keywords:
                return '(' + CALLS[f] + ' ' + ' '.join(self.e(a) for a in n.args) + ')'
            raise Unsupported(f'call of {f}')
        raise Unsupported(ast.dump(n)[:160])

    def opt_e(self, n):
        """NF-valued expression that may be -inf: an option variable, or option +/- number; None if n is not one"""
        if self.is_opt(n):
            return n.id
        if isinstance(n, ast.BinOp) and isinstance(n.op, (ast.Add, ast.Sub)):
            if self.is_opt(n.left):
                r = self.e(n.right)
                return f'(oadd {n.left.id} {r})' if isinstance(n.op, ast.Add) else f'(oadd {n.left.id} (- {r}))'
            if self.is_opt(n.right) and isinstance(n.op, ast.Add):
                return f'(oadd {n.right.id} {self.e(n.left)})'
        return None

    def b(self, n):
        if isinstance(n, ast.BoolOp):
            op = '&&' if isinstance(n.op, ast.And) else '||'
            return '(' + f' {op} '.join(self.b(v) for v in n.values) + ')'
        if isinstance(n, ast.UnaryOp) and isinstance(n.op, ast.Not):
            return f'(negb {self.b(n.operand)})'
        if isinstance(n, ast.Compare):
            parts, left = [], n.left
            for op, right in zip(n.ops, n.comparators):
                le, re_ = self.e(left), self.e(right)
                if isinstance(op, ast.Lt):
                    parts.append(f'({le} <? {re_})')
                elif isinstance(op, ast.LtE):
                    parts.append(f'({le} <=? {re_})')
                elif isinstance(op, ast.Gt):
                    parts.append(f'({re_} <? {le})')
                elif isinstance(op, ast.GtE):
                    parts.append(f'({re_} <=? {le})')
                elif isinstance(op, ast.NotEq) and re_ == 'nzero':
                    parts.append(f'(nneq0 {le})')
                else:
                    raise Unsupported(f'comparison {type(op).__name__}')
                left = right
            return parts[0] if len(parts) == 1 else '(' + ' && '.join(parts) + ')'
        if isinstance(n, ast.Call) and dotted(n.func) == 'isclose' and len(n.args) == 2 and len(n.keywords) == 1 \
                and n.keywords[0].arg == 'abs_tol' and isinstance(n.keywords[0].value, ast.Constant) \
                and n.keywords[0].value.value == 0.01:
            return f'(isclose001 {self.e(n.args[0])} {self.e(n.args[1])})'
        raise Unsupported('condition ' + ast.dump(n)[:160])


def is_neg_inf(n):
    return isinstance(n, ast.Call) and dotted(n.func) == 'float' and len(n.args) == 1 \
        and isinstance(n.args[0], ast.Constant) and n.args[0].value == '-inf'


def lets(tr, stmts, result):
    """`x = e` statements then the value of variable `result` -> nested lets ending in Some e / None"""
    out = []
    for i, s in enumerate(stmts):
        if not (isinstance(s, ast.Assign) and len(s.targets) == 1 and isinstance(s.targets[0], ast.Name)):
            raise Unsupported('only plain assignments are expected here: ' + ast.dump(s)[:120])
        name = s.targets[0].id
        if name == result:
            if i != len(stmts) - 1:
                raise Unsupported(f'{result} assigned before the end of the branch')
            val = 'None' if is_neg_inf(s.value) else f'Some {tr.e(s.value)}'
            return ''.join(out) + val
        out.append(f'let {name} := {tr.e(s.value)} in ')
    raise Unsupported(f'{result} is not assigned in a branch')


# ------------------------------------------------------------------ Edfa._nf
NF_TEMPLATE = """
pad = H_pad
gain_target += pad
dg = H_dg
H_CHAIN
return nf_avg + pad, pad
"""
TYPE_DEFS = {'variable_gain': ('NFVariable', ['nf1', 'nf2', 'delta_p']), 'fixed_gain': ('NFFixed', ['nf0']),
             'openroadm': ('NFOpenroadm', ['nf_coef']), 'openroadm_preamp': ('NFOpenroadmPreamp', []),
             'openroadm_booster': ('NFOpenroadmBooster', []), 'advanced_model': ('NFAdvanced', ['nf_fit_coeff'])}
NF_ATTR = {'nf_model.nf1': 'nf1', 'nf_model.nf2': 'nf2', 'nf_model.delta_p': 'delta_p', 'nf_model.nf0': 'nf0',
           'nf_model.nf_coef': 'nf_coef', 'self.pin_db': 'pin_db', 'self.nch': 'nch', 'self.slot_width': 'slot_width'}


def gen_nf(tree):
    fn = find(tree, 'Edfa._nf')
    if [a.arg for a in fn.args.args] != ['self', 'type_def', 'nf_model', 'nf_fit_coeff', 'gain_min', 'gain_flatmax', 'gain_target']:
        raise Unsupported('signature of Edfa._nf')
    binds = match_template(NF_TEMPLATE, strip_doc(fn.body), 'Edfa._nf')
    tr = NumTr(attr=NF_ATTR)
    arms, cur, seen = [], binds['H_CHAIN'], set()
    while True:
        if not isinstance(cur, ast.If):
            raise Unsupported('Edfa._nf: the model selection is not an if/elif chain')
        t = cur.test
        if not (isinstance(t, ast.Compare) and len(t.ops) == 1 and isinstance(t.ops[0], ast.Eq) and isinstance(t.left, ast.Name)
                and t.left.id == 'type_def' and isinstance(t.comparators[0], ast.Constant)
                and t.comparators[0].value in TYPE_DEFS):
            raise Unsupported('Edfa._nf: test of the model selection chain')
        td = t.comparators[0].value
        if td in seen:
            raise Unsupported(f'Edfa._nf: {td} selected twice')
        seen.add(td)
        cons, args = TYPE_DEFS[td]
        arms.append(f"    | {' '.join([cons] + args)} => {lets(tr, cur.body, 'nf_avg')}")
        if len(cur.orelse) == 1 and isinstance(cur.orelse[0], ast.If):
            cur = cur.orelse[0]
        else:
            if not (len(cur.orelse) == 1 and isinstance(cur.orelse[0], ast.Raise)):
                raise Unsupported('Edfa._nf: the chain must end with a raise for unknown type_def')
            break
    if seen != set(TYPE_DEFS):
        raise Unsupported(f'Edfa._nf: models handled {sorted(seen)} differ from the six of the model')
    return ('(* gnpy/core/elements.py: Edfa._nf *)\n'
            'Definition g_nf (s : stage) (gain_target pin_db nch slot_width : NT N) : option (NT N) * NT N :=\n'
            '  let gain_min := st_gain_min s in\n  let gain_flatmax := st_gain_flatmax s in\n'
            f"  let pad := {tr.e(binds['H_pad'])} in\n  let gain_target := gain_target + pad in\n"
            f"  let dg := {tr.e(binds['H_dg'])} in\n  let nf_avg :=\n    match st_model s with\n" + '\n'.join(arms)
            + '\n    end in\n  (oadd nf_avg pad, pad).\n')


# ------------------------------------------------------------------ Edfa._calc_nf
CALC_NF_TEMPLATE = """
if self.params.type_def == 'dual_stage':
    g1 = H_g1
    g2 = H_g2
    nf1_avg, pad = self._nf(self.params.preamp_type_def, self.params.preamp_nf_model, self.params.preamp_nf_fit_coeff,
                            self.params.preamp_gain_min, self.params.preamp_gain_flatmax, H_a1)
    nf2_avg, pad = self._nf(self.params.booster_type_def, self.params.booster_nf_model, self.params.booster_nf_fit_coeff,
                            self.params.booster_gain_min, self.params.booster_gain_flatmax, H_a2)
    nf_avg = H_nf
    pad = 0
else:
    nf_avg, pad = self._nf(self.params.type_def, self.params.nf_model, self.params.nf_fit_coeff, self.params.gain_min,
                           self.params.gain_flatmax, H_a3)
self.att_in = pad
if avg:
    return nf_avg
return H_ret
"""


def gen_calc_nf(tree):
    fn = find(tree, 'Edfa._calc_nf')
    b = match_template(CALC_NF_TEMPLATE, strip_doc(fn.body), 'Edfa._calc_nf')
    attr = {'self.params.preamp_gain_flatmax': '(st_gain_flatmax pre)', 'self.effective_gain': 'effective_gain'}
    tr = NumTr(attr=attr)
    tro = NumTr(attr=attr, optvars={'nf1_avg', 'nf2_avg'})
    trr = NumTr(attr={'self.interpol_nf_ripple': 'ripple'}, optvars={'nf_avg'})
    ret = trr.opt_e(b['H_ret'])
    if ret is None:
        raise Unsupported('Edfa._calc_nf: the returned per-channel NF is not ripple + nf_avg')
    return ('(* gnpy/core/elements.py: Edfa._calc_nf (average NF at the effective gain; ripple added per channel) *)\n'
            'Definition g_calc_nf_avg (k : amp_kind) (effective_gain pin_db nch slot_width : NT N) : option (NT N) :=\n'
            '  match k with\n  | Dual pre boost =>\n'
            f"      let g1 := {tr.e(b['H_g1'])} in\n      let g2 := {tr.e(b['H_g2'])} in\n"
            f"      let nf1_avg := fst (g_nf pre {tr.e(b['H_a1'])} pin_db nch slot_width) in\n"
            f"      let nf2_avg := fst (g_nf boost {tr.e(b['H_a2'])} pin_db nch slot_width) in\n"
            f"      Some {tro.e(b['H_nf'])}\n"
            f"  | Single s => fst (g_nf s {tr.e(b['H_a3'])} pin_db nch slot_width)\n  end.\n"
            f'Definition g_nf_channel (ripple : NT N) (nf_avg : option (NT N)) : option (NT N) := {ret}.\n')


# ------------------------------------------------------------------ Edfa.interpol_params
INTERPOL_TEMPLATE = """
self.channel_freq = spectral_info.frequency
amplifier_freq = arrange_frequencies(len(self.params.dgt), self.params.f_min, self.params.f_max)
self.interpol_dgt = interp(spectral_info.frequency, amplifier_freq, self.params.dgt)
amplifier_freq = arrange_frequencies(len(self.params.gain_ripple), self.params.f_min, self.params.f_max)
self.interpol_gain_ripple = interp(spectral_info.frequency, amplifier_freq, self.params.gain_ripple)
amplifier_freq = arrange_frequencies(len(self.params.nf_ripple), self.params.f_min, self.params.f_max)
self.interpol_nf_ripple = interp(spectral_info.frequency, amplifier_freq, self.params.nf_ripple)
self.nch = spectral_info.number_of_channels
pch_in = spectral_info.pch
self.pin_db = H_pin
self.slot_width = H_sw
self.effective_gain = H_eff
self.nf = self._calc_nf()
self.gprofile = self._gain_profile(pch_in)
pch_out = (pch_in + self.noise_profile(spectral_info)) * db2lin(self.gprofile)
self.pout_db = watt2dbm(sum(pch_out))
"""


def gen_interpol(tree):
    fn = find(tree, 'Edfa.interpol_params')
    b = match_template(INTERPOL_TEMPLATE, strip_doc(fn.body), 'Edfa.interpol_params')
    tr = NumTr(attr={'spectral_info.ptot': 'ptot', 'self.nch': 'nch', 'self.channel_freq[0]': 'f0', 'self.channel_freq[1]': 'f1',
                     'spectral_info.slot_width[0]': 'sw0', 'self.effective_gain': 'effective_gain',
                     'self.params.p_max': 'p_max', 'self.pin_db': 'pin_db'})
    return ('(* gnpy/core/elements.py: Edfa.interpol_params *)\n'
            f"Definition g_pin_db (ptot : NT N) : NT N := {tr.e(b['H_pin'])}.\n"
            f"Definition g_slot_width (nch f0 f1 sw0 : NT N) : NT N := {tr.e(b['H_sw'])}.\n"
            f"Definition g_eff_gain (effective_gain p_max pin_db : NT N) : NT N := {tr.e(b['H_eff'])}.\n")


# ------------------------------------------------------------------ Edfa.noise_profile, propagate, __call__, band filter
NOISE_TEMPLATE = """
ase = H_ase
return ase
"""
PROPAGATE_TEMPLATE = """
if self.in_voa is not None:
    spectral_info.apply_attenuation_db(self.in_voa)
self.interpol_params(spectral_info)
ase = self.noise_profile(spectral_info)
spectral_info.add_ase(ase)
spectral_info.apply_gain_db(H_gain)
spectral_info.pmd = sqrt(spectral_info.pmd ** 2 + self.params.pmd ** 2)
spectral_info.pdl = sqrt(spectral_info.pdl ** 2 + self.params.pdl ** 2)
self.pch_out_dbm = spectral_info.pch_dbm
self.propagated_labels = spectral_info.label
"""
CALL_TEMPLATE = """
band = next(b for b in self.params.bands)
spectral_info = demuxed_spectral_information(spectral_info, band)
if spectral_info is None:
    raise ValueError(H_msg)
self.propagate(spectral_info)
return spectral_info
"""
DEMUX_TEMPLATE = """
select = is_in_band(input_si.frequency, input_si.slot_width, band)
if any(select):
    spectrum = select_channels(input_si, select)
else:
    spectrum = None
return spectrum
"""
IN_BAND_TEMPLATE = """
return (H_lo) * (H_hi) == 1
"""


def gen_propagate(trees):
    el, info = trees[ELEMENTS], trees[INFO]
    b = match_template(NOISE_TEMPLATE, strip_doc(find(el, 'Edfa.noise_profile').body), 'Edfa.noise_profile')
    tr = NumTr(attr={'spectral_info.baud_rate': '(k_B c)', 'spectral_info.frequency': '(k_f c)'}, names={'h': 'planck'})
    ase = b['H_ase']
    # h * baud_rate * frequency * db2lin(self.nf): the last factor is the (possibly -inf) NF of the channel
    if not (isinstance(ase, ast.BinOp) and isinstance(ase.op, ast.Mult) and isinstance(ase.right, ast.Call)
            and dotted(ase.right.func) == 'db2lin' and len(ase.right.args) == 1 and key_of(ase.right.args[0]) == 'self.nf'):
        raise Unsupported('Edfa.noise_profile: the ASE is not <...> * db2lin(self.nf)')
    out = ['(* gnpy/core/elements.py: Edfa.noise_profile, one channel *)',
           f'Definition g_ase_in (c : ch) (nf : option (NT N)) : NT N := {tr.e(ase.left)} * odb2lin nf.']
    b = match_template(PROPAGATE_TEMPLATE, strip_doc(find(el, 'Edfa.propagate').body), 'Edfa.propagate')
    tr = NumTr(attr={'self.gprofile': 'g', 'self.out_voa': 'out_voa'})
    out += ['(* gnpy/core/elements.py: Edfa.propagate, gain [dB] applied to one channel after the ASE was added *)',
            f"Definition g_channel_gain_db (g out_voa : NT N) : NT N := {tr.e(b['H_gain'])}."]
    match_template(CALL_TEMPLATE, strip_doc(find(el, 'Edfa.__call__').body), 'Edfa.__call__')
    match_template(DEMUX_TEMPLATE, strip_doc(find(info, 'demuxed_spectral_information').body), 'demuxed_spectral_information')
    b = match_template(IN_BAND_TEMPLATE, strip_doc(find(info, 'is_in_band').body), 'is_in_band')
    tr = NumTr(attr={"band['f_min']": 'f_min', "band['f_max']": 'f_max'}, names={'frequency': '(k_f c)', 'slot_width': '(k_sw c)'})
    out += ['(* gnpy/core/info.py: is_in_band, one channel (demuxed_spectral_information hands it frequency and slot_width) *)',
            f"Definition g_in_band (f_min f_max : NT N) (c : ch) : bool := {tr.b(b['H_lo'])} && {tr.b(b['H_hi'])}."]
    return '\n'.join(out) + '\n'


# ------------------------------------------------------------------ Edfa._gain_profile
GAIN_PROFILE_TEMPLATE = """
if len(self.interpol_dgt) == 1:
    return array([self.effective_gain])
tot_in_power_db = self.pin_db
p = polyfit(self.channel_freq, self.interpol_dgt, 1)
dgt_slope = p[0]
targ_slope = H_targ
dgts1 = H_dgts1
if not simple_opt:
    return
g1st = H_g1st
voa = H_voa
g2nd = g1st - voa
pout_db = H_pout
dgts2 = H_dgts2
xcent = dgts2
gcent = H_tilted
pout_db = watt2dbm(sum(pin * db2lin(gcent)))
gavg_cent = H_gavg
deltax = max(g1st) - min(g1st)
if H_flat:
    return g1st - voa
xlow = H_xlow
glow = g1st - voa + array(self.interpol_dgt) * xlow
pout_db = watt2dbm(sum(pin * db2lin(glow)))
gavg_low = pout_db - tot_in_power_db
xhigh = H_xhigh
ghigh = g1st - voa + array(self.interpol_dgt) * xhigh
pout_db = watt2dbm(sum(pin * db2lin(ghigh)))
gavg_high = pout_db - tot_in_power_db
slope1 = H_slope1
slope2 = H_slope2
if H_c1:
    dgts3 = H_d1
elif H_c2:
    dgts3 = H_d2
else:
    dgts3 = H_d3
return g1st - voa + array(self.interpol_dgt) * dgts3
"""


def gen_gain_profile(tree):
    fn = find(tree, 'Edfa._gain_profile')
    names = [a.arg for a in fn.args.args]
    if names != ['self', 'pin', 'err_tolerance', 'simple_opt'] or len(fn.args.defaults) != 2:
        raise Unsupported('signature of Edfa._gain_profile')
    b = match_template(GAIN_PROFILE_TEMPLATE, strip_doc(fn.body), 'Edfa._gain_profile')
    tol = NumTr().e(fn.args.defaults[0])
    if not (isinstance(fn.args.defaults[1], ast.Constant) and fn.args.defaults[1].value is True):
        raise Unsupported('Edfa._gain_profile: simple_opt must default to True')
    a = {'self.tilt_target': 'tilt_target', 'self.params.f_max': 'f_max', 'self.params.f_min': 'f_min',
         'self.effective_gain': 'effective_gain', 'self.params.gain_flatmax': 'gain_flatmax',
         'self.interpol_gain_ripple': 'r', 'self.interpol_dgt': 'd'}
    tr = NumTr(attr=a, names={'err_tolerance': tol})
    trv = NumTr(attr=a, listvars={'g1st'})
    pout = b['H_pout']
    if not unify(ast.parse('watt2dbm(sum(pin * db2lin(g2nd)))').body[0].value, pout, {}):
        raise Unsupported('Edfa._gain_profile: total output power')
    tre = NumTr(attr=a, names={'g1st': 'g', 'xcent': 'x'})
    return ('(* gnpy/core/elements.py: Edfa._gain_profile (scalar steps; r, d, g: ripple, DGT, first estimate of ONE channel) *)\n'
            f"Definition g_targ_slope (tilt_target f_min f_max : NT N) : NT N := {tr.e(b['H_targ'])}.\n"
            f"Definition g_dgts1 (targ_slope dgt_slope : NT N) : NT N := {tr.e(b['H_dgts1'])}.\n"
            f"Definition g_g1st_elem (gain_flatmax dgts1 r d : NT N) : NT N := {tr.e(b['H_g1st'])}.\n"
            f"Definition g_voa (g1st : list (NT N)) (effective_gain : NT N) : NT N := {trv.e(b['H_voa'])}.\n"
            f"Definition g_tilted_elem (voa x g d : NT N) : NT N := {tre.e(b['H_tilted'])}.\n"
            '(* watt2dbm(sum(pin * db2lin(g))) *)\n'
            'Definition g_pout_db (pin g : list (NT N)) : NT N := watt2dbm (nsum (map2 (fun p gd => p * db2lin gd) pin g)).\n'
            f"Definition g_dgts2 (effective_gain pout_db tot_in_power_db : NT N) : NT N := {tr.e(b['H_dgts2'])}.\n"
            f"Definition g_gavg (pout_db tot_in_power_db : NT N) : NT N := {tr.e(b['H_gavg'])}.\n"
            f"Definition g_flat (deltax : NT N) : bool := {tr.b(b['H_flat'])}.\n"
            f"Definition g_xlow (dgts2 deltax : NT N) : NT N := {tr.e(b['H_xlow'])}.\n"
            f"Definition g_xhigh (dgts2 deltax : NT N) : NT N := {tr.e(b['H_xhigh'])}.\n"
            'Definition g_secant (effective_gain xcent gavg_cent xlow gavg_low xhigh gavg_high : NT N) : NT N :=\n'
            f"  let slope1 := {tr.e(b['H_slope1'])} in\n  let slope2 := {tr.e(b['H_slope2'])} in\n"
            f"  if {tr.b(b['H_c1'])} then {tr.e(b['H_d1'])}\n  else if {tr.b(b['H_c2'])} then {tr.e(b['H_d2'])}\n"
            f"  else {tr.e(b['H_d3'])}.\n")


# ------------------------------------------------------------------ json_io._update_dual_stage
DUAL_TEMPLATE = """
if 'Edfa' not in equipment:
    return
edfa_dict = equipment['Edfa']
for edfa in edfa_dict.values():
    if edfa.type_def == 'dual_stage':
        edfa_preamp = edfa_dict[edfa.dual_stage_model.preamp_variety]
        edfa_booster = edfa_dict[edfa.dual_stage_model.booster_variety]
        for key, value in edfa_preamp.__dict__.items():
            attr_k = 'preamp_' + key
            setattr(edfa, attr_k, value)
        for key, value in edfa_booster.__dict__.items():
            attr_k = 'booster_' + key
            setattr(edfa, attr_k, value)
        edfa.p_max = H_pmax
        edfa.gain_flatmax = H_gfm
        if H_cond:
            raise EquipmentConfigError(H_msg)
return equipment
"""


def gen_dual(tree):
    b = match_template(DUAL_TEMPLATE, strip_doc(find(tree, '_update_dual_stage').body), '_update_dual_stage')
    tr = NumTr(attr={'edfa_booster.p_max': 'boost_p_max', 'edfa_preamp.p_max': 'pre_p_max',
                     'edfa_booster.gain_flatmax': 'boost_gain_flatmax', 'edfa_preamp.gain_flatmax': 'pre_gain_flatmax',
                     'edfa.gain_min': 'gain_min', 'edfa_preamp.gain_min': 'pre_gain_min'})
    return ('(* gnpy/tools/json_io.py: _update_dual_stage *)\n'
            f"Definition g_dual_p_max (pre_p_max boost_p_max : NT N) : NT N := {tr.e(b['H_pmax'])}.\n"
            f"Definition g_dual_gain_flatmax (pre_gain_flatmax boost_gain_flatmax : NT N) : NT N := {tr.e(b['H_gfm'])}.\n"
            f"Definition g_dual_rejected (gain_min pre_gain_min : NT N) : bool := {tr.b(b['H_cond'])}.\n")


# ------------------------------------------------------------------ science_utils.estimate_nf_model (whole function)
def gen_estimate(tree):
    fn = find(tree, 'estimate_nf_model')
    if [a.arg for a in fn.args.args] != ['type_variety', 'gain_min', 'gain_max', 'nf_min', 'nf_max']:
        raise Unsupported('signature of estimate_nf_model')
    tr = NumTr()

    def block(stmts):
        if not stmts:
            raise Unsupported('estimate_nf_model may fall off its end')
        s, rest = stmts[0], stmts[1:]
        if isinstance(s, ast.Return):
            if not (isinstance(s.value, ast.Tuple) and len(s.value.elts) == 3):
                raise Unsupported('estimate_nf_model: return value')
            return 'Ok (' + ', '.join(tr.e(x) for x in s.value.elts) + ')'
        if isinstance(s, ast.Raise):
            if not (isinstance(s.exc, ast.Call) and dotted(s.exc.func) == 'EquipmentConfigError'):
                raise Unsupported('estimate_nf_model: raise')
            return 'Err "EquipmentConfigError"'
        if isinstance(s, ast.Assign) and len(s.targets) == 1 and isinstance(s.targets[0], ast.Name):
            return f'let {s.targets[0].id} := {tr.e(s.value)} in\n  {block(rest)}'
        if isinstance(s, ast.If) and not s.orelse:
            # `if c: body` followed by rest: the continuation is duplicated into both arms (no phi nodes needed)
            ends = isinstance(s.body[-1], (ast.Raise, ast.Return))
            then = block(s.body if ends else s.body + rest)
            return f'(if {tr.b(s.test)} then {then} else\n  {block(rest)})'
        raise Unsupported('estimate_nf_model: statement ' + ast.dump(s)[:120])
    return ('(* gnpy/core/science_utils.py: estimate_nf_model *)\n'
            'Definition g_estimate_nf_model (gain_min gain_max nf_min nf_max : NT N) : res (NT N * NT N * NT N) :=\n  '
            + block(strip_doc(fn.body)) + '.\n')


# ------------------------------------------------------------------ driver
def generate(repo=None):
    repo = repo or common.REPO
    trees = {p: ast.parse(open(os.path.join(repo, p)).read()) for p in (ELEMENTS, INFO, JSON_IO, SCIENCE)}
    # the per-channel vectors of the model are those of the spectral information: every array sorted by frequency alike
    from .pygen_c03 import SI_INIT_TEMPLATE
    match_template(SI_INIT_TEMPLATE, strip_doc(find(trees[INFO], 'SpectralInformation.__init__').body), 'SpectralInformation.__init__')
    parts = ['(* GENERATED on every run by harness/pygen_c04.py from gnpy/core/elements.py, gnpy/core/info.py,',
             '   gnpy/tools/json_io.py and gnpy/core/science_utils.py of /repo - do not edit. *)',
             'From Verif Require Import Prelude Num Model.Amp.', 'From Coq Require Import List.', 'Import ListNotations.', '',
             'Section AmpGen.', 'Context {N : Num}.', 'Local Open Scope num_scope.', '',
             gen_nf(trees[ELEMENTS]), gen_calc_nf(trees[ELEMENTS]), gen_interpol(trees[ELEMENTS]), gen_propagate(trees),
             gen_gain_profile(trees[ELEMENTS]), gen_dual(trees[JSON_IO]), gen_estimate(trees[SCIENCE]), 'End AmpGen.', '']
    return '\n'.join(parts)


def regenerate():
    """(Re)write coq/theories/Gen/AmpGen.v when its content changed. Returns (ok, message)."""
    dst = os.path.join(common.COQ, 'theories', 'Gen', 'AmpGen.v')
    try:
        txt = generate()
    except (Unsupported, SyntaxError, OSError, KeyError) as e:
        return False, f'translation failed: {type(e).__name__}: {e}'
    os.makedirs(os.path.dirname(dst), exist_ok=True)
    if not os.path.exists(dst) or open(dst).read() != txt:
        with open(dst, 'w') as f:
            f.write(txt)
    return True, 'ok'


if __name__ == '__main__':
    print(generate())
