"""Fail-closed translator from a small, explicitly listed subset of /repo's Python source to Gallina.

It is a *second* tie between code and model for the primitives of the spectrum-assignment properties (C14/C15):
on every run the listed functions are re-read from /repo, translated and written to
coq/theories/Gen/SpectrumGen.v; Proofs/SpectrumGen.v proves each generated definition equal to the hand-written
model (Model/Spectrum.v, Model/Oms.v), so an edit of the source that changes the meaning of one of these functions
breaks a proof obligation (and an edit that leaves the supported subset makes the translation fail, which the check
reports as a broken tie).  The behavioural correspondence run remains the main tie.

Supported subset (anything else raises Unsupported):
  statements : docstring | `x = e` | `a, b = e` | `if c: raise E(..)` | `if c: return e` | `return e` | `raise E(..)`
               | type guards `if not isinstance(x, T): raise ...` (dropped: the model is typed)
               | the accumulate loop  `res = []; for a, b in zip(x, y): if c: res.append(e1) else: res.append(e2); return res`
               | final slice assignment `T[a:b] = [v] * k`
  expressions: int / float-integer constants, names, attributes from ATTR, + - * (Z), `int(a / b)` (truncation), `ceil(a / b)`,
               comparisons, and / or / not, truthiness of a list, `x in [..]`, `xs[0]`, `xs[-1]`, tuples,
               calls of other translated functions and of the monadic model function geti.
"""
import ast
import os

from . import common


class Unsupported(Exception):
    pass


# source attribute chains -> Gallina terms
ATTR = {
    'self.spectrum_bitmap.freq_index_max': 'fi_max b',
    'self.spectrum_bitmap.freq_index_min': 'fi_min b',
    'self.spectrum_bitmap.n_max': 'n_max b',
    'self.spectrum_bitmap.n_min': 'n_min b',
    'self.spectrum_bitmap.bitmap': 'cells b',
    'BitmapValue.UNUSABLE': 'SU', 'BitmapValue.OCCUPIED': 'SO', 'BitmapValue.FREE': 'SF',
}
NAMES = {'FIRST_FIT': 'FirstFit', 'LAST_FIT': 'LastFit', 'None': 'None'}
MONADIC = {'self.spectrum_bitmap.geti': 'geti b'}

# function -> (file, qualified name, Gallina binder list, Gallina result type, kind)
FUNCS = [
    ('gnpy/topology/spectrum_assignment.py', 'mvalue_to_slots', '(nvalue mvalue : Z)', 'Z * Z', 'pure'),
    ('gnpy/topology/spectrum_assignment.py', 'slots_to_m', '(startn stopn : Z)', 'Z * Z', 'pure'),
    ('gnpy/topology/spectrum_assignment.py', 'bitmap_sum', '(band1 band2 : list slot)', 'list slot', 'pure'),
    ('gnpy/topology/spectrum_assignment.py', 'select_candidate', '(candidates : list (Z * Z * Z)) (policy : policy)',
     'res (option (Z * Z * Z))', 'res'),
    ('gnpy/topology/spectrum_assignment.py', 'OMS.assign_spectrum', '(b : bitmap) (nvalue mvalue : Z)', 'res bitmap', 'res'),
    ('gnpy/topology/request.py', 'compute_spectrum_slot_vs_bandwidth', '(bandwidth spacing bit_rate : Z)', 'Z * Z', 'pure'),
]


def dotted(node):
    if isinstance(node, ast.Name):
        return node.id
    if isinstance(node, ast.Attribute):
        return dotted(node.value) + '.' + node.attr
    raise Unsupported(ast.dump(node))


class Tr:
    def __init__(self, known, defaults):
        self.known = known          # translated function names
        self.defaults = defaults    # default values of omitted trailing args, per function
        self.pre = []               # hoisted monadic bindings of the statement being translated
        self.fresh = 0
        self.listvars = set()

    # ---------------------------------------------------------------- expressions
    def num(self, v):
        if isinstance(v, bool):
            return 'true' if v else 'false'
        if isinstance(v, int):
            return f'({v})' if v < 0 else str(v)
        if isinstance(v, float) and v == int(v):
            return str(int(v))
        raise Unsupported(f'constant {v!r}')

    def e(self, n):
        if isinstance(n, ast.Constant):
            if n.value is None:
                return 'None'
            return self.num(n.value)
        if isinstance(n, ast.Name):
            return NAMES.get(n.id, n.id)
        if isinstance(n, ast.Attribute):
            d = dotted(n)
            if d in ATTR:
                return ATTR[d]
            raise Unsupported(f'attribute {d}')
        if isinstance(n, ast.Tuple):
            if all(isinstance(x, ast.Constant) and x.value is None for x in n.elts):
                return 'None'       # (None, None, None): "no candidate"
            return '(' + ', '.join(self.e(x) for x in n.elts) + ')'
        if isinstance(n, ast.UnaryOp) and isinstance(n.op, ast.USub):
            return f'(- {self.e(n.operand)})'
        if isinstance(n, ast.UnaryOp) and isinstance(n.op, ast.Not):
            return f'(negb {self.b(n.operand)})'
        if isinstance(n, ast.BinOp):
            if isinstance(n.op, (ast.Add, ast.Sub, ast.Mult)):
                op = {ast.Add: '+', ast.Sub: '-', ast.Mult: '*'}[type(n.op)]
                if isinstance(n.op, ast.Mult) and isinstance(n.left, ast.List):
                    # [v] * k
                    if len(n.left.elts) != 1:
                        raise Unsupported('list repetition of a non-singleton')
                    return f'(repeat {self.e(n.left.elts[0])} (Z.to_nat {self.e(n.right)}))'
                return f'({self.e(n.left)} {op} {self.e(n.right)})'
            raise Unsupported(f'operator {type(n.op).__name__} outside int()/ceil()')
        if isinstance(n, ast.Call):
            f = dotted(n.func)
            if f in ('int', 'ceil') and len(n.args) == 1 and isinstance(n.args[0], ast.BinOp) \
                    and isinstance(n.args[0].op, ast.Div):
                a, b = self.e(n.args[0].left), self.e(n.args[0].right)
                # int(a / b): float division then truncation toward zero; ceil(a / b): ceiling of the quotient.
                # Exact for integer operands below 2^53 (trusted base).
                return f'(Z.quot {a} {b})' if f == 'int' else f'(cdiv {a} {b})'
            if f in MONADIC:
                self.fresh += 1
                v = f'm{self.fresh}'
                self.pre.append((v, f'{MONADIC[f]} ' + ' '.join(self.e(a) for a in n.args)))
                return v
            if f in self.known:
                args = [self.e(a) for a in n.args] + self.defaults.get(f, [])[len(n.args):]
                return f'(g_{f} ' + ' '.join(args) + ')'
            raise Unsupported(f'call of {f}')
        if isinstance(n, ast.Subscript):
            base = self.e(n.value)
            idx = n.slice
            if isinstance(idx, ast.Constant) and idx.value == 0:
                return f'(hd_error {base})'
            if isinstance(idx, ast.UnaryOp) and isinstance(idx.op, ast.USub) and isinstance(idx.operand, ast.Constant) \
                    and idx.operand.value == 1:
                return f'(hd_error (rev {base}))'
            raise Unsupported('subscript other than [0] / [-1]')
        raise Unsupported(ast.dump(n))

    def b(self, n):
        """boolean expressions (Python truthiness made explicit)"""
        if isinstance(n, ast.BoolOp):
            op = '&&' if isinstance(n.op, ast.And) else '||'
            return '(' + f' {op} '.join(self.b(v) for v in n.values) + ')'
        if isinstance(n, ast.UnaryOp) and isinstance(n.op, ast.Not):
            return f'(negb {self.b(n.operand)})'
        if isinstance(n, ast.Compare) and len(n.ops) == 1:
            l, r, op = n.left, n.comparators[0], n.ops[0]
            if isinstance(op, ast.In):
                if not isinstance(r, ast.List):
                    raise Unsupported('`in` with a non-literal list')
                return '(' + ' || '.join(f'slot_eqb {self.e(l)} {self.e(x)}' for x in r.elts) + ')'
            if isinstance(op, ast.Eq) and isinstance(r, ast.Name) and r.id in ('FIRST_FIT', 'LAST_FIT'):
                return f'(policy_eqb {self.e(l)} {self.e(r)})'
            le, re_ = self.e(l), self.e(r)
            if isinstance(op, ast.LtE):
                return f'({le} <=? {re_})'
            if isinstance(op, ast.Lt):
                return f'({le} <? {re_})'
            if isinstance(op, ast.Gt):
                return f'({re_} <? {le})'
            if isinstance(op, ast.GtE):
                return f'({re_} <=? {le})'
            if isinstance(op, ast.Eq):
                return f'({le} =? {re_})'
            raise Unsupported(f'comparison {type(op).__name__}')
        if isinstance(n, ast.Name) and n.id in self.listvars:
            return f'(negb (is_nil {n.id}))'        # truthiness of a list
        raise Unsupported('condition ' + ast.dump(n))

    # ---------------------------------------------------------------- statements
    def wrap(self, term):
        for v, rhs in reversed(self.pre):
            term = f'let* {v} := {rhs} in\n  {term}'
        self.pre = []
        return term

    def is_type_guard(self, s):
        return isinstance(s, ast.If) and isinstance(s.test, ast.UnaryOp) and isinstance(s.test.op, ast.Not) \
            and isinstance(s.test.operand, ast.Call) and dotted(s.test.operand.func) == 'isinstance' \
            and len(s.body) == 1 and isinstance(s.body[0], ast.Raise)

    def exc_name(self, r):
        if isinstance(r.exc, ast.Call):
            return dotted(r.exc.func)
        raise Unsupported('raise without a constructor call')

    def block(self, stmts, kind):
        if not stmts:
            raise Unsupported('function may fall off its end')
        s, rest = stmts[0], stmts[1:]
        ok = (lambda t: f'Ok {t}') if kind == 'res' else (lambda t: t)
        if isinstance(s, ast.Expr) and isinstance(s.value, ast.Constant) and isinstance(s.value.value, str):
            return self.block(rest, kind)
        if self.is_type_guard(s):
            return self.block(rest, kind)
        if isinstance(s, ast.Return):
            return self.wrap(ok(self.e(s.value)))
        if isinstance(s, ast.Raise):
            if kind != 'res':
                raise Unsupported('raise in a pure function')
            return f'Err "{self.exc_name(s)}"'
        if isinstance(s, ast.Assign) and len(s.targets) == 1:
            t = s.targets[0]
            # accumulate loop
            if isinstance(t, ast.Name) and isinstance(s.value, ast.List) and not s.value.elts and len(rest) == 2 \
                    and isinstance(rest[0], ast.For) and isinstance(rest[1], ast.Return) \
                    and isinstance(rest[1].value, ast.Name) and rest[1].value.id == t.id:
                return ok(self.accumulate(t.id, rest[0]))
            if isinstance(t, ast.Subscript) and isinstance(t.slice, ast.Slice) and not rest:
                # final slice assignment  T[a:b] = vals   (T must be the bitmap)
                if dotted(t.value) != 'self.spectrum_bitmap.bitmap' or kind != 'res':
                    raise Unsupported('slice assignment target')
                lo, hi = self.e(t.slice.lower), self.e(t.slice.upper)
                vals = self.e(s.value)
                return self.wrap(f'Ok (set_cells b (pyslice_assign (cells b) {lo} {hi} {vals}))')
            rhs = self.e(s.value)
            if isinstance(t, ast.Name):
                body = self.block(rest, kind)
                return self.wrap(f'let {t.id} := {rhs} in\n  {body}')
            if isinstance(t, ast.Tuple) and all(isinstance(x, ast.Name) for x in t.elts):
                pat = ', '.join(x.id for x in t.elts)
                body = self.block(rest, kind)
                return self.wrap(f"let '({pat}) := {rhs} in\n  {body}")
            raise Unsupported('assignment target')
        if isinstance(s, ast.If) and not s.orelse and len(s.body) == 1 and isinstance(s.body[0], (ast.Raise, ast.Return)):
            c = self.b(s.test)
            if self.pre:
                raise Unsupported('monadic call inside a condition')
            then = self.block(s.body, kind)
            return f'if {c} then {then} else\n  {self.block(rest, kind)}'
        raise Unsupported('statement ' + ast.dump(s)[:200])

    def accumulate(self, acc, loop):
        if not (isinstance(loop.iter, ast.Call) and dotted(loop.iter.func) == 'zip' and len(loop.iter.args) == 2
                and isinstance(loop.target, ast.Tuple) and len(loop.target.elts) == 2 and not loop.orelse
                and len(loop.body) == 1 and isinstance(loop.body[0], ast.If)):
            raise Unsupported('loop shape')
        iff = loop.body[0]

        def app(stmts):
            if len(stmts) == 1 and isinstance(stmts[0], ast.Expr) and isinstance(stmts[0].value, ast.Call) \
                    and dotted(stmts[0].value.func) == acc + '.append' and len(stmts[0].value.args) == 1:
                return self.e(stmts[0].value.args[0])
            raise Unsupported('loop body is not a single append')
        a, b_ = loop.target.elts[0].id, loop.target.elts[1].id
        x, y = self.e(loop.iter.args[0]), self.e(loop.iter.args[1])
        return (f"map (fun ab : slot * slot => let '({a}, {b_}) := ab in if {self.b(iff.test)} then {app(iff.body)} "
                f"else {app(iff.orelse)}) (combine {x} {y})")


def find(tree, qual):
    parts = qual.split('.')
    body = tree.body
    for p in parts:
        for n in body:
            if isinstance(n, (ast.ClassDef, ast.FunctionDef)) and n.name == p:
                node, body = n, n.body
                break
        else:
            raise Unsupported(f'{qual} not found')
    return node


def generate(repo=None):
    repo = repo or common.REPO
    out = ['(* GENERATED on every run by harness/pygen.py from the source files of /repo named below - do not edit. *)',
           'From Verif Require Import Prelude Model.Spectrum.', 'Open Scope Z_scope.', '',
           'Definition slot_eqb (a b : slot) : bool :=',
           '  match a, b with SU, SU => true | SO, SO => true | SF, SF => true | _, _ => false end.',
           'Definition policy_eqb (a b : policy) : bool :=',
           '  match a, b with FirstFit, FirstFit => true | LastFit, LastFit => true | _, _ => false end.',
           'Definition is_nil {A} (l : list A) : bool := match l with [] => true | _ => false end.', '']
    known, defaults = set(), {}
    trees = {}
    for path, qual, binders, rty, kind in FUNCS:
        if path not in trees:
            trees[path] = ast.parse(open(os.path.join(repo, path)).read())
        fn = find(trees[path], qual)
        name = qual.split('.')[-1]
        tr = Tr(known, defaults)
        # parameters bound as lists in the Gallina signature: their truthiness means "non-empty"
        import re as _re
        tr.listvars = {v for grp, ty in _re.findall(r'\(([^:()]+):\s*([^()]*(?:\([^()]*\))?[^()]*)\)', binders)
                       if ty.strip().startswith('list') for v in grp.split()}
        # default values of trailing parameters become part of the call sites
        nd = len(fn.args.defaults)
        dvals = [tr.e(d) for d in fn.args.defaults]
        pos = [a.arg for a in fn.args.args if a.arg != 'self']
        extra = ''
        if nd:
            dn = pos[-nd:]
            extra = ' ' + ' '.join(f'({n} : Z)' for n in dn)
            defaults[name] = [None] * (len(pos) - nd) + dvals
        body = tr.block(fn.body, kind)
        out.append(f'(* {path}: {qual} *)')
        out.append(f'Definition g_{name} {binders}{extra} : {rty} :=\n  {body}.\n')
        known.add(name)
    return '\n'.join(out)


def regenerate():
    """(Re)write coq/theories/Gen/SpectrumGen.v when its content changed. Returns (ok, message)."""
    dst = os.path.join(common.COQ, 'theories', 'Gen', 'SpectrumGen.v')
    try:
        txt = generate()
    except (Unsupported, SyntaxError, OSError) as e:
        return False, f'translation failed: {type(e).__name__}: {e}'
    os.makedirs(os.path.dirname(dst), exist_ok=True)
    if not os.path.exists(dst) or open(dst).read() != txt:
        with open(dst, 'w') as f:
            f.write(txt)
    return True, 'ok'


if __name__ == '__main__':
    print(generate())
