"""Fail-closed translator from a small, explicitly listed subset of /repo's Python source to Gallina.

It is a *second* tie between code and model for the primitives of the spectrum-assignment properties (C14/C15):
on every run the listed functions are re-read from /repo, translated and written to
coq/theories/Gen/SpectrumGen.v; Proofs/SpectrumGen.v proves each generated definition equal to the hand-written
model (Model/Spectrum.v, Model/Oms.v), so an edit of the source that changes the meaning of one of these functions
breaks a proof obligation (and an edit that leaves the supported subset makes the translation fail, which the check
reports as a broken tie).  The behavioural correspondence run remains the main tie.

Supported subset (anything else raises Unsupported):
  statements : docstring | `x = e` | `a, b = e` | `if c: raise E(..)` | `if c: return e` | `return e` | `raise E(..)`
               | type guards `if not isinstance(x, T): raise ...` (dropped: the model is typed)
               | the accumulate loop  `res = []; for a, b in zip(x, y): if c: res.append(e1) else: res.append(e2); return res`
               | final slice assignment `T[a:b] = [v] * k`
  expressions: int / float-integer constants, names, attributes from ATTR, + - * (Z), `int(a / b)` (truncation), `ceil(a / b)`,
               comparisons, and / or / not, truthiness of a list, `x in [..]`, `xs[0]`, `xs[-1]`, tuples,
               calls of other translated functions and of the monadic model function geti, `a // b`, string constants.
Control flow of compute_n_m and pth_assign_spectrum (gen_control_flow): the function bodies are matched against templates
(CNM_TEMPLATE, PTH_TEMPLATE: every statement must be the expected one, holes H_x stand for what is translated); the
if/elif/else chain of compute_n_m's loop body becomes g_cnm_step (one arm per None-ness pattern of (N, M); `break` ->
Break, `return [], [], required_m` -> ReturnBlocked, falling through -> Continue n m) and the decisions of
pth_assign_spectrum (the per-slot channel count, the two blocking tests and reasons) become g_pth_assign_one.
"""
import ast
import os

from . import common


class Unsupported(Exception):
    pass


# source attribute chains -> Gallina terms
ATTR = {
    'self.spectrum_bitmap.freq_index_max': 'fi_max b',
    'self.spectrum_bitmap.freq_index_min': 'fi_min b',
    'self.spectrum_bitmap.n_max': 'n_max b',
    'self.spectrum_bitmap.n_min': 'n_min b',
    'self.spectrum_bitmap.bitmap': 'cells b',
    'BitmapValue.UNUSABLE': 'SU', 'BitmapValue.OCCUPIED': 'SO', 'BitmapValue.FREE': 'SF',
}
NAMES = {'FIRST_FIT': 'FirstFit', 'LAST_FIT': 'LastFit', 'None': 'None'}
MONADIC = {'self.spectrum_bitmap.geti': 'geti b'}

# function -> (file, qualified name, Gallina binder list, Gallina result type, kind)
FUNCS = [
    ('gnpy/topology/spectrum_assignment.py', 'mvalue_to_slots', '(nvalue mvalue : Z)', 'Z * Z', 'pure'),
    ('gnpy/topology/spectrum_assignment.py', 'slots_to_m', '(startn stopn : Z)', 'Z * Z', 'pure'),
    ('gnpy/topology/spectrum_assignment.py', 'bitmap_sum', '(band1 band2 : list slot)', 'list slot', 'pure'),
    ('gnpy/topology/spectrum_assignment.py', 'select_candidate', '(candidates : list (Z * Z * Z)) (policy : policy)',
     'res (option (Z * Z * Z))', 'res'),
    ('gnpy/topology/spectrum_assignment.py', 'OMS.assign_spectrum', '(b : bitmap) (nvalue mvalue : Z)', 'res bitmap', 'res'),
    ('gnpy/topology/request.py', 'compute_spectrum_slot_vs_bandwidth', '(bandwidth spacing bit_rate : Z)', 'Z * Z', 'pure'),
]


def dotted(node):
    if isinstance(node, ast.Name):
        return node.id
    if isinstance(node, ast.Attribute):
        return dotted(node.value) + '.' + node.attr
    raise Unsupported(ast.dump(node))


class Tr:
    def __init__(self, known, defaults, attr=None, names=None, monadic=None):
        self.known = known          # translated function names
        self.defaults = defaults    # default values of omitted trailing args, per function
        self.pre = []               # hoisted monadic bindings of the statement being translated
        self.fresh = 0
        self.listvars = set()
        # the maps from source names to Gallina terms are per property (other properties pass their own)
        self.attr = ATTR if attr is None else attr
        self.names = NAMES if names is None else names
        self.monadic = MONADIC if monadic is None else monadic

    # ---------------------------------------------------------------- expressions
    def num(self, v):
        if isinstance(v, str):
            if '"' in v or '\\' in v:
                raise Unsupported(f'string constant {v!r}')
            return f'"{v}"'
        if isinstance(v, bool):
            return 'true' if v else 'false'
        if isinstance(v, int):
            return f'({v})' if v < 0 else str(v)
        if isinstance(v, float) and v == int(v):
            return str(int(v))
        raise Unsupported(f'constant {v!r}')

    def e(self, n):
        if isinstance(n, ast.Constant):
            if n.value is None:
                return 'None'
            return self.num(n.value)
        if isinstance(n, ast.Name):
            return self.names.get(n.id, n.id)
        if isinstance(n, ast.Attribute):
            d = dotted(n)
            if d in self.attr:
                return self.attr[d]
            raise Unsupported(f'attribute {d}')
        if isinstance(n, ast.Tuple):
            if all(isinstance(x, ast.Constant) and x.value is None for x in n.elts):
                return 'None'       # (None, None, None): "no candidate"
            return '(' + ', '.join(self.e(x) for x in n.elts) + ')'
        if isinstance(n, ast.UnaryOp) and isinstance(n.op, ast.USub):
            return f'(- {self.e(n.operand)})'
        if isinstance(n, ast.UnaryOp) and isinstance(n.op, ast.Not):
            return f'(negb {self.b(n.operand)})'
        if isinstance(n, ast.BinOp):
            if isinstance(n.op, (ast.Add, ast.Sub, ast.Mult)):
                op = {ast.Add: '+', ast.Sub: '-', ast.Mult: '*'}[type(n.op)]
                if isinstance(n.op, ast.Mult) and isinstance(n.left, ast.List):
                    # [v] * k
                    if len(n.left.elts) != 1:
                        raise Unsupported('list repetition of a non-singleton')
                    return f'(repeat {self.e(n.left.elts[0])} (Z.to_nat {self.e(n.right)}))'
                return f'({self.e(n.left)} {op} {self.e(n.right)})'
            if isinstance(n.op, ast.FloorDiv):
                # Python's // and Coq's Z.div both round towards minus infinity (remainder has the divisor's sign)
                return f'({self.e(n.left)} / {self.e(n.right)})'
            raise Unsupported(f'operator {type(n.op).__name__} outside int()/ceil()')
        if isinstance(n, ast.Call):
            f = dotted(n.func)
            if f in ('int', 'ceil') and len(n.args) == 1 and isinstance(n.args[0], ast.BinOp) \
                    and isinstance(n.args[0].op, ast.Div):
                a, b = self.e(n.args[0].left), self.e(n.args[0].right)
                # int(a / b): float division then truncation toward zero; ceil(a / b): ceiling of the quotient.
                # Exact for integer operands below 2^53 (trusted base).
                return f'(Z.quot {a} {b})' if f == 'int' else f'(cdiv {a} {b})'
            if f in self.monadic:
                self.fresh += 1
                v = f'm{self.fresh}'
                self.pre.append((v, f'{self.monadic[f]} ' + ' '.join(self.e(a) for a in n.args)))
                return v
            if f in self.known:
                args = [self.e(a) for a in n.args] + self.defaults.get(f, [])[len(n.args):]
                return f'(g_{f} ' + ' '.join(args) + ')'
            raise Unsupported(f'call of {f}')
        if isinstance(n, ast.Subscript):
            base = self.e(n.value)
            idx = n.slice
            if isinstance(idx, ast.Constant) and idx.value == 0:
                return f'(hd_error {base})'
            if isinstance(idx, ast.UnaryOp) and isinstance(idx.op, ast.USub) and isinstance(idx.operand, ast.Constant) \
                    and idx.operand.value == 1:
                return f'(hd_error (rev {base}))'
            raise Unsupported('subscript other than [0] / [-1]')
        raise Unsupported(ast.dump(n))

    def b(self, n):
        """boolean expressions (Python truthiness made explicit)"""
        if isinstance(n, ast.BoolOp):
            op = '&&' if isinstance(n.op, ast.And) else '||'
            return '(' + f' {op} '.join(self.b(v) for v in n.values) + ')'
        if isinstance(n, ast.UnaryOp) and isinstance(n.op, ast.Not):
            return f'(negb {self.b(n.operand)})'
        if isinstance(n, ast.Compare) and len(n.ops) == 1:
            l, r, op = n.left, n.comparators[0], n.ops[0]
            if isinstance(op, ast.In):
                if not isinstance(r, ast.List):
                    raise Unsupported('`in` with a non-literal list')
                return '(' + ' || '.join(f'slot_eqb {self.e(l)} {self.e(x)}' for x in r.elts) + ')'
            if isinstance(op, ast.Eq) and isinstance(r, ast.Name) and r.id in ('FIRST_FIT', 'LAST_FIT'):
                return f'(policy_eqb {self.e(l)} {self.e(r)})'
            le, re_ = self.e(l), self.e(r)
            if isinstance(op, ast.LtE):
                return f'({le} <=? {re_})'
            if isinstance(op, ast.Lt):
                return f'({le} <? {re_})'
            if isinstance(op, ast.Gt):
                return f'({re_} <? {le})'
            if isinstance(op, ast.GtE):
                return f'({re_} <=? {le})'
            if isinstance(op, ast.Eq):
                return f'({le} =? {re_})'
            raise Unsupported(f'comparison {type(op).__name__}')
        if isinstance(n, ast.Name) and n.id in self.listvars:
            return f'(negb (is_nil {n.id}))'        # truthiness of a list
        raise Unsupported('condition ' + ast.dump(n))

    # ---------------------------------------------------------------- statements
    def wrap(self, term):
        for v, rhs in reversed(self.pre):
            term = f'let* {v} := {rhs} in\n  {term}'
        self.pre = []
        return term

    def is_type_guard(self, s):
        return isinstance(s, ast.If) and isinstance(s.test, ast.UnaryOp) and isinstance(s.test.op, ast.Not) \
            and isinstance(s.test.operand, ast.Call) and dotted(s.test.operand.func) == 'isinstance' \
            and len(s.body) == 1 and isinstance(s.body[0], ast.Raise)

    def exc_name(self, r):
        if isinstance(r.exc, ast.Call):
            return dotted(r.exc.func)
        raise Unsupported('raise without a constructor call')

    def block(self, stmts, kind):
        if not stmts:
            raise Unsupported('function may fall off its end')
        s, rest = stmts[0], stmts[1:]
        ok = (lambda t: f'Ok {t}') if kind == 'res' else (lambda t: t)
        if isinstance(s, ast.Expr) and isinstance(s.value, ast.Constant) and isinstance(s.value.value, str):
            return self.block(rest, kind)
        if self.is_type_guard(s):
            return self.block(rest, kind)
        if isinstance(s, ast.Return):
            return self.wrap(ok(self.e(s.value)))
        if isinstance(s, ast.Raise):
            if kind != 'res':
                raise Unsupported('raise in a pure function')
            return f'Err "{self.exc_name(s)}"'
        if isinstance(s, ast.Assign) and len(s.targets) == 1:
            t = s.targets[0]
            # accumulate loop
            if isinstance(t, ast.Name) and isinstance(s.value, ast.List) and not s.value.elts and len(rest) == 2 \
                    and isinstance(rest[0], ast.For) and isinstance(rest[1], ast.Return) \
                    and isinstance(rest[1].value, ast.Name) and rest[1].value.id == t.id:
                return ok(self.accumulate(t.id, rest[0]))
            if isinstance(t, ast.Subscript) and isinstance(t.slice, ast.Slice) and not rest:
                # final slice assignment  T[a:b] = vals   (T must be the bitmap)
                if dotted(t.value) != 'self.spectrum_bitmap.bitmap' or kind != 'res':
                    raise Unsupported('slice assignment target')
                lo, hi = self.e(t.slice.lower), self.e(t.slice.upper)
                vals = self.e(s.value)
                return self.wrap(f'Ok (set_cells b (pyslice_assign (cells b) {lo} {hi} {vals}))')
            rhs = self.e(s.value)
            if isinstance(t, ast.Name):
                body = self.block(rest, kind)
                return self.wrap(f'let {t.id} := {rhs} in\n  {body}')
            if isinstance(t, ast.Tuple) and all(isinstance(x, ast.Name) for x in t.elts):
                pat = ', '.join(x.id for x in t.elts)
                body = self.block(rest, kind)
                return self.wrap(f"let '({pat}) := {rhs} in\n  {body}")
            raise Unsupported('assignment target')
        if isinstance(s, ast.If) and not s.orelse and len(s.body) == 1 and isinstance(s.body[0], (ast.Raise, ast.Return)):
            c = self.b(s.test)
            if self.pre:
                raise Unsupported('monadic call inside a condition')
            then = self.block(s.body, kind)
            return f'if {c} then {then} else\n  {self.block(rest, kind)}'
        raise Unsupported('statement ' + ast.dump(s)[:200])

    def accumulate(self, acc, loop):
        if not (isinstance(loop.iter, ast.Call) and dotted(loop.iter.func) == 'zip' and len(loop.iter.args) == 2
                and isinstance(loop.target, ast.Tuple) and len(loop.target.elts) == 2 and not loop.orelse
                and len(loop.body) == 1 and isinstance(loop.body[0], ast.If)):
            raise Unsupported('loop shape')
        iff = loop.body[0]

        def app(stmts):
            if len(stmts) == 1 and isinstance(stmts[0], ast.Expr) and isinstance(stmts[0].value, ast.Call) \
                    and dotted(stmts[0].value.func) == acc + '.append' and len(stmts[0].value.args) == 1:
                return self.e(stmts[0].value.args[0])
            raise Unsupported('loop body is not a single append')
        a, b_ = loop.target.elts[0].id, loop.target.elts[1].id
        x, y = self.e(loop.iter.args[0]), self.e(loop.iter.args[1])
        return (f"map (fun ab : slot * slot => let '({a}, {b_}) := ab in if {self.b(iff.test)} then {app(iff.body)} "
                f"else {app(iff.orelse)}) (combine {x} {y})")


# ------------------------------------------------------------------ templates with holes (control-flow glue)
def unify(t, n, binds):
    """structural equality of two ast nodes; a Name `H_x` in the template matches any expression, an expression
    statement consisting of such a Name matches any single statement; matched sub-trees are recorded in binds"""
    if isinstance(t, ast.Name) and t.id.startswith('H_'):
        binds[t.id] = n
        return True
    if isinstance(t, ast.Expr) and isinstance(t.value, ast.Name) and t.value.id.startswith('H_'):
        binds[t.value.id] = n
        return True
    if type(t) is not type(n):
        return False
    if isinstance(t, ast.AST):
        for f in t._fields:
            if f in ('type_comment', 'kind'):
                continue
            if not unify(getattr(t, f, None), getattr(n, f, None), binds):
                return False
        return True
    if isinstance(t, list):
        return len(t) == len(n) and all(unify(a, b, binds) for a, b in zip(t, n))
    return t == n


def strip_doc(body):
    if body and isinstance(body[0], ast.Expr) and isinstance(body[0].value, ast.Constant) \
            and isinstance(body[0].value.value, str):
        return body[1:]
    return body


def match_template(template_src, stmts, what):
    tmpl = ast.parse(template_src).body
    binds = {}
    if not unify(tmpl, stmts, binds):
        raise Unsupported(f'{what}: the control flow around the translated expressions no longer has the expected shape')
    return binds


CNM_TEMPLATE = """
selected_m = []
selected_n = []
remaining_slots_to_serve = required_m
rq_N, rq_M, order = order_slots([{'N': n, 'M': m} for n, m in zip(rq.N, rq.M)])
test_oms = aggregate_oms_bitmap(path_oms, oms_list)
for n, m in zip(rq_N, rq_M):
    H_CHAIN
    selected_m.append(m)
    selected_n.append(n)
    test_oms.assign_spectrum(n, m)
    remaining_slots_to_serve = remaining_slots_to_serve - m
not_selected = [None for i in range(len(rq_N) - len(selected_n))]
selected_m = restore_order(selected_m + not_selected, order)
selected_n = restore_order(selected_n + not_selected, order)
return selected_n, selected_m, remaining_slots_to_serve
"""

PTH_TEMPLATE = """
for pth, rq, rpth in zip(pths, rqs, rpths):
    if hasattr(rq, 'blocking_reason'):
        rq.N = None
        rq.M = None
    else:
        nb_wl, required_m = compute_spectrum_slot_vs_bandwidth(rq.path_bandwidth, rq.spacing, rq.bit_rate)
        _, per_channel_m = compute_spectrum_slot_vs_bandwidth(rq.bit_rate, rq.spacing, rq.bit_rate)
        path_oms = build_path_oms_id_list(pth + rpth)
        if getattr(rq, 'M', None) is not None and all(rq.M):
            nb_channels_of_request = sum(H_term for m in rq.M)
            if H_cond1:
                rq.N = None
                rq.M = None
                rq.blocking_reason = H_reason1
                continue
        selected_n, selected_m, remaining_slots_to_serve = \\
            compute_n_m(required_m, rq, path_oms, oms_list, per_channel_m, policy=policy)
        if H_cond2:
            rq.N = None
            rq.M = None
            rq.blocking_reason = H_reason2
            continue
        for oms_elem in path_oms:
            for this_n, this_m in zip(selected_n, selected_m):
                if this_m is not None:
                    oms_list[oms_elem].assign_spectrum(this_n, this_m)
            oms_list[oms_elem].add_service(rq.request_id, nb_wl)
        rq.N = selected_n
        rq.M = selected_m
"""


def none_test(test, env):
    """value of a condition built from `x is None` / `x is not None` (x a loop variable) under the pattern env
    (name -> True when bound to a value, False when None); None when the condition is of another kind"""
    if isinstance(test, ast.BoolOp):
        vals = [none_test(v, env) for v in test.values]
        if any(v is None for v in vals):
            return None
        return all(vals) if isinstance(test.op, ast.And) else any(vals)
    if isinstance(test, ast.Compare) and len(test.ops) == 1 and isinstance(test.left, ast.Name) \
            and test.left.id in env and isinstance(test.comparators[0], ast.Constant) \
            and test.comparators[0].value is None and isinstance(test.ops[0], (ast.Is, ast.IsNot)):
        return (not env[test.left.id]) if isinstance(test.ops[0], ast.Is) else env[test.left.id]
    return None


class CnmBody:
    """the if/elif/else chain at the head of compute_n_m's loop body -> a Gallina term of type res step_res"""

    def __init__(self, tr):
        self.tr = tr

    def is_blocked_return(self, s):
        b = {}
        return unify(ast.parse('return [], [], required_m').body[0], s, b)

    def exit_of(self, stmts):
        if len(stmts) == 1 and isinstance(stmts[0], ast.Break):
            return 'Ok Break'
        if len(stmts) == 1 and self.is_blocked_return(stmts[0]):
            return 'Ok ReturnBlocked'
        raise Unsupported('exit other than `break` / `return [], [], required_m` in the loop body of compute_n_m')

    def branch(self, stmts, bound, optvars):
        """bound: names holding a Z; optvars: names holding an option Z (result of a selection)"""
        if not stmts:
            if 'n' in bound and 'm' in bound:
                return 'Ok (Continue n m)'
            raise Unsupported('a branch of compute_n_m ends without both n and m defined')
        s, rest = stmts[0], stmts[1:]
        tr = self.tr
        if isinstance(s, ast.Assign) and len(s.targets) == 1:
            t, v = s.targets[0], s.value
            if isinstance(v, ast.Call) and dotted(v.func) == 'determine_slot_numbers' and isinstance(t, ast.Name):
                if len(v.args) != 4 or v.keywords or dotted(v.args[0]) != 'test_oms':
                    raise Unsupported('call of determine_slot_numbers')
                args = ' '.join(self.val(a, bound) for a in v.args[1:])
                return f'let* {t.id} := determine_slot_numbers test {args} in\n    ' \
                    + self.branch(rest, bound | {t.id}, optvars)
            if isinstance(v, ast.Call) and dotted(v.func) == 'spectrum_selection':
                b = {}
                if not unify(ast.parse('n, _, _ = spectrum_selection(test_oms, H_m, None, policy=policy)').body[0], s, b):
                    raise Unsupported('call of spectrum_selection')
                return f'let* n_sel := select_free test {self.val(b["H_m"], bound)} policy in\n    ' \
                    + self.branch(rest, bound - {'n'}, optvars | {'n'})
            if isinstance(t, ast.Name):
                return f'let {t.id} := {self.val(v, bound)} in\n    ' + self.branch(rest, bound | {t.id}, optvars - {t.id})
            raise Unsupported('assignment in the loop body of compute_n_m')
        if isinstance(s, ast.If) and not s.orelse:
            ex = self.exit_of(s.body)
            nt = none_test(s.test, {v: False for v in optvars})
            if nt is not None:
                # `if n is None: <exit>` right after a selection
                b = {}
                if not (len(optvars) == 1 and unify(ast.parse('n is None').body[0].value, s.test, b)):
                    raise Unsupported('None test in the loop body of compute_n_m')
                return f'match n_sel with None => {ex} | Some n =>\n    ' \
                    + self.branch(rest, bound | {'n'}, set()) + ' end'
            for name in [x.id for x in ast.walk(s.test) if isinstance(x, ast.Name)]:
                if name in optvars or (name in ('n', 'm') and name not in bound):
                    raise Unsupported(f'{name} used while it may be None')
            return f'if {tr.b(s.test)} then {ex} else\n    ' + self.branch(rest, bound, optvars)
        raise Unsupported('statement in the loop body of compute_n_m: ' + ast.dump(s)[:120])

    def val(self, node, bound):
        for x in ast.walk(node):
            if isinstance(x, ast.Name) and x.id in ('n', 'm') and x.id not in bound:
                raise Unsupported(f'{x.id} used while it is None')
        return self.tr.e(node)

    def chain(self, node):
        arms = []
        cur = node
        while True:
            if not isinstance(cur, ast.If):
                raise Unsupported('head of the loop body of compute_n_m is not an if/elif chain')
            arms.append((cur.test, cur.body))
            if len(cur.orelse) == 1 and isinstance(cur.orelse[0], ast.If):
                cur = cur.orelse[0]
            else:
                other = cur.orelse
                break
        if not other:
            raise Unsupported('if/elif chain of compute_n_m without else')
        out = []
        for n_some, m_some in ((True, True), (False, True), (True, False), (False, False)):
            env = {'n': n_some, 'm': m_some}
            body = other
            for test, b in arms:
                v = none_test(test, env)
                if v is None:
                    raise Unsupported('a test of the if/elif chain of compute_n_m is not about None-ness of n, m')
                if v:
                    body = b
                    break
            pat = f"({'Some n' if n_some else 'None'}, {'Some m' if m_some else 'None'})"
            bound = {x for x, k in env.items() if k} | {'required_m', 'remaining_slots_to_serve', 'per_channel_m'}
            out.append(f'  | {pat} =>\n    ' + self.branch(body, bound, set()))
        return '\n'.join(out)


DSN_TEMPLATE = """
bitmap = test_oms.spectrum_bitmap
freq_index = bitmap.freq_index
freq_index_min = bitmap.freq_index_min
freq_index_max = bitmap.freq_index_max
freq_availability = bitmap.bitmap
if requested_n not in freq_index:
    return 0
center_i = bitmap.geti(requested_n)
i = per_channel_m
while H_cond:
    i += per_channel_m
return i - per_channel_m
"""

SEL_TEMPLATE = """
freq_index = test_oms.spectrum_bitmap.freq_index
freq_index_min = test_oms.spectrum_bitmap.freq_index_min
freq_index_max = test_oms.spectrum_bitmap.freq_index_max
freq_availability = test_oms.spectrum_bitmap.bitmap
if requested_n is None:
    candidates = [(H_centre, freq_index[i], freq_index[i] + 2 * requested_m - 1)
                  for i in range(len(freq_availability))
                  if H_cond]
    candidate = select_candidate(candidates, policy=policy)
else:
    i = test_oms.spectrum_bitmap.geti(requested_n)
    if (freq_availability[i - requested_m:i + requested_m] == [BitmapValue.FREE] * (2 * requested_m)
            and freq_index[i - requested_m] >= freq_index_min
            and freq_index[i + requested_m - 1] <= freq_index_max):
        candidate = (requested_n, requested_n - requested_m, requested_n + requested_m - 1)
    else:
        candidate = (None, None, None)
return candidate
"""

AGG_TEMPLATE = """
spectrum = oms_list[path_oms[0]].spectrum_bitmap
bitmap = list(spectrum.bitmap)
for oms in path_oms[1:]:
    bitmap = bitmap_sum(oms_list[oms].spectrum_bitmap.bitmap, bitmap)
params = {'oms_id': 0, 'el_id_list': 0, 'el_list': []}
freq_min = nvalue_to_frequency(spectrum.n_min)
freq_max = nvalue_to_frequency(spectrum.n_max)
aggregate_oms = OMS(**params)
aggregate_oms.update_spectrum(freq_min, freq_max, grid=DEFAULT_GRID, guardband=spectrum.guardband,
                              existing_spectrum=bitmap)
return aggregate_oms
"""

IDX_NAMES = {'freq_index_min': 'fi_min b', 'freq_index_max': 'fi_max b'}


class TrIdx(Tr):
    """expressions over the local aliases of determine_slot_numbers / spectrum_selection: freq_index[e] is the (partial)
    lookup idx_at, `freq_availability[a:b] == [BitmapValue.FREE] * k` is slice_all_free"""

    def __init__(self, known, defaults):
        super().__init__(known, defaults, names=dict(NAMES, **IDX_NAMES))

    def e(self, n):
        if isinstance(n, ast.Subscript) and isinstance(n.value, ast.Name) and n.value.id == 'freq_index' \
                and not isinstance(n.slice, ast.Slice):
            self.fresh += 1
            v = f'm{self.fresh}'
            self.pre.append((v, f'idx_at b {self.e(n.slice)}'))
            return v
        return super().e(n)

    def b(self, n):
        if isinstance(n, ast.Compare) and len(n.ops) == 1 and isinstance(n.ops[0], ast.Eq):
            bnd = {}
            if unify(ast.parse('freq_availability[H_lo:H_hi] == [BitmapValue.FREE] * H_k').body[0].value, n, bnd):
                return f'slice_all_free (cells b) {self.e(bnd["H_lo"])} {self.e(bnd["H_hi"])} {self.e(bnd["H_k"])}'
        return super().b(n)

    def chain(self, test):
        """`c1 and c2 and ...` with Python's short-circuit and partial lookups -> a term of type res bool"""
        conj = test.values if isinstance(test, ast.BoolOp) and isinstance(test.op, ast.And) else [test]
        parts = []
        for c in conj:
            cond = self.b(c)
            parts.append((self.pre, cond))
            self.pre = []
        term = None
        for pre, cond in reversed(parts):
            t = f'Ok {cond}' if term is None else f'if {cond} then\n  {term} else Ok false'
            for v, rhs in reversed(pre):
                t = f'let* {v} := {rhs} in\n  {t}'
            term = t
        return term


def gen_selection(trees, known, defaults):
    """g_dsn_cond (loop condition of determine_slot_numbers), g_cand_ok / g_cand_centre (comprehension of
    spectrum_selection); aggregate_oms_bitmap is template-matched only"""
    tree = trees['gnpy/topology/spectrum_assignment.py']
    out = []
    b = match_template(DSN_TEMPLATE, strip_doc(find(tree, 'determine_slot_numbers').body), 'determine_slot_numbers')
    out.append('(* gnpy/topology/spectrum_assignment.py: determine_slot_numbers, condition of the growing loop *)')
    out.append('Definition g_dsn_cond (b : bitmap) (center_i i required_m : Z) : res bool :=\n  '
               + TrIdx(known, defaults).chain(b['H_cond']) + '.\n')
    b = match_template(SEL_TEMPLATE, strip_doc(find(tree, 'spectrum_selection').body), 'spectrum_selection')
    out.append('(* gnpy/topology/spectrum_assignment.py: spectrum_selection (free N), condition and centre of a candidate *)')
    out.append('Definition g_cand_ok (b : bitmap) (requested_m i : Z) : res bool :=\n  '
               + TrIdx(known, defaults).chain(b['H_cond']) + '.\n')
    tr = TrIdx(known, defaults)
    centre = tr.e(b['H_centre'])
    out.append('Definition g_cand_centre (b : bitmap) (requested_m i : Z) : res Z :=\n  ' + tr.wrap(f'Ok {centre}') + '.\n')
    match_template(AGG_TEMPLATE, strip_doc(find(tree, 'aggregate_oms_bitmap').body), 'aggregate_oms_bitmap')
    out.append('(* gnpy/topology/spectrum_assignment.py: aggregate_oms_bitmap matches its template (first bitmap copied, '
               'bitmap_sum over the others, same n_min / n_max / guard band) *)\n')
    return out


# helpers whose whole body must stay the expected one (ordering of the requested slots; the model's order_slots /
# restore_order are their Gallina counterparts, tied by the correspondence run)
FROZEN = [
    ('gnpy/core/utils.py', 'replace_none', """
for key, val in dictionary.items():
    if val is None:
        dictionary[key] = float('inf')
    if val == float('inf'):
        dictionary[key] = None
return dictionary
"""),
    ('gnpy/core/utils.py', 'order_slots', """
slots_list = deepcopy(slots)
slots_list = [replace_none(e) for e in slots_list]
for i, e in enumerate(slots_list):
    e['i'] = i
slots_list = sorted(slots_list, key=lambda x: (-x['M'], x['N']) if x['M'] != float('inf') else (x['M'], x['N']))
slots_list = [replace_none(e) for e in slots_list]
return [e['N'] for e in slots_list], [e['M'] for e in slots_list], [e['i'] for e in slots_list]
"""),
    ('gnpy/core/utils.py', 'restore_order', """
return [elements[i[0]] for i in sorted(enumerate(order), key=lambda x:x[1]) if elements[i[0]] is not None]
"""),
]


def gen_frozen(repo, trees):
    out = []
    for path, name, tmpl in FROZEN:
        if path not in trees:
            trees[path] = ast.parse(open(os.path.join(repo, path)).read())
        match_template(tmpl, strip_doc(find(trees[path], name).body), name)
        out.append(f'(* {path}: {name} matches its template *)')
    return out + ['']


def gen_control_flow(trees, known, defaults):
    """g_cnm_step and g_pth_assign_one: the decisions of compute_n_m / pth_assign_spectrum; the bookkeeping around them
    (lists, ordering, the commit loops) is matched against a template, not translated"""
    tree = trees['gnpy/topology/spectrum_assignment.py']
    out = []
    fn = find(tree, 'compute_n_m')
    binds = match_template(CNM_TEMPLATE, strip_doc(fn.body), 'compute_n_m')
    tr = Tr(known, defaults)
    body = CnmBody(tr).chain(binds['H_CHAIN'])
    out.append('(* gnpy/topology/spectrum_assignment.py: compute_n_m, decision taken for one (N, M) of the request *)')
    out.append('Definition g_cnm_step (test : bitmap) (required_m remaining_slots_to_serve per_channel_m : Z) '
               '(policy : policy) (s : slot_req) : res step_res :=\n  match s with\n' + body + '\n  end.\n')
    fn = find(tree, 'pth_assign_spectrum')
    binds = match_template(PTH_TEMPLATE, strip_doc(fn.body), 'pth_assign_spectrum')
    tr = Tr(known, defaults)
    term, c1, c2 = tr.e(binds['H_term']), tr.b(binds['H_cond1']), tr.b(binds['H_cond2'])
    r1, r2 = tr.e(binds['H_reason1']), tr.e(binds['H_reason2'])
    if tr.pre:
        raise Unsupported('monadic call in a decision of pth_assign_spectrum')
    out.append('(* gnpy/topology/spectrum_assignment.py: pth_assign_spectrum, one request *)')
    out.append(f"""Definition g_pth_assign_one (policy : policy) (st : state) (rq : request) : res (state * outcome) :=
  if pre_blocked rq then Ok (st, Skipped) else
  let '(nb_wl, required_m) :=
    g_compute_spectrum_slot_vs_bandwidth (bandwidth rq) (spacing rq) (bit_rate rq) slot_width in
  let '(_, per_channel_m) :=
    g_compute_spectrum_slot_vs_bandwidth (bit_rate rq) (spacing rq) (bit_rate rq) slot_width in
  if all_m_defined (slots rq) &&
     (let nb_channels_of_request :=
        fold_left (fun acc s => match snd s with Some m => acc + {term} | None => acc end) (slots rq) 0 in
      {c1})
  then Ok (st, Blocked {r1}) else
  let* r := compute_n_m st required_m per_channel_m policy (slots rq) (path_oms rq) in
  let '(selected_n, selected_m, remaining_slots_to_serve) := r in
  if {c2} then Ok (st, Blocked {r2}) else
  let* st' := commit st (path_oms rq) selected_n selected_m (rid rq) nb_wl in
  Ok (st', Accepted selected_n selected_m).
""")
    return out


def find(tree, qual):
    parts = qual.split('.')
    body = tree.body
    for p in parts:
        for n in body:
            if isinstance(n, (ast.ClassDef, ast.FunctionDef)) and n.name == p:
                node, body = n, n.body
                break
        else:
            raise Unsupported(f'{qual} not found')
    return node


def generate(repo=None):
    repo = repo or common.REPO
    out = ['(* GENERATED on every run by harness/pygen.py from the source files of /repo named below - do not edit. *)',
           'From Verif Require Import Prelude Model.Spectrum.', 'Open Scope Z_scope.', '',
           'Definition slot_eqb (a b : slot) : bool :=',
           '  match a, b with SU, SU => true | SO, SO => true | SF, SF => true | _, _ => false end.',
           'Definition policy_eqb (a b : policy) : bool :=',
           '  match a, b with FirstFit, FirstFit => true | LastFit, LastFit => true | _, _ => false end.',
           'Definition is_nil {A} (l : list A) : bool := match l with [] => true | _ => false end.', '']
    known, defaults = set(), {}
    trees = {}
    for path, qual, binders, rty, kind in FUNCS:
        if path not in trees:
            trees[path] = ast.parse(open(os.path.join(repo, path)).read())
        fn = find(trees[path], qual)
        name = qual.split('.')[-1]
        tr = Tr(known, defaults)
        # parameters bound as lists in the Gallina signature: their truthiness means "non-empty"
        import re as _re
        tr.listvars = {v for grp, ty in _re.findall(r'\(([^:()]+):\s*([^()]*(?:\([^()]*\))?[^()]*)\)', binders)
                       if ty.strip().startswith('list') for v in grp.split()}
        # default values of trailing parameters become part of the call sites
        nd = len(fn.args.defaults)
        dvals = [tr.e(d) for d in fn.args.defaults]
        pos = [a.arg for a in fn.args.args if a.arg != 'self']
        extra = ''
        if nd:
            dn = pos[-nd:]
            extra = ' ' + ' '.join(f'({n} : Z)' for n in dn)
            defaults[name] = [None] * (len(pos) - nd) + dvals
        body = tr.block(fn.body, kind)
        out.append(f'(* {path}: {qual} *)')
        out.append(f'Definition g_{name} {binders}{extra} : {rty} :=\n  {body}.\n')
        known.add(name)
    out += gen_selection(trees, known, defaults)
    out += gen_frozen(repo, trees)
    out += gen_control_flow(trees, known, defaults)
    return '\n'.join(out)


def regenerate():
    """(Re)write coq/theories/Gen/SpectrumGen.v when its content changed. Returns (ok, message)."""
    dst = os.path.join(common.COQ, 'theories', 'Gen', 'SpectrumGen.v')
    try:
        txt = generate()
    except (Unsupported, SyntaxError, OSError) as e:
        return False, f'translation failed: {type(e).__name__}: {e}'
    os.makedirs(os.path.dirname(dst), exist_ok=True)
    if not os.path.exists(dst) or open(dst).read() != txt:
        with open(dst, 'w') as f:
            f.write(txt)
    return True, 'ok'


if __name__ == '__main__':
    print(generate())
