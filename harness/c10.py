"""C10 — auto-selected amplifiers are allowed, capable and the quietest capable choice.

Tie: (A) `select_edfa` is called directly on random candidate dicts (1-12 entries of a random, validity-aware
equipment library) x random (gain, power, extended gain, raman_allowed) targets; (B) random small networks are
auto-designed with `get_node_restrictions` and `select_edfa` wrapped, so that every amplifier node yields
(node, neighbours, restriction lists at amp / ROADM element / ROADM library level, design band, targets) -> what the
implementation did.  Both are compared with the Gallina model `Verif.Model.Select` and, independently, judged by
the property itself (brute force over the library).  The for-all part is Props/C10.v.
"""
import copy
import glob
import json
import logging
import math
import os

from . import common
from .common import qlit, listlit, strlit

NEG_INF_NF = -1.0e6      # stands for the -inf noise figure of an openroadm_booster
TOL = 1e-9


# ------------------------------------------------------------------ equipment library generator
def _vg_nf(rng, name, gmin, gmax):
    """(nf_min, nf_max) from the region estimate_nf_model accepts (rejection per amplifier, never per library)"""
    from gnpy.core.science_utils import estimate_nf_model
    from gnpy.core.exceptions import EquipmentConfigError
    for _ in range(60):
        nf_min = round(rng.uniform(4.2, 8.5), rng.choice([0, 1, 1, 2]))
        nf_max = round(nf_min + rng.uniform(0.3, 6.5), rng.choice([0, 1, 1, 2]))
        try:
            import warnings
            with warnings.catch_warnings():
                warnings.simplefilter('ignore')
                estimate_nf_model(name, gmin, gmax, nf_min, nf_max)
            return nf_min, nf_max
        except (EquipmentConfigError, ValueError, ZeroDivisionError, FloatingPointError):
            continue
    return None


BANDS = [None, None, None, None, (191.275e12, 196.125e12), (191.3e12, 196.1e12), (191.35e12, 196.0e12),
         (192.0e12, 195.0e12), (186.0e12, 190.0e12), (191.0e12, 196.5e12),
         (191.275e12, 193.4e12), (191.0e12, 192.2e12)]          # reduced upper edge only


def gen_amp(rng, name, twin_of=None):
    if twin_of is not None:                       # same parameters under another name: equal NF, exercises the tie-break
        e = copy.deepcopy(twin_of)
        e['type_variety'] = name
        e.pop('other_name', None)
        if rng.random() < 0.5:
            e['allowed_for_design'] = rng.random() < 0.7
        if e['type_def'] == 'fixed_gain' and rng.random() < 0.35:
            e['raman'] = not e.get('raman', False)     # equal NF across the EDFA / Raman lists: order of the two lists
        return e
    kind = rng.choices(['variable_gain', 'fixed_gain', 'openroadm', 'openroadm_preamp', 'openroadm_booster',
                        'advanced_model'], weights=[50, 28, 5, 5, 4, 8])[0]
    gmin = rng.choice([6, 8, 10, 12, 15, 18, 20, 25]) + rng.choice([0, 0, 0, 0.5, -0.25])
    gmax = gmin + rng.choice([5, 6, 8, 10, 11, 12, 15])
    e = {'type_variety': name, 'type_def': kind, 'gain_flatmax': gmax, 'gain_min': gmin,
         'p_max': rng.choice([12, 14, 16, 18, 19, 21, 21, 23, 25]) + rng.choice([0, 0, 0, 0.5]),
         'out_voa_auto': rng.random() < 0.35, 'allowed_for_design': rng.random() < 0.7}
    if kind == 'variable_gain':
        nf = _vg_nf(rng, name, gmin, gmax)
        if nf is None:
            kind = e['type_def'] = 'fixed_gain'
        else:
            e['nf_min'], e['nf_max'] = nf
    if kind == 'fixed_gain':
        if rng.random() < 0.5:
            e['gain_flatmax'] = gmin = e['gain_min']
        e['nf0'] = rng.choice([-1, 4.5, 5, 5.5, 5.5, 6, 6, 6.5, 7])
        if rng.random() < 0.3:
            e['raman'] = True
    if kind == 'openroadm':
        e['nf_coef'] = [-8.104e-4, -6.221e-2, -5.889e-1, 37.62]
    if kind == 'advanced_model':
        e['advanced_config_from_json'] = rng.choice(['std_medium_gain_advanced_config.json', 'Juniper-BoosterHG.json'])
    else:
        b = rng.choice(BANDS)
        if b is not None and kind in ('variable_gain', 'fixed_gain', 'openroadm', 'openroadm_preamp', 'openroadm_booster'):
            e['f_min'], e['f_max'] = b
    return e


def gen_library(rng, n=None):
    """list of Edfa entries (JSON) in library order: 1-12 single-band models with overlapping gain ranges, twins with
    identical parameters, Raman-flagged models, aliases (other_name), band-limited models and multiband groupings"""
    n = n or rng.choice([1, 2, 3, 4, 5, 6, 6, 7, 8, 9, 10, 12])
    amps = []
    for i in range(n):
        twin = rng.choice(amps) if amps and rng.random() < 0.22 else None
        if twin is not None and twin['type_def'] == 'multi_band':
            twin = None
        e = gen_amp(rng, f'amp{i}', twin)
        if rng.random() < 0.08:
            e['other_name'] = [f'amp{i}_alias']
        amps.append(e)
    singles = [a['type_variety'] for a in amps]
    for k in range(rng.choice([0, 0, 0, 1, 2])):
        pos = rng.randint(0, len(amps))
        amps.insert(pos, {'type_variety': f'multi{k}', 'type_def': 'multi_band',
                          'amplifiers': rng.sample(singles, min(len(singles), rng.choice([1, 2]))),
                          'allowed_for_design': rng.random() < 0.6})
    return amps


_BASE = None


def base_eqpt():
    global _BASE
    if _BASE is None:
        from gnpy.tools.json_io import load_json
        import gnpy
        _BASE = load_json(os.path.join(os.path.dirname(gnpy.__file__), 'example-data', 'eqpt_config.json'))
    return copy.deepcopy(_BASE)


def build_equipment(edfa_entries, span=None, si=None, roadm=None):
    from gnpy.tools.json_io import _equipment_from_json
    from gnpy.tools.default_edfa_config import DEFAULT_EXTRA_CONFIG
    e = base_eqpt()
    e['Edfa'] = copy.deepcopy(edfa_entries)
    if span is not None:
        e['Span'] = [copy.deepcopy(span)]
    if si is not None:
        e['SI'] = [copy.deepcopy(si)]
    if roadm is not None:
        e['Roadm'] = copy.deepcopy(roadm)
    import warnings
    with warnings.catch_warnings():
        warnings.simplefilter('ignore')
        return _equipment_from_json(e, DEFAULT_EXTRA_CONFIG)


def nf_of(gain, amp):
    """noise figure of a library entry at a required gain, computed from the element model itself (gnpy.core.elements,
    property C04) on a fresh element - not through network.edfa_nf, which is part of what is checked here"""
    from gnpy.core import elements
    e = elements.Edfa(uid='nf_input', params=amp.__dict__, operational={'gain_target': gain, 'tilt_target': 0})
    e.pin_db, e.nch, e.slot_width = 0, 88, 50e9
    v = float(e._calc_nf(True))
    if math.isinf(v) and v < 0:
        return NEG_INF_NF
    return v


def amp_view(name, a):
    """the attributes of an equipment['Edfa'] entry the selection reads (multiband groupings carry none)"""
    if a.type_def == 'multi_band':
        return {'name': name, 'multi': True, 'raman': False, 'allowed': bool(a.allowed_for_design),
                'f_min': 0.0, 'f_max': 0.0, 'gain_min': 0.0, 'gain_flatmax': 0.0, 'p_max': 0.0}
    return {'name': name, 'multi': False, 'raman': bool(a.raman), 'allowed': bool(a.allowed_for_design),
            'f_min': float(a.f_min), 'f_max': float(a.f_max), 'gain_min': float(a.gain_min),
            'gain_flatmax': float(a.gain_flatmax), 'p_max': float(a.p_max)}


# ------------------------------------------------------------------ stream A: select_edfa directly
def gen_targets(rng, views):
    v = rng.choice(views)
    mode = rng.random()
    if mode < 0.45:
        gain = rng.uniform(0, 42)
        power = rng.uniform(5, 27)
    elif mode < 0.75:          # close to one model's limits
        gain = rng.choice([v['gain_min'] - 3, v['gain_min'], v['gain_flatmax'], v['gain_flatmax'] + 2.5]) \
            + rng.choice([-1, -0.5, -0.01, 0.01, 0.5, 1, 2])
        power = rng.choice([v['p_max'], v['p_max'] - 1, v['p_max'] + 0.2, v['p_max'] - 0.31, rng.uniform(8, 24)])
    else:                      # on a 0.5 dB grid (exact ties of margins with 0 are frequent here -> counted, not judged)
        gain = rng.randrange(0, 80) / 2
        power = rng.randrange(16, 52) / 2
    ext = rng.choice([2.5, 2.5, 2.5, 0, 1, 3, 5])
    return float(gain), float(power), float(ext), rng.random() < 0.5


def recharacterise(rng, lib):
    """the same library after a what-if edit: same names, same order, same kinds; noise parameters re-drawn, sometimes
    p_max and the gain range too (a model measured again, or replaced by its successor under the same name)"""
    out = copy.deepcopy(lib)
    for e in out:
        if e['type_def'] == 'multi_band':
            continue
        if rng.random() < 0.2:
            continue                                   # unchanged entry
        if rng.random() < 0.25:
            e['p_max'] = rng.choice([12, 14, 16, 18, 19, 21, 21, 23, 25]) + rng.choice([0, 0, 0, 0.5])
        if rng.random() < 0.2 and e['type_def'] in ('variable_gain', 'fixed_gain'):
            d = rng.choice([-2, -1, 1, 2, 3])
            if e['gain_flatmax'] == e['gain_min']:
                e['gain_min'] = e['gain_flatmax'] = e['gain_min'] + d
            else:
                e['gain_flatmax'] += d
        if e['type_def'] == 'variable_gain':
            nf = _vg_nf(rng, e['type_variety'], e['gain_min'], e['gain_flatmax'])
            if nf is not None:
                e['nf_min'], e['nf_max'] = nf
        elif e['type_def'] == 'fixed_gain':
            e['nf0'] = rng.choice([-1, 4.5, 5, 5.5, 5.5, 6, 6, 6.5, 7])
        elif e['type_def'] == 'advanced_model':
            e['advanced_config_from_json'] = rng.choice(['std_medium_gain_advanced_config.json', 'Juniper-BoosterHG.json'])
        elif e['type_def'] == 'openroadm':
            e['nf_coef'] = rng.choice([[-8.104e-4, -6.221e-2, -5.889e-1, 37.62], [-5.952e-4, -6.250e-2, -1.071, 28.99]])
    return out


def gen_case_a(rng):
    """a library, or a sequence of libraries (the same library re-characterised once or twice) that one process works
    with one after the other: every library of the sequence is asked the same questions"""
    lib = gen_library(rng)
    case = {'kind': 'A', 'lib': lib, 'seed': rng.getrandbits(32)}
    if rng.random() < 0.4:
        seq = [lib]
        for _ in range(rng.choice([1, 1, 2])):
            seq.append(recharacterise(rng, seq[-1]))
        case['prior'], case['lib'] = seq[:-1], seq[-1]
    return case


def drive_a(case):
    """returns a list of steps (library views, observation dicts - one per select_edfa call), one step per library of the
    sequence case['prior'] + [case['lib']], all in this process; every library is asked the questions of the first one
    (same candidates by name, same targets)"""
    import random
    rng = random.Random(case['seed'])
    steps, questions = [], None
    for lib_json in case.get('prior', []) + [case['lib']]:
        lib_views, obs = drive_a_lib(case, lib_json, rng, questions)
        if obs:
            steps.append((lib_json, lib_views, obs))
            if questions is None:
                questions = [([v['name'] for v in r['views']], (r['gain'], r['power'], r['ext'], r['ra'])) for r in obs]
    return steps


def drive_a_lib(case, lib_json, rng, questions):
    from gnpy.core.network import select_edfa
    from gnpy.core.exceptions import ConfigurationError
    eq = build_equipment(lib_json)
    lib = {n: a for n, a in eq['Edfa'].items() if a.type_def != 'multi_band'}
    if not lib:
        return [], []
    obs = []
    names = list(lib)
    for k in range(len(questions) if questions is not None else case.get('ncalls', 6)):
        if questions is not None:
            sub = [n for n in questions[k][0] if n in lib]
        else:
            sub = names if rng.random() < 0.5 else [n for n in names if rng.random() < 0.6]
            if rng.random() < 0.1:
                sub = [n for n in sub if lib[n].raman]            # nothing but Raman models: the error branch
            if 'cands' in case:
                sub = [n for n in case['cands'] if n in lib]
        dic = {n: lib[n] for n in sub}
        views = [amp_view(n, lib[n]) for n in sub]
        if questions is not None:
            gain, power, ext, ra = questions[k][1]
        elif 'targets' in case:
            gain, power, ext, ra = case['targets']
        else:
            gain, power, ext, ra = gen_targets(rng, views or [amp_view(n, lib[n]) for n in names])
        for v in views:
            v['nf'] = nf_of(gain, lib[v['name']])
        rec = {'views': views, 'gain': gain, 'power': power, 'ext': ext, 'ra': ra}
        try:
            var, red = select_edfa(ra, gain, power, dic, 'uid', ext, verbose=False)
            rec['out'] = (var, float(red))
        except ConfigurationError:
            rec['out'] = 'E:ConfigurationError'
        except Exception as e:      # any other exception is an observation
            rec['out'] = f'E:{type(e).__name__}'
        obs.append(rec)
    return [amp_view(n, lib[n]) for n in names], obs


def margins(v, gain, power, ext):
    pw = min(power - gain + v['gain_flatmax'] + ext, v['p_max']) - power
    gm = gain - v['gain_min'] if v['raman'] else gain + 3 - v['gain_min']
    return pw, gm


def oracle_select(rec):
    """the property evaluated by brute force on the implementation's pick; returns list of (key, desc)"""
    fails = []
    views, gain, power, ext, ra = rec['views'], rec['gain'], rec['power'], rec['ext'], rec['ra']
    usable = [v for v in views if ra or not v['raman']]
    m = {v['name']: margins(v, gain, power, ext) for v in views}
    capable = [v for v in usable if m[v['name']][1] > 0 and m[v['name']][0] > 0]
    out = rec['out']
    if isinstance(out, str):
        edfas = [v for v in views if not v['raman']]
        if out != 'E:ConfigurationError':
            fails.append(('exception', f'select_edfa raised {out}'))
        elif edfas or any(m[v['name']][1] > 0 for v in usable):
            fails.append(('spurious_error', 'ConfigurationError although a candidate exists'))
        return fails
    var, red = out
    byname = {v['name']: v for v in views}
    if var not in byname:
        fails.append(('not_in_dict', f'{var} is not one of the candidates'))
        return fails
    s = byname[var]
    if s['raman'] and not ra:
        fails.append(('raman_not_allowed', f'{var} is a Raman model but raman_allowed is False'))
    if capable:
        if s not in capable:
            fails.append(('not_capable', f'{var} (margins {m[var]}) chosen although {[v["name"] for v in capable]} are capable'))
        else:
            best = min(v['nf'] for v in capable)
            if s['nf'] > best:
                fails.append(('not_quietest', f'{var} nf {s["nf"]} > {best}'))
            else:
                first = next(v for v in [x for x in usable if not x['raman']] + [x for x in usable if x['raman']]
                             if v in capable and v['nf'] == best)
                if first['name'] != var:
                    fails.append(('tie_break', f'{var} chosen, first minimum is {first["name"]}'))
        if red != 0:
            fails.append(('reduction_when_capable', f'power reduction {red} although capable'))
    else:
        # documented fall-back: pool = above min gain (if any) else all EDFAs; within 0.3 dB of the best power; lowest NF
        pool = [v for v in usable if m[v['name']][1] > 0] or [v for v in views if not v['raman']]
        if s not in pool:
            fails.append(('fallback_pool', f'{var} not in the fall-back pool'))
        else:
            withpow = [v for v in pool if m[v['name']][0] > 0]
            if withpow:
                cands = withpow
            else:
                pm = max(m[v['name']][0] for v in pool)
                cands = [v for v in pool if m[v['name']][0] - pm > -0.3]
            if s not in cands:
                fails.append(('fallback_power', f'{var} is not within 0.3 dB of the best available power'))
            elif s['nf'] > min(v['nf'] for v in cands):
                fails.append(('fallback_not_quietest', f'{var}'))
            if abs(red - min(m[var][0], 0.0)) > TOL:
                fails.append(('fallback_reduction', f'power reduction {red} != min(margin {m[var][0]}, 0)'))
    return fails


def am_lit(v):
    b = lambda x: 'true' if x else 'false'
    return (f"am {strlit(v['name'])} {b(v['multi'])} {b(v['raman'])} {b(v['allowed'])} {qlit(v['f_min'])} {qlit(v['f_max'])} "
            f"{qlit(v['gain_min'])} {qlit(v['gain_flatmax'])} {qlit(v['p_max'])} {qlit(v.get('nf', 0.0))}")


def amq_lit(v):
    b = lambda x: 'true' if x else 'false'
    return (f"amq {strlit(v['name'])} {b(v['multi'])} {b(v['raman'])} {b(v['allowed'])} {qlit(v['f_min'])} {qlit(v['f_max'])} "
            f"{qlit(v['gain_min'])} {qlit(v['gain_flatmax'])} {qlit(v['p_max'])}")


def term_a(lib_views, obs):
    """one term per library: the calls refer to library entries by index"""
    idx = {v['name']: i for i, v in enumerate(lib_views)}
    calls = []
    for rec in obs:
        b = 'true' if rec['ra'] else 'false'
        sub = listlit([f"({idx[v['name']]}%nat, {qlit(v['nf'])})" for v in rec['views']])
        calls.append(f"call {b} {qlit(rec['gain'])} {qlit(rec['power'])} {qlit(rec['ext'])} {sub}")
    return f"run_sels {listlit([amq_lit(v) for v in lib_views])} {listlit(calls)}"


def parse_q(s):
    from fractions import Fraction
    n, d = s.split('/')
    return Fraction(int(n), int(d))


def parse_sel(txt):
    """model rendering of a selection -> ('E', type) | (name, red, crit)"""
    if txt.startswith('E:'):
        body, crit = txt[2:].rsplit('|', 1)
        return ('E', body.split(':')[0], float(parse_q(crit)))
    name, red, crit = txt.split('|')
    return (name, float(parse_q(red)), float(parse_q(crit)))


def compare_sel(out, mod):
    """None if equal, else description"""
    if isinstance(out, str):
        if mod[0] == 'E' and out == 'E:' + mod[1]:
            return None
        return f'impl {out} model {mod}'
    if mod[0] == 'E':
        return f'impl {out} model error {mod[1]}'
    if out[0] != mod[0]:
        return f'variety impl {out[0]} model {mod[0]}'
    if abs(out[1] - mod[1]) > TOL:
        return f'power_reduction impl {out[1]} model {mod[1]}'
    return None


# ------------------------------------------------------------------ stream B: through auto-design
def neigh_view(node, elem_restr):
    """what the selection may read of a neighbour; elem_restr: uid -> restrictions given in the element JSON (or None)"""
    from gnpy.core import elements
    if isinstance(node, elements.Roadm):
        return {'kind': 'roadm', 'uid': node.uid, 'elem': elem_restr.get(node.uid), 'variety': node.type_variety}
    if isinstance(node, elements.Fiber):
        import numpy as np
        return {'kind': 'fiber', 'loss_coef': [float(x) for x in np.atleast_1d(node.params.loss_coef)]}
    return {'kind': 'other'}


def drive_b(case):
    """auto-design a generated network (harness/c09.py generator) with get_node_restrictions and select_edfa wrapped"""
    from . import c09
    import gnpy.core.network as nw
    obs = []
    cur = {}
    orig_r, orig_s = nw.get_node_restrictions, nw.select_edfa

    def wrap_r(node, prev_node, next_node, equipment, design_bands):
        res = orig_r(node, prev_node, next_node, equipment, design_bands)
        band = next(iter(design_bands.values()))
        cur.clear()
        cur.update({'uid': node.uid, 'variety': node.params.type_variety or '',
                    'vlist': list(node.variety_list) if isinstance(node.variety_list, list) else [],
                    'prev': prev_node, 'next': next_node, 'band': (float(band['f_min']), float(band['f_max'])),
                    'restrictions': list(res) if res is not None else None, 'is_edfa': type(node).__name__ == 'Edfa'})
        if cur['is_edfa']:
            obs.append(dict(cur))
        return res

    def wrap_s(raman_allowed, gain_target, power_target, edfa_eqpt, uid, target_extended_gain, verbose=True):
        rec = obs[-1] if obs and obs[-1]['uid'] == uid else None
        if rec is not None:
            rec.update({'ra': bool(raman_allowed), 'gain': float(gain_target), 'power': float(power_target),
                        'ext': float(target_extended_gain), 'cands': list(edfa_eqpt),
                        'nf': {n: nf_of(gain_target, a) for n, a in edfa_eqpt.items()}})
        try:
            out = orig_s(raman_allowed, gain_target, power_target, edfa_eqpt, uid, target_extended_gain, verbose)
        except Exception as e:
            if rec is not None:
                rec['out'] = f'E:{type(e).__name__}'
            raise
        if rec is not None:
            rec['out'] = (out[0], float(out[1]))
        return out
    nw.get_node_restrictions, nw.select_edfa = wrap_r, wrap_s
    try:
        built = c09.build_case(case)
        c09.design(built)
        status = built['status']
    finally:
        nw.get_node_restrictions, nw.select_edfa = orig_r, orig_s
    return built, obs, status


def permitted_names(rec, views, roadm_lib, elem_restr):
    """independent computation of the permitted set from the generated inputs"""
    def eff(nv, key):
        el = nv['elem']
        if el is not None and key in el:
            return el[key]
        return roadm_lib.get(nv['variety'], {}).get(key, [])
    if rec['variety']:
        return [rec['variety']], None
    r = []
    if rec['vlist']:
        r = rec['vlist']
    elif rec['pv']['kind'] == 'roadm' and eff(rec['pv'], 'booster_variety_list'):
        r = eff(rec['pv'], 'booster_variety_list')
    elif rec['nv']['kind'] == 'roadm' and eff(rec['nv'], 'preamp_variety_list'):
        r = eff(rec['nv'], 'preamp_variety_list')
    lo, hi = rec['band']
    out = [v['name'] for v in views if not v['multi'] and v['f_min'] <= lo and v['f_max'] >= hi
           and (v['name'] in r or (not r and v['allowed']))]
    return out, r


def neigh_lit(nv, roadm_lib):
    if nv['kind'] == 'roadm':
        lib = roadm_lib.get(nv['variety'], {})
        el = nv['elem'] or {}

        def one(key):
            src = el[key] if key in el else lib.get(key, [])
            return slist([x for x in src])
        return f"(roadm {one('booster_variety_list')} {one('preamp_variety_list')})"
    if nv['kind'] == 'fiber':
        return f"(fiber {listlit([qlit(x) for x in nv['loss_coef']])})"
    return 'NOther'


def call_b(rec, roadm_lib):
    nfs = listlit([f"nfv {strlit(n)} {qlit(v)}" for n, v in rec.get('nf', {}).items()])
    return (f"ncall (mkNode {strlit(rec['variety'])} {slist([x for x in rec['vlist']])}) "
            f"{neigh_lit(rec['pv'], roadm_lib)} {neigh_lit(rec['nv'], roadm_lib)} "
            f"{qlit(rec['band'][0])} {qlit(rec['band'][1])} {qlit(rec.get('gain', 0.0))} {qlit(rec.get('power', 0.0))} {qlit(rec.get('ext', 0.0))} {nfs}")


def term_b(recs, views, roadm_lib, maxl):
    """one term per network: shared library / band / Raman limit, one call per amplifier node"""
    return (f"run_nodes {listlit([amq_lit(v) for v in views])} {qlit(float(maxl) * 1e-3)} "
            f"{listlit([call_b(r, roadm_lib) for r in recs])}")


# ------------------------------------------------------------------ stream C: multiband nodes through auto-design
CBAND = (191.25e12, 196.15e12)
LBAND = (186.55e12, 190.05e12)


def gen_case_c(rng):
    """two-band (C+L) unidirectional line of Multiband_amplifier nodes; library of C and L single-band models (twins,
    Raman flags) grouped into 2-6 multiband models that share members; restrictions at node / ROADM level"""
    from . import c09

    def single(name, band):
        for _ in range(30):
            e = gen_amp(rng, name)
            if e['type_def'] in ('variable_gain', 'fixed_gain'):
                break
        if rng.random() < 0.75:
            e.pop('raman', None)
        e['f_min'], e['f_max'] = band
        return e
    cs = [single(f'c{i}', CBAND) for i in range(rng.randint(2, 5))]
    ls = [single(f'l{i}', LBAND) for i in range(rng.randint(2, 4))]
    for g in (cs, ls):
        if rng.random() < 0.5:
            t = copy.deepcopy(rng.choice(g))
            t['type_variety'] += 't'
            g.append(t)
    lib = cs + ls
    groups = []
    for k in range(rng.randint(2, 6)):
        mem = [rng.choice(cs)['type_variety'], rng.choice(ls)['type_variety']]
        if rng.random() < 0.08:
            mem = mem[:1]
        if rng.random() < 0.3:
            mem.reverse()
        groups.append({'type_variety': f'm{k}', 'type_def': 'multi_band', 'amplifiers': mem,
                       'allowed_for_design': rng.random() < 0.65})
    for g in groups:
        lib.insert(rng.randint(0, len(lib)), g)
    span = c09.gen_span(rng)
    if len(span['delta_power_range_db']) < 3:
        span['delta_power_range_db'] = [-2, 3, 0.5]
    si = c09.gen_si(rng)
    si['f_min'] = 191.3e12
    si['f_max'] = 191.3e12 + rng.choice([8, 20, 40]) * si['spacing']
    gnames = [g['type_variety'] for g in groups]
    snames = [a['type_variety'] for a in cs + ls]

    def restr_list(k):
        """a restriction list of a multiband site: multiband models, or (a ROADM's lists serve single band degrees too)
        a mix of multiband and single band models, or single band models only"""
        u = rng.random()
        pool = gnames if u < 0.6 else (gnames + snames if u < 0.8 else snames)
        return rng.sample(pool, min(k, len(pool)))
    roadm = [{'target_pch_out_db': rng.choice([-20, -18, -22]), 'add_drop_osnr': 38, 'pmd': 0, 'pdl': 0,
              'restrictions': {'preamp_variety_list': restr_list(rng.choice([1, 2])) if rng.random() < 0.25 else [],
                               'booster_variety_list': restr_list(rng.choice([1, 2, 3])) if rng.random() < 0.25 else []}}]
    n = rng.randint(1, 3)
    chain = ['trx A', 'roadm A', 'mb 0']
    els = []
    for i in range(n):
        chain += [f'fiber {i}', f'mb {i + 1}']
        els.append({'uid': f'fiber {i}', 'type': 'Fiber', 'type_variety': 'SSMF',
                    'params': {'length': round(rng.uniform(25, 120), 1), 'loss_coef': rng.choice([0.2, 0.21, 0.26]),
                               'length_units': 'km', 'con_in': 0, 'con_out': 0}})
    chain += ['roadm B', 'trx B']
    for i in range(n + 1):
        e = {'uid': f'mb {i}', 'type': 'Multiband_amplifier'}
        if rng.random() < 0.2:
            e['variety_list'] = restr_list(rng.choice([1, 2]))
        els.append(e)
    bands = [{'f_min': 191.3e12, 'f_max': 196.0e12}, {'f_min': rng.choice([187.0e12, 186.6e12]), 'f_max': 190.0e12}]
    els += [{'uid': 'trx A', 'type': 'Transceiver'}, {'uid': 'trx B', 'type': 'Transceiver'},
            {'uid': 'roadm A', 'type': 'Roadm', 'params': {'per_degree_design_bands': {'mb 0': bands}}},
            {'uid': 'roadm B', 'type': 'Roadm'}]
    topo = {'elements': els, 'connections': [{'from_node': a, 'to_node': b} for a, b in zip(chain[:-1], chain[1:])]}
    return {'kind': 'C', 'seed': rng.getrandbits(32), 'edfa': lib, 'span': span, 'si': si, 'roadm': roadm, 'topo': topo}


def drive_c(case):
    """auto-design with get_node_restrictions / preselect_multiband_amps / filter_edfa_list_based_on_targets /
    select_edfa wrapped; one record per Multiband_amplifier node"""
    from . import c09
    import gnpy.core.network as nw
    from gnpy.tools.worker_utils import designed_network
    built = c09.build_case(case)
    obs = []
    state = {'in_presel': False}
    o_r, o_p, o_f, o_s = nw.get_node_restrictions, nw.preselect_multiband_amps, \
        nw.filter_edfa_list_based_on_targets, nw.select_edfa

    def w_r(node, prev_node, next_node, equipment, design_bands):
        res = o_r(node, prev_node, next_node, equipment, design_bands)
        if type(node).__name__ == 'Multiband_amplifier':
            obs.append({'uid': node.uid, 'node': node, 'variety': node.params.type_variety or '',
                        'vlist': list(node.variety_list) if isinstance(node.variety_list, list) else [],
                        'prev': prev_node, 'next': next_node,
                        'bands': [(k, float(b['f_min']), float(b['f_max'])) for k, b in design_bands.items()],
                        'mr': list(res), 'presel_calls': [], 'sel': []})
        return res

    def w_p(*a, **k):
        state['in_presel'] = True
        try:
            res = o_p(*a, **k)
        finally:
            state['in_presel'] = False
        if obs:
            obs[-1]['presel'] = list(res)
        return res

    def w_f(uid, edfa_eqpt, power_target, gain_target, tilt_target, target_extended_gain, *a, **k):
        res = o_f(uid, edfa_eqpt, power_target, gain_target, tilt_target, target_extended_gain, *a, **k)
        if state['in_presel'] and obs:
            obs[-1]['presel_calls'].append({'gain': float(gain_target), 'power': float(power_target),
                                            'cands': list(edfa_eqpt), 'result': [x.variety for x in res]})
        return res

    def w_s(raman_allowed, gain_target, power_target, edfa_eqpt, uid, target_extended_gain, verbose=True):
        rec = None
        if obs and obs[-1]['uid'] == uid:
            rec = {'ra': bool(raman_allowed), 'gain': float(gain_target), 'power': float(power_target),
                   'ext': float(target_extended_gain), 'cands': list(edfa_eqpt)}
            obs[-1]['sel'].append(rec)
        try:
            out = o_s(raman_allowed, gain_target, power_target, edfa_eqpt, uid, target_extended_gain, verbose)
        except Exception as e:
            if rec is not None:
                rec['out'] = f'E:{type(e).__name__}'
            raise
        if rec is not None:
            rec['out'] = (out[0], float(out[1]))
        return out
    nw.get_node_restrictions, nw.preselect_multiband_amps = w_r, w_p
    nw.filter_edfa_list_based_on_targets, nw.select_edfa = w_f, w_s
    status = 'ok'
    try:
        try:
            designed_network(built['equipment'], built['network'], no_insert_edfas=True)
        except Exception as e:
            status = f'E:{type(e).__name__}'
            built['exc'] = str(e)[:200]
    finally:
        nw.get_node_restrictions, nw.preselect_multiband_amps = o_r, o_p
        nw.filter_edfa_list_based_on_targets, nw.select_edfa = o_f, o_s
    for rec in obs:
        rec['final_type'] = rec['node'].type_variety if status == 'ok' else None
        rec.pop('node')
    return built, obs, status


def group_views(case):
    return [{'name': e['type_variety'], 'allowed': bool(e.get('allowed_for_design', False)), 'members': list(e['amplifiers'])}
            for e in case['edfa'] if e['type_def'] == 'multi_band']


def term_c(built, case, obs, views):
    span = case['span']
    groups = listlit([f"grp {strlit(g['name'])} {'true' if g['allowed'] else 'false'} {slist(g['members'])}"
                      for g in group_views(case)])
    calls = []
    for rec in obs:
        bts = []
        for k, (bn, lo, hi) in enumerate(rec['bands']):
            src = rec['sel'][k] if k < len(rec['sel']) else (rec['presel_calls'][k] if k < len(rec['presel_calls']) else None)
            gain, power = (src['gain'], src['power']) if src else (0.0, 0.0)
            nfs = listlit([f"nfv {strlit(v['name'])} {qlit(nf_of(gain, built['equipment']['Edfa'][v['name']]))}"
                           for v in views if not v['multi'] and v['f_min'] <= lo and v['f_max'] >= hi]) if src else '[]'
            bts.append(f"bt {qlit(lo)} {qlit(hi)} {qlit(gain)} {qlit(power)} {nfs}")
        calls.append(f"mcall (mkNode {strlit(rec['variety'])} {slist(rec['vlist'])}) "
                     f"{neigh_lit(rec['pv'], built['roadm_lib'])} {neigh_lit(rec['nv'], built['roadm_lib'])} {listlit(bts)}")
    return (f"run_multis {listlit([amq_lit(v) for v in views])} {groups} "
            f"{qlit(float(span['max_fiber_lineic_loss_for_raman']) * 1e-3)} {qlit(float(span['target_extended_gain']))} "
            f"{listlit(calls)}")


def eff_list(nv, roadm_lib, key):
    el = nv['elem']
    if el is not None and key in el:
        return el[key]
    return roadm_lib.get(nv['variety'], {}).get(key, [])


def oracle_picks_c(ctx, rec, picks, built, case, views, groups, permitted, byname, ext, cov, uid):
    eq = built['equipment']['Edfa']
    ra = rec['sel'][0]['ra']
    targets = [(s_['gain'], s_['power']) for s_ in rec['sel']]

    def capable_member(g, k):
        """the members of multiband model g usable for band k (None: a margin within 1e-9 of 0)"""
        _, lo, hi = rec['bands'][k]
        out = []
        for t in g['members']:
            v = byname[t]
            if v['multi'] or not cov(t, lo, hi) or (v['raman'] and not ra):
                continue
            pw, gm = margins(v, targets[k][0], targets[k][1], ext)
            if abs(pw) <= TOL or abs(gm) <= TOL:
                return None
            if pw > 0 and gm > 0:
                out.append(t)
        return out
    cap_all = []
    for g in groups:
        if g['name'] not in permitted:
            continue
        per = [capable_member(g, k) for k in range(len(rec['bands']))]
        if any(x is None for x in per):
            ctx.count('C_oracle_not_judged_tie')
            return
        if all(per):
            cap_all.append((g, per))
    perm_members = {t for g in groups if g['name'] in permitted for t in g['members']}
    # models reachable from the permitted ones through shared member entries (the path of finding F-multiband-leak)
    reach = set(permitted)
    changed = True
    while changed:
        changed = False
        mem = {t for g in groups if g['name'] in reach for t in g['members']}
        for g in groups:
            if g['name'] not in reach and mem & set(g['members']):
                reach.add(g['name'])
                changed = True
    reach_members = {t for g in groups if g['name'] in reach for t in g['members']}
    for k, (name, red) in enumerate(picks):
        ctx.count('C_band_picks')
        if name not in perm_members:
            ctx.violation('multi_pick_not_permitted', f"{uid} band {rec['bands'][k][0]}: {name} belongs to no permitted "
                          f"multiband model {permitted}", case, leak=bool(permitted) and name in reach_members)
        if cap_all:
            ctx.count('C_band_picks_with_capable_model')
            v = byname[name]
            pw, gm = margins(v, targets[k][0], targets[k][1], ext)
            nf_pick = nf_of(targets[k][0], eq[name])
            if not (pw > 0 and gm > 0) or (v['raman'] and not ra):
                ctx.violation('multi_not_capable', f"{uid} band {rec['bands'][k][0]}: {name} is not capable although "
                              f"{[g['name'] for g, _ in cap_all]} are capable in every band", case)
            best = min(nf_of(targets[k][0], eq[t]) for g, per in cap_all for t in per[k])
            if nf_pick > best + 1e-12:
                ctx.violation('multi_not_quietest', f"{uid} band {rec['bands'][k][0]}: {name} NF {nf_pick} although a permitted "
                              f"model capable in every band offers NF {best}", case)
    if rec['final_type'] is not None and rec['final_type'] not in permitted:
        # open finding F-multiband-type: every band's pick is an entry of a permitted model (C10_multi_pick_permitted), but
        # the bands are chosen independently and find_type_variety names the node after ANY library model listing them
        names = {n for n, _ in picks}
        same = names <= perm_members and any(g['name'] == rec['final_type'] and names <= set(g['members']) for g in groups)
        ctx.violation('multi_type_not_permitted', f"{uid}: designed type_variety {rec['final_type']} is not a permitted "
                      f"multiband model {permitted} (picks {sorted(names)})", case, same_entries=bool(same))


def judge_c(ctx, rec, line, built, case_json, views, status, last):
    """one Multiband_amplifier node: oracle on the implementation's observations + correspondence with the model"""
    case = case_json
    span = case['span']
    ext = float(span['target_extended_gain'])
    byname = {v['name']: v for v in views}
    groups = group_views(case)
    uid = rec['uid']
    # ---- independent permitted set
    r = []
    if rec['vlist']:
        r = rec['vlist']
    elif rec['pv']['kind'] == 'roadm' and eff_list(rec['pv'], built['roadm_lib'], 'booster_variety_list'):
        r = eff_list(rec['pv'], built['roadm_lib'], 'booster_variety_list')
    elif rec['nv']['kind'] == 'roadm' and eff_list(rec['nv'], built['roadm_lib'], 'preamp_variety_list'):
        r = eff_list(rec['nv'], built['roadm_lib'], 'preamp_variety_list')

    def cov(n, lo, hi):
        return byname[n]['f_min'] <= lo and byname[n]['f_max'] >= hi
    permitted = [g['name'] for g in groups if (g['name'] in r or (not r and g['allowed']))
                 and all(any(cov(t, lo, hi) for _, lo, hi in rec['bands']) for t in g['members'])]
    if rec['mr'] != permitted:
        ctx.violation('multi_permitted_set', f"{uid}: get_node_restrictions {rec['mr']} != permitted multiband models {permitted}",
                      case)
    # ---- oracle on the picks (all bands selected)
    picks = [s_['out'] for s_ in rec['sel'] if 'out' in s_ and not isinstance(s_['out'], str)]
    full = len(picks) == len(rec['bands'])
    if full:
        oracle_picks_c(ctx, rec, picks, built, case, views, groups, permitted, byname, ext, cov, uid)
    # ---- model
    parts = line.split('#')
    mod_mr = [x for x in parts[0].split(',') if x]
    if mod_mr != rec['mr']:
        ctx.corr_break('corr:Select.multi_restrictions', uid, case, impl=rec['mr'], model=mod_mr)
    aborted = status != 'ok' and last
    if parts[1].startswith('E:'):
        body, pc = parts[1][2:].rsplit('|', 1)
        if float(parse_q(pc)) < TOL:
            ctx.count('C_not_judged_threshold_tie')
            return
        if not aborted or status != 'E:' + body.split(':')[0] or 'presel' in rec:
            ctx.corr_break('corr:Select.preselect', f"{uid}: model raises {body}, implementation {status}", case,
                           impl=rec.get('presel'), model=parts[1])
        else:
            ctx.count('C_preselection_error_agreed')
        return
    mod_redfa, pc, mod_sel, mod_common = parts[1:5]
    if float(parse_q(pc)) < TOL:
        ctx.count('C_not_judged_threshold_tie')
        return
    if 'presel' not in rec:
        ctx.corr_break('corr:Select.preselect', f"{uid}: implementation raised {status} in the preselection, model did not",
                       case, model=mod_redfa)
        return
    if sorted(set(rec['presel'])) != sorted(x for x in mod_redfa.split(',') if x):
        ctx.corr_break('corr:Select.preselect', uid, case, impl=sorted(set(rec['presel'])), model=mod_redfa)
        return
    msel = [parse_sel(x) for x in mod_sel.split('&') if x]
    for k, srec in enumerate(rec['sel']):
        if k >= len(msel):
            ctx.corr_break('corr:Select.band_select', f"{uid} band {k}: no model result", case)
            return
        if msel[k][2] < TOL:
            ctx.count('C_not_judged_threshold_tie')
            return
        if k < len(rec['presel_calls']) and (abs(rec['presel_calls'][k]['gain'] - srec['gain']) > TOL or
                                             abs(rec['presel_calls'][k]['power'] - srec['power']) > TOL):
            ctx.corr_break('corr:Select.preselect_targets', f"{uid} band {k}: preselection and selection use different targets",
                           case, impl=[rec['presel_calls'][k]['gain'], srec['gain']])
        d = compare_sel(srec.get('out', 'E:?'), msel[k])
        if d:
            ctx.corr_break('corr:Select.band_select', f"{uid} band {k}: {d}", case, impl=srec.get('out'), model=mod_sel)
            return
    if rec['final_type'] is not None and rec['final_type'] not in [x for x in mod_common.split(',') if x]:
        ctx.corr_break('corr:Select.common_groups', f"{uid}: type_variety {rec['final_type']}", case,
                       impl=rec['final_type'], model=mod_common)



def slist(xs):
    return listlit([strlit(x) + '%string' for x in xs])


def strip(c):
    return {k: v for k, v in c.items() if not k.startswith('_')}


def is_multiband_type(v):
    """open finding C10/F-multiband-type: each band's pick is an entry of a permitted multiband model, but the designed
    type_variety (find_type_variety over the whole library) is a model that is not permitted"""
    return v.get('key') == 'multi_type_not_permitted' and bool(v.get('same_entries'))


MATCHERS = {'F-multiband-type': is_multiband_type}


def run(ctx):
    logging.disable(logging.CRITICAL)
    rng = ctx.rng
    # second tie: re-translate the selection code of gnpy/core/network.py from /repo's source; the equivalence lemmas of
    # Proofs/SelectGen.v are then re-checked by check_props against what the code says now
    from . import pygen_c10
    gen_ok, gen_msg = pygen_c10.regenerate()
    ctx.proof = common.check_props('C10')
    if not gen_ok:
        ctx.proof['ok'] = False
        ctx.proof['log'] = 'harness/pygen_c10.py: ' + gen_msg + '\n' + ctx.proof.get('log', '')
        ctx.proof['failed_file'] = 'theories/Gen/SelectGen.v (translation of /repo source failed)'
    ctx.rule = ('(A) select_edfa called directly on candidate dicts drawn from random validity-aware libraries (1-12 models: '
                'variable/fixed gain, OpenROADM, advanced, Raman-flagged, twins with equal NF, aliases, band-limited, '
                'multiband groupings) x random / near-limit / gridded (gain, power, extended gain, raman_allowed) targets; '
                '(B) every amplifier node of auto-designed random networks (restrictions at amplifier, ROADM element and '
                'ROADM library level, fibre loss coefficients around the Raman limit); (C) every Multiband_amplifier node of '
                'auto-designed two-band lines (C and L single-band models grouped into 2-6 multiband models sharing '
                'members, restrictions at node / ROADM level): permitted models, preselection, per band picks, designed '
                'type. A case is non-trivial when the '
                'dict has >= 2 candidates; distinct by content hash; margins within 1e-9 of a threshold are not judged')
    cases = []
    for f in sorted(glob.glob(os.path.join(common.VERIF, 'corpus', 'C10', '*.json'))):
        c = json.load(open(f))
        c['_corpus'] = os.path.basename(f)
        cases.append(c)
    if ctx.replay:
        cases = [json.load(open(ctx.replay))['case']]
    else:
        cases += [gen_case_a(rng) for _ in range(ctx.scale(260, 3000))]
        from . import c09
        cases += [dict(c09.gen_case(rng, for_c10=True), kind='B') for _ in range(ctx.scale(110, 1000))]
        cases += [gen_case_c(rng) for _ in range(ctx.scale(60, 800))]
    terms, meta = [], []
    for c in cases:
        if c.get('kind', 'A') == 'A':
            try:
                steps = drive_a(c)
            except Exception as e:       # a library the loader rejects: counted, nothing to judge
                ctx.count('A_library_rejected:' + type(e).__name__)
                continue
            if len(steps) > 1:
                ctx.count('A_library_sequences')
            before = []
            for lib_json, lib_views, obs in steps:
                for rec in obs:
                    ctx.count('A_calls')
                    if before:
                        ctx.count('A_calls_repeated_on_recharacterised_library')
                    ctx.count('A_ncand_%02d' % len(rec['views']))
                    # replay: the libraries worked with before are asked the same question first, in this process
                    rec['_case'] = {'kind': 'A', 'lib': lib_json, 'seed': c['seed'], 'ncalls': 1,
                                    'targets': [rec['gain'], rec['power'], rec['ext'], rec['ra']],
                                    'cands': [v['name'] for v in rec['views']]}
                    if before:
                        rec['_case']['prior'] = list(before)
                    ctx.case({'cands': rec['_case']['cands'], 't': rec['_case']['targets'], 'lib': lib_json},
                             len(rec['views']) >= 2)
                terms.append(term_a(lib_views, obs))
                meta.append(('A', obs, None))
                before.append(lib_json)
        elif c.get('kind') == 'C':
            try:
                built, obs, status = drive_c(c)
            except Exception as e:
                ctx.count('C_not_built:' + type(e).__name__)
                continue
            ctx.count('C_networks')
            ctx.count('C_design_' + status)
            views = [amp_view(n, a) for n, a in built['equipment']['Edfa'].items()]
            for rec in obs:
                rec['pv'] = neigh_view(rec.pop('prev'), built['elem_restr'])
                rec['nv'] = neigh_view(rec.pop('next'), built['elem_restr'])
                ctx.count('C_nodes')
                ctx.case({'uid': rec['uid'], 'net': c.get('seed'), 'kind': 'C'}, True)
            if obs:
                terms.append(term_c(built, c, obs, views))
                meta.append(('C', obs, (built, strip(c), views, status)))
        else:
            try:
                built, obs, status = drive_b(c)
            except Exception as e:
                ctx.count('B_not_built:' + type(e).__name__)
                continue
            ctx.count('B_networks')
            ctx.count('B_design_' + status)
            views = [amp_view(n, a) for n, a in built['equipment']['Edfa'].items()]
            for rec in obs:
                rec['pv'] = neigh_view(rec.pop('prev'), built['elem_restr'])
                rec['nv'] = neigh_view(rec.pop('next'), built['elem_restr'])
                rec['_case'] = strip(c)
                ctx.count('B_nodes')
                ctx.count('B_node_' + ('imposed' if rec['variety'] else 'auto'))
                ctx.case({'uid': rec['uid'], 'net': c.get('seed')}, True)
            if obs and status != 'ok':
                obs[-1]['_aborted'] = True
            if obs:
                terms.append(term_b(obs, views, built['roadm_lib'], built['max_lineic']))
                meta.append(('B', obs, (views, built['roadm_lib'])))
    lines = common.coq_eval('C10', 'Prelude Model.Select Run.C10', terms, per_file=ctx.scale(24, 60))
    for (kind, rec, extra), line in zip(meta, lines):
        if kind == 'A':
            parts = line.split(';')
            for r1, part in zip(rec, parts):
                case = r1['_case']
                mod = parse_sel(part)
                if mod[2] < TOL:
                    ctx.count('A_not_judged_threshold_tie')
                    continue
                for key, desc in oracle_select(r1):
                    ctx.violation(key, desc, case, observed=r1['out'])
                d = compare_sel(r1['out'], mod)
                if d:
                    ctx.corr_break('corr:Select.select_edfa', d, case, impl=r1['out'], model=part)
                ctx.count('A_outcome_' + ('error' if isinstance(r1['out'], str) else 'selected'))
            continue
        if kind == 'C':
            built, cj, views, status = extra
            parts = line.split('~')
            for i, (r1, part) in enumerate(zip(rec, parts)):
                judge_c(ctx, r1, part, built, cj, views, status, i == len(rec) - 1)
            continue
        views, roadm_lib = extra
        for r1, part in zip(rec, line.split(';')):
            judge_b(ctx, r1, part, views, roadm_lib)
    ctx.assumptions += [
        'translator tie: harness/pygen_c10.py (fail-closed Python-ast -> Gallina over Q, on harness/pygen.py: templates for '
        'filter_edfa_list_based_on_targets, select_edfa, get_node_restrictions, preselect_multiband_amps and the '
        'raman_allowed statement of set_one_amplifier; translated holes: margins, filters, power reduction, band cover)',
        'the noise figure of every candidate at the required gain is an input of the model, computed on a fresh '
        'gnpy.core.elements.Edfa of the library entry (_calc_nf; the NF model is property C04) - not through '
        'network.edfa_nf, which the translator tie template-matches; -inf (openroadm_booster) is represented by -1e6',
        'multiband nodes: the per band gain/power targets (compute_gain_power_and_tilt_target, C09) are inputs recorded '
        'from the implementation; nodes with an imposed multiband type_variety are not generated',
    ]
    return common.finish(ctx, MATCHERS)


def judge_b(ctx, rec, line, views, roadm_lib):
    case = rec['_case']
    rl, ra_s, sel = line.split('#', 2)
    mod_restr = [x for x in rl.split(',') if x]
    # oracle: permitted set recomputed from the generated inputs
    exp, r = permitted_names(rec, views, roadm_lib, None)
    impl_restr = rec['restrictions']
    if impl_restr != exp:
        ctx.violation('permitted_set', f"{rec['uid']}: get_node_restrictions {impl_restr} != permitted set {exp} "
                      f"(applicable list {r})", case)
    if impl_restr != mod_restr:
        ctx.corr_break('corr:Select.node_restrictions', f"{rec['uid']}", case, impl=impl_restr, model=mod_restr)
    if rec['variety']:
        return
    if 'out' not in rec:
        if impl_restr:
            if rec.get('_aborted'):
                ctx.count('B_design_aborted_before_selection')      # e.g. malformed delta_power_range_db (C09's subject)
                return
            ctx.corr_break('corr:Select.auto_select', f"{rec['uid']}: select_edfa was not called", case)
        else:
            ctx.count('B_no_permitted_model')
            if not sel.startswith('E:ConfigurationError') and sel != 'imposed':
                ctx.corr_break('corr:Select.auto_select', f"{rec['uid']}: empty restrictions", case, model=sel)
        return
    mod = parse_sel(sel)
    if mod[2] < TOL:
        ctx.count('B_not_judged_threshold_tie')
        return
    if (ra_s == 'T') != rec['ra']:
        ctx.corr_break('corr:Select.raman_allowed', f"{rec['uid']}", case, impl=rec['ra'], model=ra_s)
    # oracle on the pick
    byname = {v['name']: v for v in views}
    if sorted(rec['cands']) != sorted(n for n in exp if n in byname and not byname[n]['multi']):
        ctx.violation('candidates', f"{rec['uid']}: select_edfa got {rec['cands']}, permitted {exp}", case)
    ra_exp = rec['pv']['kind'] == 'fiber' and all(x < built_maxl(rec, case) * 1e-3 for x in rec['pv']['loss_coef'])
    if ra_exp != rec['ra']:
        ctx.violation('raman_allowed', f"{rec['uid']}: raman_allowed {rec['ra']} expected {ra_exp}", case)
    orec = {'views': [dict(byname[n], nf=rec['nf'][n]) for n in rec['cands']], 'gain': rec['gain'],
            'power': rec['power'], 'ext': rec['ext'], 'ra': rec['ra'], 'out': rec['out']}
    for key, desc in oracle_select(orec):
        ctx.violation(key, f"{rec['uid']}: {desc}", case, observed=rec['out'])
    if not isinstance(rec['out'], str):
        s = byname[rec['out'][0]]
        if rec['out'][0] not in exp:
            ctx.violation('not_permitted', f"{rec['uid']}: {rec['out'][0]} not in {exp}", case)
        if not (s['f_min'] <= rec['band'][0] and s['f_max'] >= rec['band'][1]):
            ctx.violation('band', f"{rec['uid']}: {rec['out'][0]} does not cover {rec['band']}", case)
        if s['raman'] and not ra_exp:
            ctx.violation('raman_only_if_allowed', f"{rec['uid']}: Raman model {rec['out'][0]}", case)
    d = compare_sel(rec['out'], mod)
    if d:
        ctx.corr_break('corr:Select.auto_select', f"{rec['uid']}: {d}", case, impl=rec['out'], model=sel)


def built_maxl(rec, case):
    return case['span']['max_fiber_lineic_loss_for_raman']
