"""C04 — amplifier applies its set gain (clamped to p_max), the quantum-limited ASE and the configured NF model.

Tie: random (library entry of every type_def | random variable-gain datasheet) x gain around the range x tilt x
VOAs x random spectra (in-band / out-of-band channels, total power below / at / above saturation) are driven through
the real Edfa.__call__ / Multiband_amplifier.__call__ and through the Gallina model `Verif.Model.Amp.edfa_call` /
`multiband` at NumF (binary64) evaluated by vm_compute; effective gain, total input power, NF, gain profile, added ASE
and per-channel signal / ASE / NLI output are compared (1e-7).  estimate_nf_model is compared on random datasheets,
error cases included.  The same Gallina terms at NumR (and the clamp over Q) are what Props/C04.v proves about.
Oracle (implementation only): effective gain = min(set gain, p_max - total input power); total signal gain within
0.3 dB of it (exact for flat profiles); total output <= p_max; ASE added = h f B 10^(NF/10) at the input; signal
/ ASE / NLI all multiplied by the same per-channel gain; output channels = in-band input channels; for variable-gain
entries NF(gain_flatmax) = nf_min, NF(gain_min) = nf_max, NF non-increasing in gain, +1 dB per dB below gain_min.
"""
import copy
import glob
import json
import math
import os

from . import common
from .common import listlit
from .c03 import hexf, flist, parse_f, close, gen_comb, coq_eval_retry

TOL = 1e-7
H = 6.62607015e-34
LIBS = ['gnpy/example-data/eqpt_config.json', 'gnpy/example-data/eqpt_config_multiband.json',
        'gnpy/example-data/eqpt_config_openroadm_ver4.json', 'gnpy/example-data/eqpt_config_openroadm_ver5.json',
        'tests/data/eqpt_config.json', 'tests/data/eqpt_config_multiband.json', 'tests/data/eqpt_config_psd.json',
        'tests/data/eqpt_config_psw.json', 'tests/data/eqpt_config_sweep.json']

_lib_cache = {}
_lib_errors = []


def library():
    """{(file, variety): Amp} for every amplifier entry of the shipped / test libraries"""
    if _lib_cache:
        return _lib_cache
    from pathlib import Path
    from gnpy.tools.json_io import load_equipment
    for rel in LIBS:
        p = Path(common.REPO) / rel
        if not p.exists():
            continue
        try:
            eq = load_equipment(p)
        except Exception as ex:  # noqa   (a shipped library that no longer loads is reported by run())
            _lib_errors.append((rel, f'{type(ex).__name__}: {ex}'))
            continue
        for name, amp in eq.get('Edfa', {}).items():
            _lib_cache[(rel, name)] = (amp, eq['Edfa'])
    return _lib_cache


_raw_cache = {}
_gen_cache = {}
BASE_LIB = 'gnpy/example-data/eqpt_config.json'


def raw_entries(rel, extra=None):
    """{type_variety: raw JSON entry} of the amplifier definitions of a library file (+ generated entries), unloaded"""
    from pathlib import Path
    if rel not in _raw_cache:
        data = json.load(open(Path(common.REPO) / rel))
        d = {}
        for e in data.get('Edfa', []):
            for name in [e['type_variety']] + list(e.get('other_name', [])):
                d[name] = e
        _raw_cache[rel] = d
    d = dict(_raw_cache[rel])
    for e in extra or []:
        d[e['type_variety']] = e
    return d


def declared(raw, variety):
    """what the definitions say, independently of the loader: maximum output power, gain range.  For a dual stage the
    output stage (booster) delivers the power, the flat gains add up (docs/amplifier_models_description.rst)"""
    e = raw[variety]
    if e.get('type_def') == 'dual_stage':
        pre, boo = raw[e['preamp_variety']], raw[e['booster_variety']]
        return {'p_max': boo['p_max'], 'gain_flatmax': pre['gain_flatmax'] + boo['gain_flatmax'], 'gain_min': e['gain_min']}
    if e.get('type_def') == 'multi_band':
        return None
    return {'p_max': e['p_max'], 'gain_flatmax': e['gain_flatmax'], 'gain_min': e['gain_min']}


def gen_library(rng):
    """extra amplifier definitions: single stages with DIFFERENT p_max / gain ranges / NF and dual stages built on them"""
    from gnpy.tools.json_io import Amp
    stages = []
    pmaxes = rng.sample([16.0, 18.0, 20.0, 21.0, 23.0, 25.0, 27.0], 4)
    k = 0
    while len(stages) < 4:
        ds = gen_datasheet(rng)
        if rng.random() < 0.3:
            e = {'type_variety': f'gen_stage{k}', 'type_def': 'fixed_gain', 'gain_flatmax': ds['gain_flatmax'],
                 'gain_min': ds['gain_flatmax'] - rng.choice([0, 1, 2]), 'p_max': pmaxes[len(stages)], 'nf0': rng.uniform(4.5, 7),
                 'allowed_for_design': False}
        else:
            e = {'type_variety': f'gen_stage{k}', 'type_def': 'variable_gain', 'gain_flatmax': ds['gain_flatmax'],
                 'gain_min': ds['gain_min'], 'p_max': pmaxes[len(stages)], 'nf_min': ds['nf_min'], 'nf_max': ds['nf_max'],
                 'out_voa_auto': False, 'allowed_for_design': True}
        k += 1
        try:
            Amp.from_json({}, **dict(e))
        except Exception:  # noqa  (datasheet rejected by estimate_nf_model: draw another one)
            continue
        stages.append(e)
    duals = []
    for i in range(3):
        pre, boo = rng.sample(stages, 2)
        duals.append({'type_variety': f'gen_dual{i}', 'type_def': 'dual_stage',
                      'gain_min': pre['gain_min'] + rng.choice([0, rng.uniform(0, boo['gain_flatmax'])]),
                      'preamp_variety': pre['type_variety'], 'booster_variety': boo['type_variety'], 'allowed_for_design': True})
    return stages + duals


def load_generated(extra):
    """the shipped example library + generated definitions, through the real loader (_equipment_from_json)"""
    from pathlib import Path
    from gnpy.tools.json_io import _equipment_from_json
    from gnpy.tools.default_edfa_config import DEFAULT_EXTRA_CONFIG
    key = json.dumps(extra, sort_keys=True)
    if key not in _gen_cache:
        data = json.load(open(Path(common.REPO) / BASE_LIB))
        data['Edfa'] = data['Edfa'] + copy.deepcopy(extra)
        _gen_cache[key] = _equipment_from_json(data, DEFAULT_EXTRA_CONFIG)['Edfa']
    return _gen_cache[key]


def declared_of(case):
    """declared values of every band amplifier of a case, in the order of case['op']"""
    a = case['amp']
    if 'custom' in a:
        ds = a['custom']
        return [{'p_max': ds['p_max'], 'gain_flatmax': ds['gain_flatmax'], 'gain_min': ds['gain_min']}]
    raw = raw_entries(BASE_LIB, a['genlib']) if 'genlib' in a else raw_entries(a['lib'])
    e = raw[a['variety']]
    if e.get('type_def') == 'multi_band':
        return [declared(raw, v) for v in e['amplifiers']]
    return [declared(raw, a['variety'])]


def custom_amp(spec):
    """variable-gain amplifier from a random datasheet, through the real Amp.from_json"""
    from gnpy.tools.json_io import Amp
    kw = {'type_variety': 'custom', 'type_def': 'variable_gain', 'gain_flatmax': spec['gain_flatmax'],
          'gain_min': spec['gain_min'], 'p_max': spec['p_max'], 'nf_min': spec['nf_min'], 'nf_max': spec['nf_max'],
          'out_voa_auto': False, 'allowed_for_design': True}
    if 'f_min' in spec:
        kw['f_min'], kw['f_max'] = spec['f_min'], spec['f_max']
    return Amp.from_json({}, **kw)


# ------------------------------------------------------------------ generators
def gen_datasheet(rng, valid=True):
    gmin = rng.choice([8.0, 15.0, 25.0, rng.uniform(5, 28)])
    gmax = gmin + rng.choice([8.0, 10.0, 11.0, rng.uniform(3, 15)])
    if valid:
        nf_min = rng.uniform(4.6, 7.5)
        nf_max = nf_min + rng.uniform(0.4, 0.12 * (gmax - gmin) + 1.0) * rng.choice([1, 1, 1, 2.5])
    else:
        nf_min = rng.choice([rng.uniform(-12, 12), rng.uniform(3, 8)])
        nf_max = rng.choice([nf_min + rng.uniform(-3, 12), rng.uniform(-12, 14)])
    return {'gain_min': gmin, 'gain_flatmax': gmax, 'nf_min': nf_min, 'nf_max': nf_max,
            'p_max': rng.choice([16.0, 21.0, 23.0, 25.0, rng.uniform(10, 27)])}


def gen_spectrum(rng, f_min, f_max, gain, p_max, one=False, regime=None):
    """[[f, slot, baud, pch, ase_ratio, nli_ratio]], sorted; mostly inside [f_min, f_max], some outside"""
    style = rng.random()
    n_in = 1 if one else rng.choice([2, 2, 3, 5, 8, 16, 30, 48, 76, 96])
    if style < 0.45:
        slot = rng.choice([37.5e9, 50e9, 50e9, 75e9, 100e9])
        n_in = min(n_in, int((f_max - f_min) / slot) - 1)
        k0 = rng.randint(0, int((f_max - f_min) / slot) - n_in)
        step = 1 if rng.random() < 0.7 else rng.choice([1, 2])
        fs = [f_min + slot * (k0 + 0.5 + i) for i in range(0, n_in * step, step) if f_min + slot * (k0 + 0.5 + i) + slot / 2 <= f_max]
        baud = rng.choice([slot * 0.64, slot * 0.9, 32e9 if slot >= 32e9 else slot * 0.8])
        chans = [[f, slot, baud] for f in fs]
    else:
        comb = gen_comb(rng, n_in)
        shift = f_min + rng.uniform(0, 0.3) * (f_max - f_min) - (comb[0][0] - comb[0][2] / 2)
        chans = [[c[0] + shift, c[2], c[1]] for c in comb if c[0] + shift + c[2] / 2 <= f_max]
    if len(chans) < 2:
        chans = [[(f_min + f_max) / 2, 50e9, 32e9], [(f_min + f_max) / 2 + 50e9, 50e9, 32e9]]
    if one == 'none':
        chans = []
    elif one:
        chans = chans[:1]
    # out-of-band and straddling channels
    extra = []
    r = rng.random()
    if r < 0.35 or not chans:
        k = rng.randint(1, 4)
        for i in range(k):
            extra.append([f_min - 50e9 * (i + 1) - 25e9, 50e9, 32e9])
        if rng.random() < 0.5:
            extra.append([f_max + 25e9 + rng.choice([0, 50e9, 1e12]), 50e9, 32e9])
        if rng.random() < 0.4:       # slot straddling the lower edge (kept clear of the first in-band channel)
            lowest = min([c[0] - c[1] / 2 for c in chans] + [f_max])
            if lowest - f_min >= 30e9:
                extra = [e for e in extra if e[0] + e[1] / 2 <= f_min - 30e9]
                extra.append([f_min + 5e9, 50e9, 32e9])
    if rng.random() < 0.3 and not one:
        edge = []
        if rng.random() < 0.6:       # 75 GHz slot, 32 GBaud, centre 25 GHz inside the lower edge: slot out, baud in
            edge.append([f_min + 25e9, 75e9, 32e9])
        if rng.random() < 0.6 or not edge:
            edge.append([f_max - rng.choice([25e9, 20e9, 30e9]), 75e9, 32e9])
        # edge channels come first in the overlap guard: they displace in-band neighbours, never the other way round
        keep = [c for c in chans + extra if all(abs(c[0] - e[0]) >= (c[1] + e[1]) / 2 for e in edge)]
        chans, extra = keep, edge
    chans = sorted(chans + extra, key=lambda c: c[0])
    # non-overlap guard
    ok = [chans[0]]
    for c in chans[1:]:
        if ok[-1][0] + ok[-1][1] / 2 <= c[0] - c[1] / 2:
            ok.append(c)
    chans = ok
    inb = [c for c in chans if c[0] - c[1] / 2 >= f_min and c[0] + c[1] / 2 <= f_max]
    nb = max(1, len(inb))
    # total input power relative to saturation
    regime = regime or rng.choice(['below', 'below', 'at', 'above', 'above', 'far_below'])
    target_tot = {'below': p_max - gain - rng.uniform(0.5, 12), 'at': p_max - gain,
                  'above': p_max - gain + rng.uniform(0.2, 8), 'far_below': p_max - gain - rng.uniform(15, 35)}[regime]
    flat = rng.random() < 0.5
    w = [1.0 if flat else 10 ** (rng.uniform(-4, 4) / 10) for _ in chans]
    if rng.random() < 0.4 and len(chans) > 1:
        # stronger channels towards one end of the band (either end): the power-weighted gain then differs from the mean gain
        slope_db = rng.choice([-1, 1]) * rng.uniform(3, 15)
        fl, fh = chans[0][0], chans[-1][0]
        w = [wi * 10 ** (slope_db * ((c[0] - fl) / (fh - fl) - 0.5) / 10) for wi, c in zip(w, chans)]
    win = sum(wi for wi, c in zip(w, chans) if c in inb) or 1.0
    ptot = 10 ** (target_tot / 10) * 1e-3
    out = []
    for wi, c in zip(w, chans):
        ase_r = rng.choice([0.0, 10 ** (-rng.uniform(1.5, 4.5))])
        nli_r = rng.choice([0.0, 10 ** (-rng.uniform(1.5, 4.5))])
        out.append([c[0], c[1], c[2], ptot * wi / win, ase_r, nli_r])
    return out, regime


def gen_case(rng, keys, one=False, profile=None):
    """profile: None | 'above_flatmax' | 'below_gain_min' | 'in_range' (set gain position, far from saturation)"""
    lib = library()
    r = rng.random()
    case = {}
    if r < 0.12:
        extra = gen_library(rng)
        name = rng.choice([e['type_variety'] for e in extra if e['type_def'] == 'dual_stage'] * 3 + [e['type_variety'] for e in extra])
        case['amp'] = {'genlib': extra, 'variety': name}
        try:
            amp = get_amp(case)[0]
        except Exception:  # noqa
            return None
    elif r < 0.7:
        key = rng.choice(keys)
        amp = lib[key][0]
        case['amp'] = {'lib': key[0], 'variety': key[1]}
    else:
        ds = gen_datasheet(rng)
        if rng.random() < 0.3:
            ds['f_min'], ds['f_max'] = rng.choice([(186.5e12, 190.1e12), (191.3e12, 196.1e12), (192.0e12, 194.0e12)])
        case['amp'] = {'custom': ds}
        try:
            amp = custom_amp(ds)
        except Exception:  # noqa
            return None
    multi = amp.type_def == 'multi_band'
    if multi:
        subs = [lib[(case['amp']['lib'], v)][0] for v in amp.multi_band]
    else:
        subs = [amp]
    ops, chans, regimes = [], [], []
    for a in subs:
        gmin, gmax = a.gain_min, a.gain_flatmax
        gain = rng.choice([rng.uniform(gmin - 3, gmax + 3), rng.uniform(gmin, gmax), gmin, gmax, gmin - rng.uniform(0, 3),
                           gmax + rng.uniform(0, 3)])
        if profile == 'above_flatmax':
            gain = gmax + rng.uniform(0.2, 3)
        elif profile == 'below_gain_min':
            gain = gmin - rng.uniform(0.2, 3)
        elif profile == 'in_range':
            gain = rng.uniform(gmin, gmax)
        tilt = rng.choice([0.0, 0.0, rng.uniform(-3, 3), rng.uniform(-1, 1)])
        ops.append({'gain_target': gain, 'tilt_target': tilt, 'out_voa': rng.choice([0.0, 0.0, rng.uniform(0, 3)]),
                    'in_voa': rng.choice([0.0, 0.0, None, rng.uniform(0, 2)])})
        c, reg = gen_spectrum(rng, a.f_min, a.f_max, gain, a.p_max, one=one and a is subs[0],
                              regime='far_below' if profile else None)
        chans += c
        regimes.append(reg)
    chans = sorted(chans, key=lambda c: c[0])
    ok = [chans[0]]
    for c in chans[1:]:
        if ok[-1][0] + ok[-1][1] / 2 <= c[0] - c[1] / 2:
            ok.append(c)
    case.update({'op': ops, 'chan': ok, 'regime': regimes, 'multi': multi})
    return case


# ------------------------------------------------------------------ implementation driver
def get_amp(case):
    lib = library()
    if 'custom' in case['amp']:
        return custom_amp(case['amp']['custom']), None
    if 'genlib' in case['amp']:
        alldict = load_generated(case['amp']['genlib'])
        return alldict[case['amp']['variety']], alldict
    a, alldict = lib[(case['amp']['lib'], case['amp']['variety'])]
    if case['amp'].get('dgt_override'):
        a = copy.deepcopy(a)
        a.dgt = list(case['amp']['dgt_override'])
    return a, alldict


def make_si(chans):
    import numpy as np
    from gnpy.core.info import SpectralInformation
    n = len(chans)
    f, sw, b, p, ar, nr = (np.array([c[i] for c in chans], dtype=float) for i in range(6))
    z = np.zeros(n)
    return SpectralInformation(frequency=f, baud_rate=b, slot_width=sw, pch=p, signal_ratio=1 - ar - nr, ase_ratio=ar,
                               nli_ratio=nr, roll_off=z.copy(), chromatic_dispersion=z.copy(), pmd=z.copy(),
                               pdl=z.copy(), latency=z.copy(), delta_pdb_per_channel=z.copy(),
                               tx_osnr=np.full(n, 40.0), tx_power=p.copy(), label=np.array(['x'] * n))


def observe_edfa(e, added):
    return {'eff': float(e.effective_gain), 'pin_db': float(e.pin_db), 'nf': [float(x) for x in e.nf],
            'gprofile': [float(x) for x in e.gprofile], 'added_ase': added,
            'f_min': e.params.f_min, 'f_max': e.params.f_max, 'p_max': e.params.p_max,
            'gain_target': e.operational.gain_target, 'out_voa': e.out_voa, 'in_voa': e.in_voa,
            'nf_ripple': [float(x) for x in e.interpol_nf_ripple], '_params': e.params}


def build_element(case, gains=None):
    """the real amplifier element of a case (fresh objects); gains overrides the set gain of each band amplifier"""
    from gnpy.core.elements import Edfa, Multiband_amplifier
    amp, alldict = get_amp(case)
    ops = [dict(op) for op in case['op']]
    if gains is not None:
        for op, g in zip(ops, gains):
            op['gain_target'] = g
    if case['multi']:
        amps = [{'type_variety': v, 'operational': op, 'params': copy.deepcopy(alldict[v].__dict__)}
                for v, op in zip(amp.multi_band, ops)]
        el = Multiband_amplifier(uid='amp', params=copy.deepcopy(amp.__dict__), amplifiers=amps)
        return el, list(el.amplifiers.values())
    el = Edfa(uid='amp', params=copy.deepcopy(amp.__dict__), operational=ops[0])
    return el, [el]


def propagate_once(el, edfas, chans):
    """one call of the element on a spectrum; rec['out'] = 'E:Type' or dict(f, sig, ase, nli), rec['amps'] = observations
    of the band amplifiers that were used, rec['gain_before'] = their effective gain when the call started"""
    from gnpy.core.elements import Edfa
    from gnpy.core.info import SpectralInformation
    rec = {'amps': [], 'edfas': edfas, 'gain_before': [float(e.effective_gain) for e in edfas]}
    added_log, used = [], []
    orig_add, orig_prop = SpectralInformation.add_ase, Edfa.propagate

    def wrapped_add(self, ase):
        added_log.append([float(x) for x in ase])
        return orig_add(self, ase)

    def wrapped_prop(self, spectral_info):
        used.append(self)
        return orig_prop(self, spectral_info)
    SpectralInformation.add_ase = wrapped_add
    Edfa.propagate = wrapped_prop
    try:
        try:
            out = el(make_si(chans))
            rec['out'] = {'f': [float(x) for x in out.frequency], 'sig': [float(x) for x in out.signal],
                          'ase': [float(x) for x in out.ase], 'nli': [float(x) for x in out.nli]}
            for e, added in zip(used, added_log):
                o = observe_edfa(e, added)
                o['_idx'] = [id(x) for x in edfas].index(id(e))
                o['gain_target'] = rec['gain_before'][o['_idx']]
                rec['amps'].append(o)
        except Exception as ex:  # noqa
            rec['out'] = f'E:{type(ex).__name__}'
            rec['exc'] = str(ex)
    finally:
        SpectralInformation.add_ase = orig_add
        Edfa.propagate = orig_prop
    return rec


def drive(case):
    """fresh element, one spectrum"""
    el, edfas = build_element(case)
    return propagate_once(el, edfas, case['chan'])


def same_result(a, b, tol=1e-12):
    """two propagation records agree (outcome, effective gain, NF, gain profile, added ASE, every output component)"""
    if isinstance(a['out'], str) or isinstance(b['out'], str):
        return None if a['out'] == b['out'] else f"outcome {a['out']} vs {b['out']}"
    if len(a['amps']) != len(b['amps']):
        return f"{len(a['amps'])} band amplifiers used vs {len(b['amps'])}"
    for k, (x, y) in enumerate(zip(a['amps'], b['amps'])):
        for key in ('eff', 'pin_db'):
            if abs(x[key] - y[key]) > tol * max(1, abs(x[key])):
                return f'band {k} {key}: {x[key]!r} vs {y[key]!r}'
        for key in ('nf', 'gprofile', 'added_ase'):
            d = cmp_list(x[key], y[key], f'band {k} {key}', tol=tol, absolute=key != 'added_ase', names=('used amplifier', 'fresh amplifier'))
            if d:
                return d
    for key in ('f', 'sig', 'ase', 'nli'):
        d = cmp_list(a['out'][key], b['out'][key], key, tol=tol, names=('used amplifier', 'fresh amplifier'))
        if d:
            return d
    return None


# ------------------------------------------------------------------ histories: one amplifier object, several spectra
def regrid(rng, chans, f_min, f_max, relation):
    """next spectrum of a history, derived from the in-band uniform part of the previous one"""
    fs = [c[0] for c in chans]
    slot, baud = chans[0][1], chans[0][2]
    n = len(chans)
    if relation == 'same':
        new = [[f, c[1], c[2]] for f, c in zip(fs, chans)]
    elif relation == 'stride2':          # same first carrier, same count, every other position
        step = 2 * (fs[1] - fs[0]) if n > 1 else slot
        new = [[fs[0] + i * step, slot, baud] for i in range(n)]
    elif relation == 'shift':            # same count, moved by a few positions: overlaps the old grid
        step = fs[1] - fs[0] if n > 1 else slot
        k = rng.choice([1, 2, 3, max(1, n // 2)])
        new = [[f + k * step, slot, baud] for f in fs]
    elif relation == 'tail_moved':       # same count, only the upper half moves by half a step
        step = fs[1] - fs[0] if n > 1 else slot
        new = [[f if i < n // 2 else f + step, slot, baud] for i, f in enumerate(fs)]
    elif relation == 'subset':
        keep = sorted(rng.sample(range(n), max(1, n - rng.randint(1, max(1, n // 2)))))
        new = [[fs[i], slot, baud] for i in keep]
    else:                                # 'grow': more channels on the same pitch
        step = fs[1] - fs[0] if n > 1 else slot
        new = [[fs[0] + i * step, slot, baud] for i in range(n + rng.randint(1, 6))]
    new = [c for c in new if c[0] - c[1] / 2 >= f_min and c[0] + c[1] / 2 <= f_max]
    return new or [[f, c[1], c[2]] for f, c in zip(fs, chans)]


def gen_history(rng, keys, rippled):
    lib = library()
    key = rng.choice(rippled) if rippled and rng.random() < 0.5 else rng.choice(keys)
    amp = lib[key][0]
    case = {'amp': {'lib': key[0], 'variety': key[1]}, 'multi': amp.type_def == 'multi_band'}
    subs = [lib[(key[0], v)][0] for v in amp.multi_band] if case['multi'] else [amp]
    ops, first = [], []
    for a in subs:
        gain = rng.uniform(a.gain_min - 2, a.gain_flatmax + 2)
        ops.append({'gain_target': gain, 'tilt_target': rng.choice([0.0, rng.uniform(-2, 2)]),
                    'out_voa': rng.choice([0.0, rng.uniform(0, 2)]), 'in_voa': rng.choice([0.0, None, rng.uniform(0, 1)])})
        slot = rng.choice([50e9, 50e9, 75e9, 100e9])
        room = int((a.f_max - a.f_min) / slot) - 1
        n = rng.randint(2, max(2, min(40, room // 2)))
        k0 = rng.randint(0, max(0, room // 2 - n))
        first.append([[a.f_min + slot * (k0 + 0.5 + i), slot, rng.choice([slot * 0.64, 32e9 if slot >= 32e9 else slot * 0.8])]
                      for i in range(n)])
    steps = []
    cur = first
    for s in range(rng.randint(2, 4)):
        if s:
            cur = [regrid(rng, c, a.f_min, a.f_max, rng.choice(['same', 'stride2', 'stride2', 'shift', 'tail_moved', 'subset', 'grow']))
                   for c, a in zip(cur, subs)]
        chans = []
        for c, a, op in zip(cur, subs, ops):
            tot = a.p_max - op['gain_target'] + rng.choice([-20, -8, -3, 0.5, 3])     # below ... above saturation
            flat = rng.random() < 0.5
            w = [1.0 if flat else 10 ** (rng.uniform(-3, 3) / 10) for _ in c]
            if rng.random() < 0.4 and len(c) > 1:
                slope_db = rng.choice([-1, 1]) * rng.uniform(3, 15)
                w = [wi * 10 ** (slope_db * (i / (len(c) - 1) - 0.5) / 10) for i, wi in enumerate(w)]
            for wi, ch_ in zip(w, c):
                chans.append([ch_[0], ch_[1], ch_[2], 10 ** (tot / 10) * 1e-3 * wi / sum(w), rng.choice([0.0, 1e-3]), rng.choice([0.0, 1e-4])])
        steps.append(sorted(chans, key=lambda c: c[0]))
    case.update({'op': ops, 'history': steps, 'regime': []})
    return case


# ------------------------------------------------------------------ property oracle (implementation only)
def db(x):
    return 10 * math.log10(x)


def oracle(case, rec):
    fails = []
    chans = case['chan']
    try:
        declared_all = declared_of(case)
    except Exception as ex:  # noqa
        declared_all = None
        fails.append(('declared_limits', f'definitions of the amplifier cannot be read: {type(ex).__name__}: {ex}'))
    if isinstance(rec['out'], str):
        # the only legitimate refusal: no channel at all inside the amplifier band(s)
        bands = [(e.params.f_min, e.params.f_max) for e in rec['edfas']]
        inb = [c for c in chans if any(c[0] - c[1] / 2 >= lo and c[0] + c[1] / 2 <= hi for lo, hi in bands)]
        if not (rec['out'] == 'E:ValueError' and not inb):
            per_band = [sum(1 for c in chans if c[0] - c[1] / 2 >= lo and c[0] + c[1] / 2 <= hi) for lo, hi in bands]
            key = 'single_channel_crash' if rec['out'] == 'E:IndexError' and 1 in per_band else 'exception'
            fails.append((key, f"{rec['out']}: {rec.get('exc', '')[:100]} with {per_band} channels in band"))
        return fails
    out = rec['out']
    for o in rec['amps']:
        if any(not math.isfinite(x) for x in o['gprofile']):
            return [('nonfinite_gain', f"gain profile {o['gprofile'][:3]}... for set gain {o['gain_target']}")]
    # out-of-band channels are not amplified (they are not propagated at all); every in-band channel is
    bands = [(o['f_min'], o['f_max']) for o in rec['amps']]
    allb = [(e.params.f_min, e.params.f_max) for e in rec['edfas']]
    inb = [c for c in chans if any(c[0] - c[1] / 2 >= lo and c[0] + c[1] / 2 <= hi for lo, hi in allb)]
    if [c[0] for c in inb] != out['f']:
        fails.append(('band_filter', f"output channels {len(out['f'])} != in-band input channels {len(inb)}"))
        return fails
    for o in rec['amps']:
        lo, hi = o['f_min'], o['f_max']
        sel = [c for c in chans if c[0] - c[1] / 2 >= lo and c[0] + c[1] / 2 <= hi]
        a = 1.0 if o['in_voa'] is None else 10 ** (-o['in_voa'] / 10)
        pin = [c[3] * a for c in sel]
        pin_db = db(sum(pin) * 1e3)
        # the limits the amplifier works with are those of its definition (dual stage: p_max of the output stage, flat
        # gains added), taken from the raw library entries, not read back from the loaded object
        dec = declared_all[o['_idx']] if declared_all and o.get('_idx') is not None and o['_idx'] < len(declared_all) else None
        p_max = dec['p_max'] if dec else o['p_max']
        if dec and (abs(o['p_max'] - dec['p_max']) > 1e-9 or abs(o['_params'].gain_flatmax - dec['gain_flatmax']) > 1e-9):
            fails.append(('declared_limits', f"{o['_params'].type_def} {o['_params'].type_variety}: loaded p_max {o['p_max']} / gain_flatmax "
                          f"{o['_params'].gain_flatmax}, definitions give p_max {dec['p_max']} / gain_flatmax {dec['gain_flatmax']}"))
        # effective gain: set gain, reduced only as far as needed, judged on the TOTAL input power
        exp_eff = min(o['gain_target'], p_max - pin_db)
        if abs(o['eff'] - exp_eff) > 1e-9:
            fails.append(('clamp', f"effective gain {o['eff']} != min(set {o['gain_target']}, p_max - pin {p_max - pin_db})"))
        g = o['gprofile']
        if len(g) != len(sel):
            fails.append(('profile_length', f'{len(g)} gains for {len(sel)} channels'))
            continue
        glin = [10 ** (x / 10) for x in g]
        gtot = db(sum(p * gl for p, gl in zip(pin, glin)) / sum(pin))
        flat = max(g) - min(g) < 1e-12
        if abs(gtot - o['eff']) > (1e-9 if flat else 0.3):
            fails.append(('total_gain', f"total gain {gtot} vs effective gain {o['eff']} (flat={flat})"))
        # never above p_max (the signal part; the freshly generated ASE is accounted separately below)
        if pin_db + gtot > p_max + (1e-9 if flat else 0.3):
            fails.append(('above_pmax', f"total output {pin_db + gtot} dBm > p_max {p_max}"))
        # NF follows the configured model (reference formulas of the documentation), plus the NF ripple
        slot_width = sel[1][0] - sel[0][0] if len(sel) > 1 else sel[0][1]
        try:
            ref = ref_amp_nf(o['_params'], o['eff'], pin_db, len(sel), slot_width)
        except Exception as ex:  # noqa
            ref = None
            fails.append(('nf_reference', f'reference NF not computable: {type(ex).__name__}: {ex}'))
        if ref is not None:
            for i, (nf, rp) in enumerate(zip(o['nf'], o['nf_ripple'])):
                exp = ref + rp
                if not (nf == exp or abs(nf - exp) <= 1e-9 * max(1.0, abs(exp))):
                    fails.append(('nf_model', f"{o['_params'].type_def}: NF of channel {i} at gain {o['eff']:.4f} is {nf!r}, "
                                  f'model of the documentation gives {exp!r}'))
                    break
        # ASE referred to the input: h f B NF
        for i, (c, nf, ad) in enumerate(zip(sel, o['nf'], o['added_ase'])):
            exp = H * c[0] * c[2] * (10 ** (nf / 10) if nf != -math.inf else 0.0)
            if not close(ad, exp, 1e-12):
                fails.append(('ase_formula', f'channel {i}: added ASE {ad} != h f B NF {exp}'))
                break
        # each component through the same gain
        idx = {f: k for k, f in enumerate(out['f'])}
        for i, (c, gl, ad) in enumerate(zip(sel, glin, o['added_ase'])):
            k = idx[c[0]]
            gg = gl * 10 ** (-o['out_voa'] / 10)
            sig_in, ase_in, nli_in = c[3] * (1 - c[4] - c[5]) * a, c[3] * c[4] * a, c[3] * c[5] * a
            if not (close(out['sig'][k], sig_in * gg, 1e-9) and close(out['nli'][k], nli_in * gg, 1e-9 if nli_in else 1)
                    and close(out['ase'][k], (ase_in + ad) * gg, 1e-9)):
                fails.append(('component_gain', f'channel {i}: signal/ASE/NLI not multiplied by the channel gain'))
                break
    return fails


def ref_stage_nf(type_def, nf_model, fit, gain_min, gain_flatmax, g, pin50):
    """NF [dB] of one amplifier stage at gain g, from docs/amplifier_models_description.rst (plain Python):
      below gain_min the input is padded and NF += gain_min - g;
      variable_gain   two coils with a mid-stage VOA: NF = nf1 (+) nf2 / (g - delta_p - gain decrease)   [linear sum]
      fixed_gain      NF = nf0
      openroadm       incremental OSNR = a Pin^3 + b Pin^2 + c Pin + d with Pin per 50 GHz; NF = Pin + 58 - OSNR
      openroadm_preamp  OSNR = min((4 Pin + 275) / 7, 33)
      openroadm_booster noiseless
      advanced_model  NF = polynomial(gain - gain_max), gain - gain_max <= 0"""
    pad = max(gain_min - g, 0.0)
    ge = g + pad
    dec_ = max(gain_flatmax - ge, 0.0)
    if type_def == 'variable_gain':
        lin = 10 ** (nf_model.nf1 / 10) + 10 ** (nf_model.nf2 / 10) / 10 ** ((ge - nf_model.delta_p - dec_) / 10)
        nf = 10 * math.log10(lin)
    elif type_def == 'fixed_gain':
        nf = nf_model.nf0
    elif type_def == 'openroadm':
        a, b, c, d = nf_model.nf_coef
        nf = pin50 + 58 - (a * pin50 ** 3 + b * pin50 ** 2 + c * pin50 + d)
    elif type_def == 'openroadm_preamp':
        nf = pin50 + 58 - min((4 * pin50 + 275) / 7, 33)
    elif type_def == 'openroadm_booster':
        return -math.inf
    elif type_def == 'advanced_model':
        x = -dec_
        nf = sum(co * x ** k for k, co in enumerate(reversed(list(fit))))
    else:
        raise ValueError(type_def)
    return nf + pad


def ref_amp_nf(p, eff, pin_db, nch, slot_width):
    """average NF [dB] of the amplifier at effective gain eff; dual stage = Friis cascade, preamp at its maximum gain"""
    pin50 = pin_db - 10 * math.log10(nch) + 10 * math.log10(50e9 / slot_width)
    if p.type_def == 'dual_stage':
        g1 = p.preamp_gain_flatmax
        n1 = ref_stage_nf(p.preamp_type_def, p.preamp_nf_model, p.preamp_nf_fit_coeff, p.preamp_gain_min, g1, g1, pin50)
        n2 = ref_stage_nf(p.booster_type_def, p.booster_nf_model, p.booster_nf_fit_coeff, p.booster_gain_min,
                          p.booster_gain_flatmax, eff - g1, pin50)
        lin = (10 ** (n1 / 10) if n1 != -math.inf else 0.0) + (10 ** (n2 / 10) if n2 != -math.inf else 0.0) / 10 ** (g1 / 10)
        return 10 * math.log10(lin)
    return ref_stage_nf(p.type_def, p.nf_model, p.nf_fit_coeff, p.gain_min, p.gain_flatmax, eff, pin50)


def nf_oracle(amp, label):
    """NF model laws of a variable-gain entry, on fresh Edfa objects far below saturation"""
    from gnpy.core.elements import Edfa
    fails = []
    m = amp.nf_model
    gmin, gmax = amp.gain_min, amp.gain_flatmax
    fc = (amp.f_min + amp.f_max) / 2
    chans = [[fc - 50e9, 50e9, 32e9, 1e-9, 0, 0], [fc, 50e9, 32e9, 1e-9, 0, 0], [fc + 50e9, 50e9, 32e9, 1e-9, 0, 0]]

    def nf_at(g):
        e = Edfa(uid='amp', params=copy.deepcopy(amp.__dict__), operational={'gain_target': g, 'tilt_target': 0, 'out_voa': 0})
        e(make_si(chans))
        return float(e.nf[1]), float(e.effective_gain)
    n_hi, _ = nf_at(gmax)
    n_lo, _ = nf_at(gmin)
    if abs(n_hi - m.orig_nf_min) > 0.01 + 1e-9:
        fails.append(('nf_at_flatmax', f'{label}: NF({gmax}) = {n_hi} != nf_min {m.orig_nf_min}'))
    if abs(n_lo - m.orig_nf_max) > 0.01 + 1e-9:
        fails.append(('nf_at_gmin', f'{label}: NF({gmin}) = {n_lo} != nf_max {m.orig_nf_max}'))
    grid = [gmin + (gmax + 4 - gmin) * i / 24 for i in range(25)]
    vals = [nf_at(g)[0] for g in grid]
    for a, b, g in zip(vals, vals[1:], grid[1:]):
        if b > a + 1e-9:
            fails.append(('nf_not_antitone', f'{label}: NF increases with gain at {g}: {a} -> {b}'))
            break
    for d in (0.5, 1.0, 2.7):
        v, _ = nf_at(gmin - d)
        if abs(v - (n_lo + d)) > 1e-9:
            fails.append(('nf_pad', f'{label}: NF({gmin}-{d}) = {v} != NF(gain_min)+{d} = {n_lo + d}'))
    return fails, (n_hi, n_lo)


# ------------------------------------------------------------------ model side
class Tables:
    """long float arrays (DGT, ripple) are defined once in the prelude of every generated file"""
    def __init__(self):
        self.names, self.defs = {}, []

    def ref(self, xs):
        xs = [float(x) for x in xs]
        if len(xs) <= 4:
            return flist(xs)
        key = tuple(xs)
        if key not in self.names:
            self.names[key] = f'tb{len(self.names)}'
            self.defs.append(f'Definition {self.names[key]} : list float := {flist(xs)}.')
        return self.names[key]


def model_term(nf_model, type_def, fit):
    if type_def == 'variable_gain':
        return f'(mV {hexf(nf_model.nf1)} {hexf(nf_model.nf2)} {hexf(nf_model.delta_p)})'
    if type_def == 'fixed_gain':
        return f'(mF {hexf(nf_model.nf0)})'
    if type_def == 'openroadm':
        return f'(mO {flist(nf_model.nf_coef)})'
    if type_def == 'openroadm_preamp':
        return 'mP'
    if type_def == 'openroadm_booster':
        return 'mB'
    if type_def == 'advanced_model':
        return f'(mA {flist(fit)})'
    raise ValueError(type_def)


def amp_term(e, op, tb):
    p = e.params
    if p.type_def == 'dual_stage':
        pre = f'(st {model_term(p.preamp_nf_model, p.preamp_type_def, p.preamp_nf_fit_coeff)} {hexf(p.preamp_gain_min)} {hexf(p.preamp_gain_flatmax)})'
        boo = f'(st {model_term(p.booster_nf_model, p.booster_type_def, p.booster_nf_fit_coeff)} {hexf(p.booster_gain_min)} {hexf(p.booster_gain_flatmax)})'
        kind = f'(kD {pre} {boo})'
    else:
        kind = f'(kS (st {model_term(p.nf_model, p.type_def, p.nf_fit_coeff)} {hexf(p.gain_min)} {hexf(p.gain_flatmax)}))'
    iv = 'None' if op['in_voa'] is None else f"(Some {hexf(op['in_voa'])})"
    return (f"(mkA {kind} {hexf(p.gain_flatmax)} {hexf(p.p_max)} {hexf(p.f_min)} {hexf(p.f_max)} {tb.ref(p.dgt)} "
            f"{tb.ref(p.gain_ripple)} {tb.ref(p.nf_ripple)} {hexf(op['gain_target'])} {hexf(op['tilt_target'])} "
            f"{hexf(op['out_voa'])} {iv})")


def chan_terms(chans):
    return listlit([f'kc {hexf(c[0])} {hexf(c[1])} {hexf(c[2])} {hexf(c[3] * (1 - c[4] - c[5]))} {hexf(c[3] * c[4])} {hexf(c[3] * c[5])}'
                    for c in chans])


def parse_obs(s):
    parts = s.split('|')
    lst = lambda t: [parse_f(x) for x in t.split(',')] if t else []   # noqa
    return {'pin_db': parse_f(parts[0]), 'eff': parse_f(parts[1]), 'nf': lst(parts[2]), 'gprofile': lst(parts[3]),
            'added_ase': lst(parts[4]), 'f': lst(parts[5]), 'sig': lst(parts[6]), 'ase': lst(parts[7]), 'nli': lst(parts[8])}


def cmp_list(a, b, what, tol=TOL, absolute=False, names=('implementation', 'model')):
    if len(a) != len(b):
        return f'{what}: {len(a)} values vs {len(b)}'
    for i, (x, y) in enumerate(zip(a, b)):
        if x == y:
            continue
        ok = abs(x - y) <= tol * max(1.0, abs(x)) if absolute else close(x, y, tol)
        if not ok:
            return f'{what}[{i}]: {names[0]} {x!r} {names[1]} {y!r}'
    return None


def diff(rec, mrow):
    if isinstance(rec['out'], str) or mrow.startswith('E:'):
        mi = rec['out'] if isinstance(rec['out'], str) else 'numeric'
        mm = 'E:' + mrow[2:].split(':')[0] if mrow.startswith('E:') else 'numeric'
        return None if mi == mm else f'implementation {mi} ({rec.get("exc", "")[:80]}), model {mm}'
    mobs = [parse_obs(s) for s in mrow.split('#')]
    if len(mobs) != len(rec['amps']):
        return f"{len(rec['amps'])} band amplifiers used vs {len(mobs)} in the model"
    mf, ms, ma, mn = [], [], [], []
    for o, m in zip(rec['amps'], mobs):
        for key in ('pin_db', 'eff'):
            if abs(o[key] - m[key]) > TOL * max(1, abs(o[key])):
                return f'{key}: implementation {o[key]} model {m[key]}'
        d = (cmp_list(o['nf'], m['nf'], 'nf', absolute=True) or cmp_list(o['gprofile'], m['gprofile'], 'gprofile', absolute=True)
             or cmp_list(o['added_ase'], m['added_ase'], 'added ASE'))
        if d:
            return d
        mf += m['f']; ms += m['sig']; ma += m['ase']; mn += m['nli']   # noqa
    order = sorted(range(len(mf)), key=lambda i: mf[i])
    out = rec['out']
    return (cmp_list(out['f'], [mf[i] for i in order], 'frequency') or cmp_list(out['sig'], [ms[i] for i in order], 'signal')
            or cmp_list(out['ase'], [ma[i] for i in order], 'ase') or cmp_list(out['nli'], [mn[i] for i in order], 'nli'))


def strip(c):
    return {k: v for k, v in c.items() if not k.startswith('_')}


def run(ctx):
    import logging
    import warnings
    logging.disable(logging.CRITICAL)
    import numpy  # noqa
    import gnpy.core.elements  # noqa
    from gnpy.core.science_utils import estimate_nf_model
    warnings.simplefilter('ignore')
    rng = ctx.rng
    # second tie: re-translate the listed fragments of elements.py / info.py / json_io.py / science_utils.py from /repo's
    # source; the equivalence lemmas of Proofs/AmpGen.v are then re-checked by check_props against what the code says now
    from . import pygen_c04
    gen_ok, gen_msg = pygen_c04.regenerate()
    ctx.proof = common.check_props('C04')
    if not gen_ok:
        ctx.proof['ok'] = False
        ctx.proof['log'] = 'harness/pygen_c04.py: ' + gen_msg + '\n' + ctx.proof.get('log', '')
        ctx.proof['failed_file'] = 'theories/Gen/AmpGen.v (translation of /repo source failed)'
    ctx.rule = ('random amplifier (every Edfa entry of the shipped and test libraries: variable_gain, fixed_gain, '
                'advanced_model, openroadm, openroadm_preamp, openroadm_booster, dual_stage, multi_band; or a random '
                'variable-gain datasheet through Amp.from_json) x set gain in [gain_min-3, gain_flatmax+3] x tilt x '
                'in/out VOA x random spectrum (2-96 in-band channels, out-of-band and band-straddling channels, '
                'flat or uneven powers, existing ASE/NLI) with total power far below / below / at / above saturation; '
                'non-trivial = numeric result with >= 2 channels; distinct by content hash')
    lib = library()
    keys = sorted(lib.keys())
    ctx.count('library_entries', len(keys))
    for rel, err in _lib_errors:
        ctx.violation('library_load', f'amplifier library {rel} is rejected: {err[:200]}', {'library': rel})
    if not keys:
        return common.finish(ctx, {})
    cases = []
    for f in sorted(glob.glob(os.path.join(common.VERIF, 'corpus', 'C04', '*.json'))):
        c = json.load(open(f))
        c['_corpus'] = os.path.basename(f)
        cases.append(c)
    if ctx.replay:
        cases = [json.load(open(ctx.replay))['case']]
    else:
        n = ctx.scale(300, 3000)
        # every library entry at least once, then random
        # plus one case with the set gain above the flat range / below the minimum / inside, far from saturation,
        # so that every NF model is exercised on both sides of its gain range without the clamp interfering
        for kk, k in enumerate(keys):
            for profile in (None, ('above_flatmax', 'below_gain_min', 'in_range')[(kk + ctx.seed) % 3]):
                c = None
                while c is None:
                    c = gen_case(rng, [k], profile=profile)
                    if c and ('custom' in c['amp'] or 'genlib' in c['amp']):
                        c = None
                cases.append(c)
        rippled = [k for k in keys if lib[k][0].type_def != 'multi_band'
                   and (numpy.size(lib[k][0].gain_ripple) > 1 or numpy.size(lib[k][0].nf_ripple) > 1)]
        # a single in-band carrier (the one-channel shortcut of the gain profile), on amplifiers with frequency dependent
        # ripple in particular, tilted or not, saturated or not
        for k in rippled + [rng.choice(keys) for _ in range(ctx.scale(6, 60))]:
            for _ in range(ctx.scale(2, 6)):
                c = None
                while c is None:
                    c = gen_case(rng, [k], one=True)
                    if c and ('custom' in c['amp'] or 'genlib' in c['amp']):
                        c = None
                cases.append(c)
        for _ in range(ctx.scale(40, 500)):
            cases.append(gen_history(rng, keys, rippled))
        while len(cases) < n:
            r = rng.random()
            c = gen_case(rng, keys, one=True if r < 0.03 else ('none' if r < 0.05 else False))
            if c:
                cases.append(c)

    tb = Tables()
    terms, meta = [], []
    def judge(c, rec, record=None):
        """counters, property oracle and model term for one propagation (c: single-spectrum case, rec: its observation)"""
        numeric = not isinstance(rec['out'], str)
        ninb = len(rec['out']['f']) if numeric else 0
        ctx.case(strip(c), numeric and ninb >= 2)
        amp, _ = get_amp(c)
        ctx.count('type_' + amp.type_def)
        ctx.count('amp_custom' if 'custom' in c['amp'] else 'amp_generated_library' if 'genlib' in c['amp'] else 'amp_library')
        for rg in c['regime']:
            ctx.count('regime_' + rg)
        ctx.count('outcome_numeric' if numeric else 'outcome_' + rec['out'])
        ctx.count('channels_in', len(c['chan']))
        ctx.count('channels_out', ninb)
        if numeric and any(o['eff'] < o['gain_target'] - 1e-12 for o in rec['amps']):
            ctx.count('clamped')
        if any(op['tilt_target'] != 0 for op in c['op']):
            ctx.count('tilted')
        fails = oracle(c, rec)
        for key, desc in fails:
            ctx.violation(key, desc, strip(record or c))
        if any(k == 'nonfinite_gain' for k, _ in fails):
            ctx.count('skipped_nonfinite')       # nothing finite to compare with the model
            return
        if c['multi']:
            terms.append('run_multi ' + listlit([amp_term(e, op, tb)[1:-1] for e, op in zip(rec['edfas'], c['op'])]) + ' ' + chan_terms(c['chan']))
        else:
            terms.append(f"run_edfa {amp_term(rec['edfas'][0], c['op'][0], tb)} {chan_terms(c['chan'])}")
        meta.append((record or c, rec))

    for c in cases:
        try:
            get_amp(c)
        except KeyError:
            ctx.count('skipped_library_missing')     # its library was rejected: reported above as library_load
            continue
        if 'history' not in c:
            judge(c, drive(c))
            continue
        # one amplifier object, several spectra in a row: every propagation is judged like a single one (with the gain
        # the object holds when the call starts as its set gain) AND must equal what a fresh amplifier holding that
        # gain does with the same spectrum
        ctx.count('histories')
        el, edfas = build_element(c)
        for k, chans in enumerate(c['history']):
            rec = propagate_once(el, edfas, chans)
            upto = dict(c, history=c['history'][:k + 1])
            el2, edfas2 = build_element(c, gains=rec['gain_before'])
            rec2 = propagate_once(el2, edfas2, chans)
            d = same_result(rec, rec2)
            ctx.count('history_steps')
            if k and [x[0] for x in chans] == [x[0] for x in c['history'][k - 1]]:
                ctx.count('history_same_grid')
            elif k and len(chans) == len(c['history'][k - 1]) and {x[0] for x in chans} & {x[0] for x in c['history'][k - 1]}:
                ctx.count('history_same_count_overlapping_grid')
            if d:
                ctx.violation('history_dependence', f'propagation #{k + 1} on a used amplifier differs from a fresh amplifier '
                              f'with the same gain and spectrum: {d}', strip(upto))
            step_case = dict({kk: v for kk, v in c.items() if kk != 'history'}, chan=chans,
                             op=[dict(op, gain_target=g) for op, g in zip(c['op'], rec['gain_before'])])
            judge(step_case, rec, record=upto)

    # NF laws on every variable-gain library entry + random datasheets (implementation only)
    seen = set()
    for k in keys:
        a = lib[k][0]
        if a.type_def == 'variable_gain' and (k[1], a.gain_min, a.gain_flatmax) not in seen:
            seen.add((k[1], a.gain_min, a.gain_flatmax))
            fails, _ = nf_oracle(a, f'{k[0]}:{k[1]}')
            ctx.count('nf_law_entries')
            for key, desc in fails:
                ctx.violation(key, desc, {'amp': {'lib': k[0], 'variety': k[1]}})
    # estimate_nf_model: implementation vs model on random datasheets, valid and invalid
    est_cases, est_terms = [], []
    for i in range(ctx.scale(120, 1500)):
        ds = gen_datasheet(rng, valid=rng.random() < 0.6)
        try:
            r = estimate_nf_model('custom', ds['gain_min'], ds['gain_flatmax'], ds['nf_min'], ds['nf_max'])
            impl = [float(x) for x in r]
        except Exception as ex:  # noqa
            impl = f'E:{type(ex).__name__}'
        ctx.count('estimate_ok' if not isinstance(impl, str) else 'estimate_' + impl)
        if not isinstance(impl, str) and i % 6 == 0:
            try:
                fails, _ = nf_oracle(custom_amp(ds), f'custom {ds}')
            except Exception as ex:  # noqa
                fails = [('exception', f'custom amplifier {ds}: {type(ex).__name__}')]
            ctx.count('nf_law_entries')
            for key, desc in fails:
                ctx.violation(key, desc, {'amp': {'custom': ds}})
        est_cases.append((ds, impl))
        est_terms.append(f"run_est {hexf(ds['gain_min'])} {hexf(ds['gain_flatmax'])} {hexf(ds['nf_min'])} {hexf(ds['nf_max'])}")

    rows = coq_eval_retry(ctx, 'C04', 'Prelude Num NumRun Model.Amp Run.C04', terms + est_terms, per_file=ctx.scale(24, 60),
                           prelude='Open Scope float_scope.\n' + '\n'.join(tb.defs))
    for (c, rec), row in zip(meta, rows[:len(terms)]):
        d = diff(rec, row)
        if d:
            ctx.corr_break('corr:Amp.edfa_call', d, strip(c))
    for (ds, impl), row in zip(est_cases, rows[len(terms):]):
        if isinstance(impl, str) or row.startswith('E:'):
            mm = 'E:' + row[2:].split(':')[0] if row.startswith('E:') else 'numeric'
            mi = impl if isinstance(impl, str) else 'numeric'
            if mi != mm:
                # a datasheet sitting on one of the acceptance thresholds may fall on either side
                ctx.corr_break('corr:Amp.estimate_nf_model', f'implementation {mi}, model {row}', {'datasheet': ds})
            continue
        d = cmp_list(impl, [parse_f(x) for x in row.split(',')], 'nf1,nf2,delta_p', absolute=True)
        if d:
            ctx.corr_break('corr:Amp.estimate_nf_model', d, {'datasheet': ds})
    ctx.assumptions += [
        'translator tie: harness/pygen_c04.py (fail-closed Python-ast -> Gallina over Num for Edfa._nf, the stage gains and '
        'cascade formula of Edfa._calc_nf, pin_db / slot_width / saturation clamp of Edfa.interpol_params, the ASE formula '
        'of noise_profile, the gain applied by propagate, the scalar steps of _gain_profile, info.is_in_band, the limits set '
        'by json_io._update_dual_stage and the whole of science_utils.estimate_nf_model; the numpy bookkeeping of these '
        'functions, Edfa.__call__ and demuxed_spectral_information are matched statement by statement against templates) '
        'is trusted; float literals are read as exact decimals',
        'NumF (binary64 with Gallina exp/ln) approximates NumR: not proved; self-tested against libm by the C03 check, '
        'absorbed by the 1e-7 tolerance',
        'polyfit(freq, dgt, 1)[0] is modelled by the closed-form least-squares slope; numpy.interp / linspace by their '
        'defining formulas',
        'fixed-gain / OpenROADM / polynomial (advanced_model) / dual-stage NF formulas are tied by correspondence only; '
        'the theorems about NF are for the variable-gain (nf_min/nf_max) model',
    ]

    def flat_dgt_tilt(v):
        a = v['case'].get('amp', {})
        d = a.get('dgt_override')
        return (v['key'] == 'nonfinite_gain' and bool(d) and max(d) == min(d)
                and any(op['tilt_target'] != 0 for op in v['case']['op']))
    return common.finish(ctx, {'C04-flat-dgt-tilt-nonfinite': flat_dgt_tilt})
